// Package gen holds the seeded, boundary-biased model generators: transport streams built by an independent reference
// multiplexer, table and descriptor models, operation histories and fault plans.
package gen

import (
	"encoding/binary"
	"fmt"
	"math/rand/v2"
	"time"

	astits "github.com/asticode/go-astits"

	"verifharness/refts"
)

type UnitKind int

const (
	UnitPES UnitKind = iota
	UnitPSI
)

// PktPlan describes one TS packet of a unit.
type PktPlan struct {
	N  int                           // payload bytes of the unit carried by this packet
	AF *astits.PacketAdaptationField // adaptation field content (stuffing is added by the multiplexer); nil = none/as needed
}

// Unit is one payload unit (a PES packet, or pointer_field + filler + sections) on a PID.
type Unit struct {
	PID     uint16
	Serial  int
	Kind    UnitKind
	Payload []byte // the unit's bytes as carried in TS payloads, without trailing 0xFF padding
	TailPad bool   // PSI only: fill the last packet with 0xFF after the payload instead of adaptation stuffing
	Plan    []PktPlan
	TSC     uint8 // transport_scrambling_control of the unit's packets (the library does not descramble: the bytes are what they are)

	PES      *astits.PESData      // expected decoding (PES units)
	Sections []*astits.PSISection // expected decoding (PSI units), in order

	FirstPkt, LastPkt int // packet indexes in the stream, set by Mux
	Pkts              []int
}

// Stream is a multiplexed model.
type Stream struct {
	Units   []*Unit
	Packets []*astits.Packet // model of every packet
	Owner   []*Unit          // owning unit of every packet (nil for packets outside units)
	Bytes   []byte
}

// Expected returns the data the unit must be delivered as.
func (u *Unit) Expected() []*astits.DemuxerData {
	if u.Kind == UnitPES {
		return []*astits.DemuxerData{{PID: u.PID, PES: u.PES}}
	}
	var out []*astits.DemuxerData
	for _, s := range u.Sections {
		d := &astits.DemuxerData{PID: u.PID}
		sd := s.Syntax.Data
		d.PAT, d.PMT, d.NIT, d.SDT, d.EIT, d.TOT = sd.PAT, sd.PMT, sd.NIT, sd.SDT, sd.EIT, sd.TOT
		out = append(out, d)
	}
	return out
}

// Tag builds the 8 byte identity tag that starts every PES payload.
func Tag(pid uint16, serial int) []byte {
	b := make([]byte, 8)
	b[0] = 0xA5
	binary.BigEndian.PutUint16(b[1:], pid)
	binary.BigEndian.PutUint32(b[3:], uint32(serial))
	b[7] = 0x5A
	return b
}

// PESOpts tunes NewPESUnit.
type PESOpts struct {
	DataLen   int
	Unbounded bool
	Salt      bool // sprinkle 00 00 01 start codes through the payload
	StreamID  uint8
	WithPTS   bool
}

// NewPESUnit builds a PES unit with a simple header; the payload starts with the identity tag.
func NewPESUnit(r *rand.Rand, pid uint16, serial int, o PESOpts) *Unit {
	data := make([]byte, o.DataLen)
	for i := range data {
		data[i] = byte(r.UintN(256))
	}
	copy(data, Tag(pid, serial))
	if o.Salt {
		for i := 8; i+4 < len(data); i += 1 + r.IntN(60) {
			data[i], data[i+1], data[i+2], data[i+3] = 0, 0, 1, 0xE0
		}
	}
	id := o.StreamID
	if id == 0 {
		id = 0xC0
		if o.Unbounded {
			id = 0xE0
		}
	}
	h := &astits.PESHeader{StreamID: id, OptionalHeader: &astits.PESOptionalHeader{MarkerBits: 2}}
	if id == 0xbe || id == 0xbf {
		h.OptionalHeader = nil
	} else if o.WithPTS {
		h.OptionalHeader.PTSDTSIndicator = 2
		h.OptionalHeader.PTS = &astits.ClockReference{Base: int64(serial)*3003 + int64(pid)}
	}
	b, err := refts.EncodePES(h, data, refts.PESEnc{LengthZero: o.Unbounded}, nil)
	if err != nil {
		panic(err)
	}
	exp, err := refts.DecodePES(b)
	if err != nil {
		panic(err)
	}
	return &Unit{PID: pid, Serial: serial, Kind: UnitPES, Payload: b, PES: exp}
}

// SimpleSection builds a small table section of the given kind that carries serial in its identifying fields.
func SimpleSection(r *rand.Rand, kind refts.TableKind, serial int, extra int) *astits.PSISection {
	s := &astits.PSISection{
		Header: &astits.PSISectionHeader{SectionSyntaxIndicator: true},
		Syntax: &astits.PSISectionSyntax{
			Data:   &astits.PSISectionSyntaxData{},
			Header: &astits.PSISectionSyntaxHeader{CurrentNextIndicator: true, VersionNumber: uint8(serial & 31), SectionNumber: uint8(serial >> 5), LastSectionNumber: uint8(serial>>5) | 0x80},
		},
	}
	sh := s.Syntax.Header
	ext := uint16(serial)
	sh.TableIDExtension = ext
	d := s.Syntax.Data
	ud := func(n int) []*astits.Descriptor {
		if n <= 0 {
			return nil
		}
		var out []*astits.Descriptor
		for n > 0 {
			k := n
			if k > 200 {
				k = 200
			}
			b := make([]byte, k)
			for i := range b {
				b[i] = byte(r.UintN(256))
			}
			out = append(out, &astits.Descriptor{Tag: 0x80 + uint8(r.UintN(0x7f)), Length: uint8(k), UserDefined: b})
			n -= k
		}
		return out
	}
	switch kind {
	case refts.KindPAT:
		s.Header.TableID = 0x00
		d.PAT = &astits.PATData{TransportStreamID: ext}
		n := extra / 4
		for i := 0; i < n; i++ {
			d.PAT.Programs = append(d.PAT.Programs, &astits.PATProgram{ProgramNumber: uint16(5000 + i), ProgramMapID: uint16(0x1F00 + i%0xF0)})
		}
	case refts.KindPMT:
		s.Header.TableID = 0x02
		d.PMT = &astits.PMTData{ProgramNumber: ext, PCRPID: uint16(serial) & 0x1fff}
		d.PMT.ProgramDescriptors = ud(extra / 2)
		d.PMT.ElementaryStreams = []*astits.PMTElementaryStream{{ElementaryPID: 0x100 + uint16(serial&0xff), StreamType: astits.StreamTypeH264Video, ElementaryStreamDescriptors: ud(extra - extra/2)}}
	case refts.KindSDT:
		s.Header.TableID = astits.PSITableID([]uint8{0x42, 0x46}[r.IntN(2)])
		s.Header.PrivateBit = true
		d.SDT = &astits.SDTData{TransportStreamID: ext, OriginalNetworkID: uint16(r.UintN(65536))}
		d.SDT.Services = []*astits.SDTDataService{{ServiceID: uint16(serial), RunningStatus: uint8(r.UintN(8)), HasEITSchedule: r.IntN(2) == 0, Descriptors: ud(extra)}}
	case refts.KindNIT:
		s.Header.TableID = astits.PSITableID([]uint8{0x40, 0x41}[r.IntN(2)])
		s.Header.PrivateBit = true
		d.NIT = &astits.NITData{NetworkID: ext, NetworkDescriptors: ud(extra / 2)}
		d.NIT.TransportStreams = []*astits.NITDataTransportStream{{TransportStreamID: uint16(serial), OriginalNetworkID: uint16(r.UintN(65536)), TransportDescriptors: ud(extra - extra/2)}}
	case refts.KindEIT:
		s.Header.TableID = astits.PSITableID(0x4e + r.UintN(0x22))
		s.Header.PrivateBit = true
		d.EIT = &astits.EITData{ServiceID: ext, TransportStreamID: uint16(r.UintN(65536)), OriginalNetworkID: uint16(r.UintN(65536)), LastTableID: uint8(s.Header.TableID)}
		d.EIT.Events = []*astits.EITDataEvent{{EventID: uint16(serial), StartTime: time.Date(2000, 1, 1, 0, 0, 0, 0, time.UTC).Add(time.Duration(serial) * time.Minute), Duration: time.Duration(serial%86400) * time.Second, RunningStatus: uint8(r.UintN(8)), Descriptors: ud(extra)}}
	case refts.KindTOT:
		s.Header.TableID = 0x73
		s.Header.SectionSyntaxIndicator = false
		s.Header.PrivateBit = true
		s.Syntax.Header = nil
		d.TOT = &astits.TOTData{UTCTime: time.Date(1990, 1, 1, 0, 0, 0, 0, time.UTC).Add(time.Duration(serial) * time.Second), Descriptors: ud(extra)}
	default:
		panic("kind")
	}
	return s
}

// NewPSIUnit builds a PSI unit: pointer_field, filler, the sections back to back.
func NewPSIUnit(r *rand.Rand, pid uint16, serial int, secs []*astits.PSISection, pointer int, reservedRnd bool) *Unit {
	w := &refts.W{}
	if reservedRnd {
		w.Rnd = r
	}
	b := []byte{byte(pointer)}
	for i := 0; i < pointer; i++ {
		b = append(b, byte(r.UintN(256)))
	}
	u := &Unit{PID: pid, Serial: serial, Kind: UnitPSI}
	for _, s := range secs {
		sb, err := refts.EncodeSection(s, w)
		if err != nil {
			panic(err)
		}
		// the expected decoding is the reference decoding of the reference encoding
		dec, err := refts.DecodeSection(&refts.R{B: sb})
		if err != nil {
			panic(fmt.Sprintf("reference cannot decode its own section: %v", err))
		}
		u.Sections = append(u.Sections, dec)
		b = append(b, sb...)
	}
	u.Payload = b
	return u
}

// SectionStarts returns the offsets, inside the unit payload, at which a section starts or the payload ends.
func (u *Unit) SectionBoundaries() map[int]bool {
	m := map[int]bool{}
	if u.Kind != UnitPSI {
		return m
	}
	off := 1 + int(u.Payload[0])
	m[off] = true
	for off+3 <= len(u.Payload) {
		l := int(u.Payload[off+1]&0xf)<<8 | int(u.Payload[off+2])
		off += 3 + l
		m[off] = true
	}
	return m
}

// PlanChunks sets the unit's packet plan from a list of chunk sizes (each 1..184, sum == len(Payload)).
func (u *Unit) PlanChunks(sizes []int) {
	u.Plan = u.Plan[:0]
	t := 0
	for _, n := range sizes {
		if n < 1 || n > 184 {
			panic(fmt.Sprintf("chunk %d", n))
		}
		u.Plan = append(u.Plan, PktPlan{N: n})
		t += n
	}
	if t != len(u.Payload) {
		panic(fmt.Sprintf("chunks sum %d != %d", t, len(u.Payload)))
	}
}

// RandomChunks cuts total bytes into chunks of 1..184 bytes: first and last chunk sizes forced when >0.
func RandomChunks(r *rand.Rand, total, first, last int, full bool) []int {
	var out []int
	rem := total
	if first > 0 && first <= rem && first <= 184 {
		out = append(out, first)
		rem -= first
	}
	tail := 0
	if last > 0 && last <= rem && last <= 184 && rem > 0 {
		tail = last
		rem -= last
	}
	for rem > 0 {
		n := 184
		if !full {
			switch r.IntN(6) {
			case 0:
				n = 1 + r.IntN(184)
			case 1:
				n = 183
			case 2:
				n = 182
			}
		}
		if n > rem {
			n = rem
		}
		out = append(out, n)
		rem -= n
	}
	if tail > 0 {
		out = append(out, tail)
	}
	return out
}

// afSize returns the number of bytes the adaptation field content occupies after the length byte (without stuffing).
func afContentSize(a *astits.PacketAdaptationField) int {
	if a == nil {
		return 0
	}
	n := 1
	if a.HasPCR {
		n += 6
	}
	if a.HasOPCR {
		n += 6
	}
	if a.HasSplicingCountdown {
		n++
	}
	if a.HasTransportPrivateData {
		n += 1 + len(a.TransportPrivateData)
	}
	if a.HasAdaptationExtensionField {
		n += 2
		e := a.AdaptationExtensionField
		if e.HasLegalTimeWindow {
			n += 2
		}
		if e.HasPiecewiseRate {
			n += 3
		}
		if e.HasSeamlessSplice {
			n += 5
		}
		if e.ReservedLength > 0 {
			n += e.ReservedLength
		}
	}
	return n
}

// BuildPacket makes the packet model carrying payload (≤184 bytes) with optional adaptation field content; adaptation
// stuffing fills the packet unless tailPad, in which case the payload is extended with 0xFF.
func BuildPacket(pid uint16, cc uint8, pusi bool, payload []byte, af *astits.PacketAdaptationField, tailPad bool) *astits.Packet {
	p := &astits.Packet{Header: astits.PacketHeader{PID: pid, ContinuityCounter: cc & 15, PayloadUnitStartIndicator: pusi, HasPayload: true}}
	room := 184
	if af != nil {
		room -= 1 + afContentSize(af)
	}
	if len(payload) > room {
		panic(fmt.Sprintf("payload %d does not fit %d", len(payload), room))
	}
	pl := append([]byte{}, payload...)
	free := room - len(pl)
	if tailPad {
		for ; free > 0; free-- {
			pl = append(pl, 0xff)
		}
	}
	p.Payload = pl
	switch {
	case af != nil:
		a := *af
		a.StuffingLength = free
		p.Header.HasAdaptationField = true
		p.AdaptationField = &a
	case free == 1:
		p.Header.HasAdaptationField = true
		p.AdaptationField = &astits.PacketAdaptationField{IsOneByteStuffing: true}
	case free > 1:
		p.Header.HasAdaptationField = true
		p.AdaptationField = &astits.PacketAdaptationField{StuffingLength: free - 2}
	}
	return p
}

// Mux multiplexes the per-PID unit lists. order lists, packet by packet, which PID sends its next packet; it must contain
// each PID exactly as many times as that PID has packets. cc0 gives the first continuity counter per PID.
func Mux(perPID map[uint16][]*Unit, order []uint16, cc0 map[uint16]uint8) *Stream {
	type cur struct {
		ui, pi, off int
		cc          uint8
	}
	st := map[uint16]*cur{}
	s := &Stream{}
	for _, pid := range order {
		c := st[pid]
		if c == nil {
			c = &cur{cc: cc0[pid]}
			st[pid] = c
		}
		us := perPID[pid]
		if c.ui >= len(us) {
			panic("order has too many entries for pid")
		}
		u := us[c.ui]
		pp := u.Plan[c.pi]
		last := c.pi == len(u.Plan)-1
		pkt := BuildPacket(pid, c.cc, c.pi == 0, u.Payload[c.off:c.off+pp.N], pp.AF, last && u.TailPad)
		pkt.Header.TransportScramblingControl = u.TSC
		idx := len(s.Packets)
		if c.pi == 0 {
			u.FirstPkt = idx
			u.Pkts = nil
			s.Units = append(s.Units, u)
		}
		u.Pkts = append(u.Pkts, idx)
		u.LastPkt = idx
		s.Packets = append(s.Packets, pkt)
		s.Owner = append(s.Owner, u)
		c.cc = (c.cc + 1) & 15
		c.off += pp.N
		c.pi++
		if last {
			c.ui++
			c.pi = 0
			c.off = 0
		}
	}
	s.Encode()
	return s
}

// Encode (re)builds the byte stream from the packet models.
func (s *Stream) Encode() {
	s.Bytes = s.Bytes[:0]
	for _, p := range s.Packets {
		b, err := refts.EncodePacket(p, nil)
		if err != nil {
			panic(err)
		}
		s.Bytes = append(s.Bytes, b...)
	}
}

// NumPackets returns the number of packets of a PID's units.
func NumPackets(us []*Unit) int {
	n := 0
	for _, u := range us {
		n += len(u.Plan)
	}
	return n
}

// RandomOrder returns an interleaving of the PIDs' packets. PAT-first constraint: all packets of `first` entries (PID with
// count) are emitted before any packet of the PIDs in `after`.
func RandomOrder(r *rand.Rand, counts map[uint16]int, pids []uint16, hold map[uint16]int) []uint16 {
	// hold[pid] = number of PID-0 packets that must have been emitted before pid may start
	left := map[uint16]int{}
	total := 0
	for _, p := range pids {
		left[p] = counts[p]
		total += counts[p]
	}
	emitted0 := 0
	var out []uint16
	for len(out) < total {
		var cand []uint16
		for _, p := range pids {
			if left[p] > 0 && emitted0 >= hold[p] {
				cand = append(cand, p)
			}
		}
		if len(cand) == 0 {
			panic("order deadlock")
		}
		// weighted by remaining packets, with occasional bursts
		p := cand[r.IntN(len(cand))]
		burst := 1
		if r.IntN(4) == 0 {
			burst = 1 + r.IntN(6)
		}
		for b := 0; b < burst && left[p] > 0; b++ {
			out = append(out, p)
			left[p]--
			if p == 0 {
				emitted0++
			}
		}
	}
	return out
}
