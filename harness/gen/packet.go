package gen

import (
	"math/rand/v2"

	astits "github.com/asticode/go-astits"
)

// Clock33 returns a boundary biased 33 bit value.
func Clock33(r *rand.Rand) int64 { return int64(U(r, 33)) }

// RandomAF draws adaptation field content (write contract: Has* flags, values, TransportPrivateDataLength consistent) whose
// size after the length byte is at most maxBody (≥1). parts/ext select the optional parts (bit masks) when ≥0.
func RandomAF(r *rand.Rand, maxBody int, parts, ext int) *astits.PacketAdaptationField {
	a := &astits.PacketAdaptationField{
		DiscontinuityIndicator:            r.IntN(2) == 0,
		RandomAccessIndicator:             r.IntN(2) == 0,
		ElementaryStreamPriorityIndicator: r.IntN(2) == 0,
	}
	if parts < 0 {
		parts = r.IntN(32)
	}
	if ext < 0 {
		ext = r.IntN(8)
	}
	left := maxBody - 1
	if parts&1 != 0 && left >= 6 {
		a.HasPCR = true
		a.PCR = &astits.ClockReference{Base: Clock33(r), Extension: int64(U(r, 9))}
		left -= 6
	}
	if parts&2 != 0 && left >= 6 {
		a.HasOPCR = true
		a.OPCR = &astits.ClockReference{Base: Clock33(r), Extension: int64(U(r, 9))}
		left -= 6
	}
	if parts&4 != 0 && left >= 1 {
		a.HasSplicingCountdown = true
		a.SpliceCountdown = int(int8(U(r, 8))) // −128..127, boundary biased
		left--
	}
	extSize := 0
	if parts&16 != 0 {
		extSize = 2
		if ext&1 != 0 {
			extSize += 2
		}
		if ext&2 != 0 {
			extSize += 3
		}
		if ext&4 != 0 {
			extSize += 5
		}
		if extSize > left {
			extSize = 0
		}
	}
	// reserved bytes that close the extension (ISO 13818-1 2.4.3.4), now and then
	resv := 0
	if extSize > 0 && r.IntN(5) == 0 && left-extSize > 0 {
		resv = 1 + r.IntN(min(left-extSize, 4))
		extSize += resv
	}
	left -= extSize
	if parts&8 != 0 && left >= 1 {
		n := Len(r, left-1)
		a.HasTransportPrivateData = true
		a.TransportPrivateData = Bytes(r, n)
		a.TransportPrivateDataLength = n
		left -= 1 + n
	}
	if extSize > 0 {
		a.HasAdaptationExtensionField = true
		e := &astits.PacketAdaptationExtensionField{}
		if ext&1 != 0 {
			e.HasLegalTimeWindow = true
			e.LegalTimeWindowIsValid = r.IntN(2) == 0
			e.LegalTimeWindowOffset = uint16(U(r, 15))
		}
		if ext&2 != 0 {
			e.HasPiecewiseRate = true
			e.PiecewiseRate = uint32(U(r, 22))
		}
		if ext&4 != 0 {
			e.HasSeamlessSplice = true
			e.SpliceType = uint8(U(r, 4))
			e.DTSNextAccessUnit = &astits.ClockReference{Base: Clock33(r)}
		}
		e.ReservedLength = resv
		a.AdaptationExtensionField = e
	}
	return a
}

// AFBodySize is the number of bytes of the adaptation field after its length byte, incl. stuffing.
func AFBodySize(a *astits.PacketAdaptationField) int {
	if a.IsOneByteStuffing {
		return 0
	}
	return afContentSize(a) + a.StuffingLength
}

// RandomPacket draws a conformant packet model in the library's write contract; the payload fills the packet exactly.
func RandomPacket(r *rand.Rand) *astits.Packet {
	p := &astits.Packet{Header: astits.PacketHeader{
		ContinuityCounter:          uint8(r.UintN(16)),
		PID:                        uint16(U(r, 13)),
		TransportErrorIndicator:    r.IntN(2) == 0,
		PayloadUnitStartIndicator:  r.IntN(2) == 0,
		TransportPriority:          r.IntN(2) == 0,
		TransportScramblingControl: uint8(r.UintN(4)),
	}}
	afc := 1 + r.IntN(3) // 01 payload only, 10 AF only, 11 both
	p.Header.HasPayload = afc&1 != 0
	p.Header.HasAdaptationField = afc&2 != 0
	room := 184
	if p.Header.HasAdaptationField {
		if p.Header.HasPayload {
			switch r.IntN(8) {
			case 0:
				p.AdaptationField = &astits.PacketAdaptationField{IsOneByteStuffing: true}
				room -= 1
			default:
				var body int
				switch r.IntN(4) {
				case 0:
					body = 1 + r.IntN(3)
				case 1:
					body = 183 - r.IntN(3) - 1 // leaves 1..3 payload bytes; 182 is the maximum with payload
					if body > 182 {
						body = 182
					}
				default:
					body = 1 + r.IntN(182)
				}
				a := RandomAF(r, body, -1, -1)
				a.StuffingLength = 0
				if sp := body - afContentSize(a); sp > 0 && r.IntN(3) > 0 {
					a.StuffingLength = r.IntN(sp + 1)
					if r.IntN(2) == 0 {
						a.StuffingLength = sp
					}
				}
				p.AdaptationField = a
				room -= 1 + AFBodySize(a)
			}
		} else {
			a := RandomAF(r, 183, -1, -1)
			a.StuffingLength = 183 - afContentSize(a)
			p.AdaptationField = a
			room = 0
		}
	}
	if p.Header.HasPayload {
		p.Payload = Bytes(r, room)
		for i := range p.Payload {
			p.Payload[i] = byte(0x30 + i%64)
		}
		if len(p.Payload) > 0 {
			p.Payload[0] = byte(r.UintN(256))
			p.Payload[len(p.Payload)-1] = byte(r.UintN(256))
		}
	}
	return p
}
