package gen

import (
	"math/rand/v2"
	"sort"

	astits "github.com/asticode/go-astits"

	"verifharness/refts"
)

// Model is a set of per-PID unit lists plus the constraints a multiplexer must respect.
type Model struct {
	PerPID map[uint16][]*Unit
	PIDs   []uint16
	Hold   map[uint16]int // pid -> number of PID 0 packets that must precede its first packet
	CC0    map[uint16]uint8
	PMTs   []uint16
	Early  map[uint16]bool // PIDs on which the demuxer may deliver a unit as soon as it is complete (PAT, PMT)
}

// ModelOpts tunes RandomModel.
type ModelOpts struct {
	MaxPES, MaxPMT, MaxSI int
	MaxUnits              int
	Salt                  bool
	MaxPESLen             int
	NoPAT                 bool
	ReservedRnd           bool
	SmallUnits            bool // single packet units mostly
	NoPtrOnlyFirstChunk   bool // avoid first chunks that hold nothing but pointer_field(+filler) on PAT/PMT PIDs
	RichAF                bool // adaptation fields with any optional part on any packet of PES units (never the discontinuity flag)
	Scrambled             bool // packets of some PES PIDs carry transport_scrambling_control 01 / 10 / 11
	SharedPMTPID          bool // the PAT may list a second program on a PMT PID it already announced
}

var siPIDs = []struct {
	pid  uint16
	kind refts.TableKind
}{{0x10, refts.KindNIT}, {0x11, refts.KindSDT}, {0x12, refts.KindEIT}, {0x14, refts.KindTOT}}

func pickPID(r *rand.Rand, used map[uint16]bool) uint16 {
	for {
		var p uint16
		switch r.IntN(4) {
		case 0:
			p = uint16(0x20 + r.IntN(16))
		case 1:
			p = uint16(0x1FFE - r.IntN(16))
		default:
			p = uint16(0x20 + r.IntN(0x1FFE-0x20+1))
		}
		if p >= 0x1F00 && p <= 0x1FEF {
			continue // reserved for the filler programs of large PATs (SimpleSection)
		}
		if !used[p] {
			used[p] = true
			return p
		}
	}
}

// PESLen draws a boundary biased PES payload length (≥ 8 for the tag).
func PESLen(r *rand.Rand, max int) int {
	if max < 16 {
		max = 16
	}
	var n int
	switch r.IntN(6) {
	case 0:
		n = 8 + r.IntN(8)
	case 1, 2:
		k := 1 + r.IntN(6)
		n = k*184 - 20 + r.IntN(23)
	default:
		n = 8 + r.IntN(max)
	}
	if n < 8 {
		n = 8
	}
	if n > max {
		n = max
	}
	return n
}

// ChunkPSI plans a PSI unit. On early-flush PIDs (PAT, PMT) no packet boundary may coincide with an interior section
// boundary (the next section would start in a packet without payload_unit_start, which ISO 13818-1 forbids); noPtrOnly also
// forces at least one section byte into the first packet.
func ChunkPSI(r *rand.Rand, u *Unit, early bool, noPtrOnly bool) {
	total := len(u.Payload)
	bounds := u.SectionBoundaries()
	firstSec := 1 + int(u.Payload[0])
	forbidden := func(off int) bool {
		if !early || off >= total {
			return false
		}
		if off == firstSec {
			return noPtrOnly
		}
		if off < firstSec {
			return noPtrOnly
		}
		return bounds[off]
	}
	first, last := 0, 0
	switch r.IntN(8) {
	case 0:
		first = 1
	case 1:
		last = 1
	case 2:
		first = firstSec // nothing but pointer_field + filler in the first packet
	case 3:
		first = firstSec + 1 + r.IntN(3) // section header split
	}
	full := r.IntN(3) == 0
	var sizes []int
	off := 0
	for off < total {
		n := 184
		if off == 0 && first > 0 {
			n = first
		} else if !full {
			switch r.IntN(6) {
			case 0:
				n = 1 + r.IntN(184)
			case 1:
				n = 183
			case 2:
				n = 182
			}
		}
		if last > 0 && total-off > last && off+n > total-last {
			n = total - last - off
		}
		if n > total-off {
			n = total - off
		}
		if forbidden(off + n) {
			m := n
			for m < 184 && off+m < total && forbidden(off+m) {
				m++
			}
			if forbidden(off + m) {
				m = n
				for m > 1 && forbidden(off+m) {
					m--
				}
			}
			n = m
		}
		if n > total-off {
			n = total - off
		}
		sizes = append(sizes, n)
		off += n
	}
	u.PlanChunks(sizes)
	u.TailPad = r.IntN(2) == 0
}

// RandomModel draws a model of a well-formed stream.
func RandomModel(r *rand.Rand, o ModelOpts) *Model {
	m := &Model{PerPID: map[uint16][]*Unit{}, Hold: map[uint16]int{}, CC0: map[uint16]uint8{}, Early: map[uint16]bool{}}
	used := map[uint16]bool{}
	serial := 1 + r.IntN(1000)
	if o.MaxUnits == 0 {
		o.MaxUnits = 4
	}
	if o.MaxPESLen == 0 {
		o.MaxPESLen = 1200
	}
	nPMT := 0
	if !o.NoPAT && o.MaxPMT > 0 {
		nPMT = r.IntN(o.MaxPMT + 1)
	}
	// PAT
	if !o.NoPAT && (nPMT > 0 || r.IntN(2) == 0) {
		for i := 0; i < nPMT; i++ {
			m.PMTs = append(m.PMTs, pickPID(r, used))
		}
		// program numbers: 1..n, or values that COINCIDE with PMT PIDs - the program's own (the layout many broadcasters use) or the
		// one of the program listed after / before it (program numbers and PIDs are independent 16 / 13 bit values: nothing that
		// is keyed by one may be looked up by the other)
		progNum := func(i int) uint16 { return uint16(i + 1) }
		if n := len(m.PMTs); n > 0 {
			switch r.IntN(5) {
			case 0:
				progNum = func(i int) uint16 { return m.PMTs[i] }
			case 1:
				progNum = func(i int) uint16 { return m.PMTs[(i+1)%n] }
			case 2:
				progNum = func(i int) uint16 { return m.PMTs[(i+n-1)%n] }
			}
		}
		nu := 1 + r.IntN(o.MaxUnits)
		// a PAT is the union of its sections: sometimes every PMT PID is announced by one section only
		split := len(m.PMTs) >= 2 && r.IntN(3) == 0
		splitN := 2 + r.IntN(2)
		for k := 0; k < nu; k++ {
			nsec := 1
			if r.IntN(4) == 0 {
				nsec = 2 + r.IntN(2)
			}
			if split {
				nsec = splitN
			}
			// a later PAT may hand the PMT PIDs to other programs (a rotation: every PID keeps its role, the program it carries
			// changes, so a PID one program leaves is the PID another one moves to)
			rot := 0
			if n := len(m.PMTs); k > 0 && n >= 2 && r.IntN(3) == 0 {
				rot = 1 + r.IntN(n-1)
			}
			var secs []*astits.PSISection
			for j := 0; j < nsec; j++ {
				extra := 0
				if !o.SmallUnits && r.IntN(3) == 0 {
					extra = r.IntN(900)
				}
				s := SimpleSection(r, refts.KindPAT, serial, extra)
				for i := range m.PMTs {
					if split && i%nsec != j {
						continue
					}
					s.Syntax.Data.PAT.Programs = append(s.Syntax.Data.PAT.Programs, &astits.PATProgram{ProgramNumber: progNum(i), ProgramMapID: m.PMTs[(i+rot)%len(m.PMTs)]})
				}
				if o.SharedPMTPID && len(m.PMTs) > 0 && (!split || j == 0) {
					// two programs whose PMTs travel on one PID (legal, and common in statistical multiplexes)
					s.Syntax.Data.PAT.Programs = append(s.Syntax.Data.PAT.Programs, &astits.PATProgram{ProgramNumber: uint16(100 + k), ProgramMapID: m.PMTs[(k+j)%len(m.PMTs)]})
				}
				if r.IntN(3) == 0 {
					s.Syntax.Data.PAT.Programs = append(s.Syntax.Data.PAT.Programs, &astits.PATProgram{ProgramNumber: 0, ProgramMapID: 0x10})
				}
				secs = append(secs, s)
				serial++
			}
			ptr := 0
			if r.IntN(3) == 0 {
				ptr = 1 + r.IntN(20)
			}
			u := NewPSIUnit(r, 0, serial, secs, ptr, o.ReservedRnd)
			ChunkPSI(r, u, true, o.NoPtrOnlyFirstChunk)
			m.PerPID[0] = append(m.PerPID[0], u)
		}
		m.PIDs = append(m.PIDs, 0)
		m.Early[0] = true
	}
	for _, p := range m.PMTs {
		m.Hold[p] = len(m.PerPID[0][0].Plan)
		m.Early[p] = true
		nu := 1 + r.IntN(o.MaxUnits)
		for k := 0; k < nu; k++ {
			nsec := 1
			if r.IntN(5) == 0 {
				nsec = 2
			}
			var secs []*astits.PSISection
			for j := 0; j < nsec; j++ {
				extra := 0
				if !o.SmallUnits && r.IntN(2) == 0 {
					extra = r.IntN(950)
				}
				secs = append(secs, SimpleSection(r, refts.KindPMT, serial, extra))
				serial++
			}
			ptr := 0
			if r.IntN(4) == 0 {
				ptr = 1 + r.IntN(10)
			}
			u := NewPSIUnit(r, p, serial, secs, ptr, o.ReservedRnd)
			ChunkPSI(r, u, true, o.NoPtrOnlyFirstChunk)
			m.PerPID[p] = append(m.PerPID[p], u)
		}
		m.PIDs = append(m.PIDs, p)
	}
	// SI PIDs
	if o.MaxSI > 0 {
		perm := r.Perm(len(siPIDs))
		n := r.IntN(o.MaxSI + 1)
		for _, i := range perm[:n] {
			si := siPIDs[i]
			used[si.pid] = true
			nu := 1 + r.IntN(o.MaxUnits)
			for k := 0; k < nu; k++ {
				nsec := 1 + r.IntN(3)
				var secs []*astits.PSISection
				for j := 0; j < nsec; j++ {
					extra := 0
					if !o.SmallUnits && r.IntN(2) == 0 {
						extra = r.IntN(700)
					}
					secs = append(secs, SimpleSection(r, si.kind, serial, extra))
					serial++
				}
				ptr := 0
				if r.IntN(4) == 0 {
					ptr = 1 + r.IntN(10)
				}
				u := NewPSIUnit(r, si.pid, serial, secs, ptr, o.ReservedRnd)
				ChunkPSI(r, u, false, false)
				m.PerPID[si.pid] = append(m.PerPID[si.pid], u)
			}
			m.PIDs = append(m.PIDs, si.pid)
		}
	}
	// PES PIDs
	nPES := 0
	if o.MaxPES > 0 {
		nPES = 1 + r.IntN(o.MaxPES)
	}
	if len(m.PIDs) == 0 && nPES == 0 {
		nPES = 1
	}
	for i := 0; i < nPES; i++ {
		p := pickPID(r, used)
		// an elementary PID that differs from a PMT PID (or from PID 0) in one bit only: whatever tells table PIDs from the others
		// (a map, a bitmap, a comparison) must tell these two apart
		if r.IntN(3) == 0 {
			base := uint16(0)
			if len(m.PMTs) > 0 && r.IntN(4) != 0 {
				base = m.PMTs[r.IntN(len(m.PMTs))]
			}
			if q := base ^ 1<<uint(r.IntN(13)); q >= 0x20 && q < 0x1fff && !(q >= 0x1f00 && q <= 0x1fef) && !used[q] {
				delete(used, p)
				p, used[q] = q, true
			}
		}
		nu := 1 + r.IntN(o.MaxUnits)
		tsc := uint8(0)
		if o.Scrambled && r.IntN(2) == 0 {
			tsc = uint8(1 + r.IntN(3))
		}
		for k := 0; k < nu; k++ {
			l := PESLen(r, o.MaxPESLen)
			if o.SmallUnits {
				l = 8 + r.IntN(150)
			}
			po := PESOpts{DataLen: l, Unbounded: r.IntN(3) == 0, Salt: o.Salt, WithPTS: r.IntN(2) == 0}
			// stream ids other than the first audio / video one: padding stream and private stream 2, which are nothing but their
			// data bytes (no flags, no PTS; their length is always given), private stream 1, a later audio / video stream, the
			// extended stream id
			switch r.IntN(8) {
			case 0:
				po.StreamID, po.Unbounded, po.WithPTS = 0xbe+uint8(r.IntN(2)), false, false
			case 1:
				po.StreamID = []uint8{0xbd, 0xfd, uint8(0xc1 + r.IntN(31)), uint8(0xe1 + r.IntN(15))}[r.IntN(4)]
			}
			u := NewPESUnit(r, p, serial, po)
			u.TSC = tsc
			serial++
			first, last := 0, 0
			switch r.IntN(6) {
			case 0:
				first = 1
			case 1:
				last = 1
			case 2:
				first = 3 + r.IntN(6)
			}
			u.PlanChunks(RandomChunks(r, len(u.Payload), first, last, r.IntN(3) == 0))
			// adaptation field content on some first packets
			if r.IntN(3) == 0 && u.Plan[0].N <= 160 {
				af := &astits.PacketAdaptationField{RandomAccessIndicator: r.IntN(2) == 0}
				if r.IntN(2) == 0 {
					af.HasPCR = true
					af.PCR = &astits.ClockReference{Base: int64(r.Uint64N(1 << 33)), Extension: int64(r.IntN(300))}
				}
				if r.IntN(3) == 0 {
					af.HasTransportPrivateData = true
					af.TransportPrivateData = Tag(p, serial)
					af.TransportPrivateDataLength = 8
				}
				u.Plan[0].AF = af
			}
			if o.RichAF {
				// any packet of the unit may carry adaptation field content when its chunk leaves room for it
				for k := range u.Plan {
					if u.Plan[k].AF == nil && u.Plan[k].N <= 150 && r.IntN(3) == 0 {
						af := RandomAF(r, 183-u.Plan[k].N, -1, -1)
						af.DiscontinuityIndicator = false
						af.StuffingLength = 0
						u.Plan[k].AF = af
					}
				}
			}
			m.PerPID[p] = append(m.PerPID[p], u)
		}
		m.PIDs = append(m.PIDs, p)
	}
	sort.Slice(m.PIDs, func(i, j int) bool { return m.PIDs[i] < m.PIDs[j] })
	for _, p := range m.PIDs {
		m.CC0[p] = uint8(r.UintN(16))
	}
	return m
}

// Counts returns the number of packets per PID.
func (m *Model) Counts() map[uint16]int {
	c := map[uint16]int{}
	for p, us := range m.PerPID {
		c[p] = NumPackets(us)
	}
	return c
}

// Build multiplexes the model with a random order.
func (m *Model) Build(r *rand.Rand) *Stream {
	return Mux(m.PerPID, RandomOrder(r, m.Counts(), m.PIDs, m.Hold), m.CC0)
}

// BuildOrder multiplexes with an explicit order.
func (m *Model) BuildOrder(order []uint16) *Stream { return Mux(m.PerPID, order, m.CC0) }

// CanonicalOrder emits PID by PID in ascending order (PAT first).
func (m *Model) CanonicalOrder() []uint16 {
	var out []uint16
	c := m.Counts()
	for _, p := range m.PIDs {
		for i := 0; i < c[p]; i++ {
			out = append(out, p)
		}
	}
	return out
}
