package gen

import (
	"math/rand/v2"

	astits "github.com/asticode/go-astits"
)

// HeaderStreamIDs / NoHeaderStreamIDs per ISO 13818-1 Table 2-21/2-22.
var noHeaderIDs = []uint8{0xBC, 0xBE, 0xBF, 0xF0, 0xF1, 0xFF, 0xF2, 0xF8}

func IsNoHeaderID(id uint8) bool {
	for _, x := range noHeaderIDs {
		if x == id {
			return true
		}
	}
	return false
}

// StreamID draws a stream id: special ones often, else uniform over 0xBC..0xFF.
func StreamID(r *rand.Rand, withHeader bool) uint8 {
	for {
		var id uint8
		switch r.IntN(4) {
		case 0:
			id = []uint8{0xC0, 0xE0, 0xFD, 0xBD, 0xDF, 0xEF, 0xFC, 0xFE, 0xFA, 0xF9}[r.IntN(10)]
		case 1:
			id = noHeaderIDs[r.IntN(len(noHeaderIDs))]
		default:
			id = uint8(0xBC + r.IntN(0x44))
		}
		if IsNoHeaderID(id) != withHeader {
			return id
		}
	}
}

// TrickMode builds the struct of a raw trick mode byte per the standard's field split.
func TrickMode(b byte) *astits.DSMTrickMode {
	m := &astits.DSMTrickMode{TrickModeControl: b >> 5}
	switch m.TrickModeControl {
	case 0, 3:
		m.FieldID = b >> 3 & 3
		m.IntraSliceRefresh = b >> 2 & 1
		m.FrequencyTruncation = b & 3
	case 1, 4:
		m.RepeatControl = b & 0x1f
	case 2:
		m.FieldID = b >> 3 & 3
	}
	return m
}

// OptionalHeader draws a PES optional header. flags is the second flag byte (PTS_DTS 2, ESCR, ES rate, trick, copy info, CRC, extension)
// when ≥ 0; extFlags the subset of {pack header 16 (never for the writer), private data 8, sequence counter 4, P-STD 2, extension2 1} when ≥ 0. writerOnly restricts to what the
// library's writer supports (no CRC).
func OptionalHeader(r *rand.Rand, flags, extFlags int, writerOnly bool) *astits.PESOptionalHeader {
	if flags < 0 {
		flags = r.IntN(256)
	}
	if extFlags < 0 {
		extFlags = r.IntN(32)
	}
	h := &astits.PESOptionalHeader{
		MarkerBits:             2,
		ScramblingControl:      uint8(r.UintN(4)),
		Priority:               flag(r),
		DataAlignmentIndicator: flag(r),
		IsCopyrighted:          flag(r),
		IsOriginal:             flag(r),
		PTSDTSIndicator:        uint8(flags >> 6 & 3),
		HasESCR:                flags&0x20 != 0,
		HasESRate:              flags&0x10 != 0,
		HasDSMTrickMode:        flags&0x08 != 0,
		HasAdditionalCopyInfo:  flags&0x04 != 0,
		HasCRC:                 flags&0x02 != 0 && !writerOnly,
		HasExtension:           flags&0x01 != 0,
	}
	if h.PTSDTSIndicator == 1 && writerOnly {
		h.PTSDTSIndicator = 0
	}
	if h.PTSDTSIndicator >= 2 {
		h.PTS = &astits.ClockReference{Base: Clock33(r)}
	}
	if h.PTSDTSIndicator == 3 {
		h.DTS = &astits.ClockReference{Base: Clock33(r)}
	}
	if h.HasESCR {
		h.ESCR = &astits.ClockReference{Base: Clock33(r), Extension: int64(U(r, 9))}
	}
	if h.HasESRate {
		h.ESRate = uint32(U(r, 22))
	}
	if h.HasDSMTrickMode {
		h.DSMTrickMode = TrickMode(byte(r.UintN(256)))
	}
	if h.HasAdditionalCopyInfo {
		h.AdditionalCopyInfo = uint8(U(r, 7))
	}
	if h.HasCRC {
		h.CRC = uint16(U(r, 16))
	}
	if h.HasExtension {
		h.HasPrivateData = extFlags&8 != 0
		h.HasProgramPacketSequenceCounter = extFlags&4 != 0
		h.HasPSTDBuffer = extFlags&2 != 0
		h.HasExtension2 = extFlags&1 != 0
		h.HasPackHeaderField = extFlags&16 != 0 && !writerOnly
		if h.HasPackHeaderField {
			h.PackField = uint8(Len(r, 40))
		}
		if h.HasPrivateData {
			h.PrivateData = Bytes(r, 16)
		}
		if h.HasProgramPacketSequenceCounter {
			h.PacketSequenceCounter = uint8(U(r, 7))
			h.MPEG1OrMPEG2ID = uint8(r.UintN(2))
			h.OriginalStuffingLength = uint8(U(r, 6))
		}
		if h.HasPSTDBuffer {
			h.PSTDBufferScale = uint8(r.UintN(2))
			h.PSTDBufferSize = uint16(U(r, 13))
		}
		if h.HasExtension2 {
			n := Len(r, 127)
			h.Extension2Data = Bytes(r, n)
			h.Extension2Length = uint8(n)
		}
	}
	return h
}
