// Package gen produces random, standard-conformant models for the reference codec and the library under test.
package gen

import (
	"math/rand/v2"
	"time"
	"verifharness/refts"

	"github.com/asticode/go-astits"
)

// descriptor_tag values (ISO/IEC 13818-1 table 2-45, EN 300 468 table 12), in ascending order.
var typedTags = [...]uint8{
	0x05, // registration
	0x06, // data stream alignment
	0x0A, // ISO 639 language
	0x0E, // maximum bitrate
	0x0F, // private data indicator
	0x28, // AVC video
	0x40, // network name
	0x45, // VBI data
	0x46, // VBI teletext
	0x48, // service
	0x4D, // short event
	0x4E, // extended event
	0x50, // component
	0x52, // stream identifier
	0x54, // content
	0x55, // parental rating
	0x56, // teletext
	0x58, // local time offset
	0x59, // subtitling
	0x5F, // private data specifier
	0x6A, // AC-3
	0x7A, // enhanced AC-3
	0x7F, // extension
}

// TypedTags lists the 23 typed descriptor tags.
func TypedTags() []uint8 {
	out := make([]uint8, len(typedTags))
	copy(out, typedTags[:])
	return out
}

func isTyped(tag uint8) bool {
	for _, t := range typedTags {
		if t == tag {
			return true
		}
	}
	return false
}

func isUserDefined(tag uint8) bool { return tag >= 0x80 && tag <= 0xFE }

// U returns a boundary-biased value of `bits` bits: 0, all-ones, a single set bit, all-ones-minus-one, or uniform.
func U(r *rand.Rand, bits int) uint64 {
	if bits <= 0 {
		return 0
	}
	if bits > 64 {
		bits = 64
	}
	var ones uint64 = ^uint64(0)
	if bits < 64 {
		ones = 1<<uint(bits) - 1
	}
	switch r.IntN(10) {
	case 0:
		return 0
	case 1:
		return ones
	case 2:
		return 1 << uint(r.IntN(bits))
	case 3:
		return ones - 1
	default:
		return r.Uint64() & ones
	}
}

// Bytes returns n random bytes.
func Bytes(r *rand.Rand, n int) []byte {
	if n < 0 {
		n = 0
	}
	b := make([]byte, n)
	for i := range b {
		b[i] = byte(r.UintN(256))
	}
	return b
}

// Len returns a boundary-biased length in [0,max]: 0, 1, max, max-1 or uniform.
func Len(r *rand.Rand, max int) int {
	if max <= 0 {
		return 0
	}
	switch r.IntN(10) {
	case 0:
		return 0
	case 1:
		return 1 // max >= 1 here
	case 2, 3:
		return max
	case 4:
		return max - 1
	default:
		return r.IntN(max + 1)
	}
}

func flag(r *rand.Rand) bool { return r.IntN(2) == 1 }

func u8(r *rand.Rand) uint8 { return uint8(U(r, 8)) }

// code3 returns a 3-byte language / country code: mostly letters, sometimes arbitrary bytes.
func code3(r *rand.Rand) []byte {
	b := make([]byte, 3)
	switch r.IntN(8) {
	case 0:
		return Bytes(r, 3)
	case 1:
		for i := range b {
			b[i] = 'A' + byte(r.IntN(26))
		}
	default:
		for i := range b {
			b[i] = 'a' + byte(r.IntN(26))
		}
	}
	return b
}

// between returns a boundary-biased integer in [0,max].
func between(r *rand.Rand, max int) int {
	switch r.IntN(8) {
	case 0:
		return 0
	case 1:
		return max
	default:
		return r.IntN(max + 1)
	}
}

// bcdHM returns a duration of hh hours (0..maxH) and mm minutes (0..59).
func bcdHM(r *rand.Rand, maxH int) time.Duration {
	return time.Duration(between(r, maxH))*time.Hour + time.Duration(between(r, 59))*time.Minute
}

// dvbTime returns a UTC time whose date is anywhere in MJD [15079,65535] (1900-03-01 .. 2038-04-22).
func dvbTime(r *rand.Rand) time.Time {
	const lo, hi = 15079, 65535
	mjd := lo + between(r, hi-lo)
	day := time.Date(1858, time.November, 17, 0, 0, 0, 0, time.UTC).AddDate(0, 0, mjd)
	return time.Date(day.Year(), day.Month(), day.Day(), between(r, 23), between(r, 59), between(r, 59), 0, time.UTC)
}

// The gen* functions fill the typed part and return the body length, or -1 when max is below the minimum body.

func genAC3(r *rand.Rand, d *astits.Descriptor, max int) int {
	if max < 1 {
		return -1
	}
	f := flags(r, 4, max-1)
	a := &astits.DescriptorAC3{HasComponentType: f[0], HasBSID: f[1], HasMainID: f[2], HasASVC: f[3]}
	n := 1
	if a.HasComponentType {
		a.ComponentType, n = u8(r), n+1
	}
	if a.HasBSID {
		a.BSID, n = u8(r), n+1
	}
	if a.HasMainID {
		a.MainID, n = u8(r), n+1
	}
	if a.HasASVC {
		a.ASVC, n = u8(r), n+1
	}
	a.AdditionalInfo = Bytes(r, Len(r, max-n))
	d.AC3 = a
	return n + len(a.AdditionalInfo)
}

// flags returns n flags of which at most budget are set; all combinations are reachable.
func flags(r *rand.Rand, n, budget int) []bool {
	f := make([]bool, n)
	switch r.IntN(6) {
	case 0: // none
	case 1:
		for i := range f {
			f[i] = true
		}
	default:
		for i := range f {
			f[i] = flag(r)
		}
	}
	set := 0
	for _, v := range f {
		if v {
			set++
		}
	}
	for set > budget && set > 0 {
		if i := r.IntN(n); f[i] {
			f[i] = false
			set--
		}
	}
	return f
}

func genEnhancedAC3(r *rand.Rand, d *astits.Descriptor, max int) int {
	if max < 1 {
		return -1
	}
	f := flags(r, 7, max-1)
	a := &astits.DescriptorEnhancedAC3{
		HasComponentType: f[0], HasBSID: f[1], HasMainID: f[2], HasASVC: f[3],
		HasSubStream1: f[4], HasSubStream2: f[5], HasSubStream3: f[6],
		MixInfoExists: flag(r),
	}
	n := 1
	if a.HasComponentType {
		a.ComponentType, n = u8(r), n+1
	}
	if a.HasBSID {
		a.BSID, n = u8(r), n+1
	}
	if a.HasMainID {
		a.MainID, n = u8(r), n+1
	}
	if a.HasASVC {
		a.ASVC, n = u8(r), n+1
	}
	if a.HasSubStream1 {
		a.SubStream1, n = u8(r), n+1
	}
	if a.HasSubStream2 {
		a.SubStream2, n = u8(r), n+1
	}
	if a.HasSubStream3 {
		a.SubStream3, n = u8(r), n+1
	}
	a.AdditionalInfo = Bytes(r, Len(r, max-n))
	d.EnhancedAC3 = a
	return n + len(a.AdditionalInfo)
}

func genAVCVideo(r *rand.Rand, d *astits.Descriptor, max int) int {
	if max < 4 {
		return -1
	}
	d.AVCVideo = &astits.DescriptorAVCVideo{
		ProfileIDC:           u8(r),
		ConstraintSet0Flag:   flag(r),
		ConstraintSet1Flag:   flag(r),
		ConstraintSet2Flag:   flag(r),
		CompatibleFlags:      uint8(U(r, 5)),
		LevelIDC:             u8(r),
		AVCStillPresent:      flag(r),
		AVC24HourPictureFlag: flag(r),
	}
	return 4
}

func genComponent(r *rand.Rand, d *astits.Descriptor, max int) int {
	if max < 6 {
		return -1
	}
	c := &astits.DescriptorComponent{
		StreamContentExt:   uint8(U(r, 4)),
		StreamContent:      uint8(U(r, 4)),
		ComponentType:      u8(r),
		ComponentTag:       u8(r),
		ISO639LanguageCode: code3(r),
		Text:               Bytes(r, Len(r, max-6)),
	}
	d.Component = c
	return 6 + len(c.Text)
}

func genContent(r *rand.Rand, d *astits.Descriptor, max int) int {
	c := &astits.DescriptorContent{}
	for i, n := 0, Len(r, max/2); i < n; i++ {
		c.Items = append(c.Items, &astits.DescriptorContentItem{
			ContentNibbleLevel1: uint8(U(r, 4)),
			ContentNibbleLevel2: uint8(U(r, 4)),
			UserByte:            u8(r),
		})
	}
	d.Content = c
	return 2 * len(c.Items)
}

func genDataStreamAlignment(r *rand.Rand, d *astits.Descriptor, max int) int {
	if max < 1 {
		return -1
	}
	d.DataStreamAlignment = &astits.DescriptorDataStreamAlignment{Type: u8(r)}
	return 1
}

func genExtendedEvent(r *rand.Rand, d *astits.Descriptor, max int) int {
	if max < 6 {
		return -1
	}
	x := &astits.DescriptorExtendedEvent{
		Number:               uint8(U(r, 4)),
		LastDescriptorNumber: uint8(U(r, 4)),
		ISO639LanguageCode:   code3(r),
	}
	avail := max - 6         // shared by the items and the text
	rem := Len(r, avail)     // budget of the items
	itemBytes := 0           // bytes used by the items
	mode := r.IntN(4)        // 0: no item, 1: one item, 2: several items, 3: as many items as fit
	several := 2 + r.IntN(8) // item count of mode 2
	for rem >= 2 && mode != 0 {
		it := &astits.DescriptorExtendedEventItem{}
		switch mode {
		case 1:
			it.Description = Bytes(r, Len(r, rem-2))
			it.Content = Bytes(r, Len(r, rem-2-len(it.Description)))
		case 2:
			it.Description = Bytes(r, Len(r, min(rem-2, 12)))
			it.Content = Bytes(r, Len(r, min(rem-2-len(it.Description), 12)))
		case 3:
			it.Description, it.Content = Bytes(r, 0), Bytes(r, 0)
		}
		x.Items = append(x.Items, it)
		used := 2 + len(it.Description) + len(it.Content)
		rem -= used
		itemBytes += used
		if mode == 1 || (mode == 2 && len(x.Items) >= several) {
			break
		}
	}
	x.Text = Bytes(r, Len(r, avail-itemBytes))
	d.ExtendedEvent = x
	return 6 + itemBytes + len(x.Text)
}

func genExtension(r *rand.Rand, d *astits.Descriptor, max int) int {
	if max < 1 {
		return -1
	}
	x := &astits.DescriptorExtension{}
	d.Extension = x
	if max >= 2 && r.IntN(2) == 0 {
		x.Tag = 0x06 // supplementary audio, EN 300 468 6.4.11
		s := &astits.DescriptorExtensionSupplementaryAudio{
			MixType:                 flag(r),
			EditorialClassification: uint8(U(r, 5)),
			HasLanguageCode:         max >= 5 && flag(r),
		}
		n := 2
		if s.HasLanguageCode {
			s.LanguageCode = code3(r)
			n += 3
		}
		s.PrivateData = Bytes(r, Len(r, max-n))
		x.SupplementaryAudio = s
		return n + len(s.PrivateData)
	}
	for x.Tag = u8(r); x.Tag == 0x06; x.Tag = u8(r) {
	}
	b := Bytes(r, Len(r, max-1))
	x.Unknown = &b
	return 1 + len(b)
}

func genISO639(r *rand.Rand, d *astits.Descriptor, max int) int {
	if max < 4 {
		return -1
	}
	d.ISO639LanguageAndAudioType = &astits.DescriptorISO639LanguageAndAudioType{Language: code3(r), Type: u8(r)}
	return 4
}

func genLocalTimeOffset(r *rand.Rand, d *astits.Descriptor, max int) int {
	l := &astits.DescriptorLocalTimeOffset{}
	for i, n := 0, Len(r, max/13); i < n; i++ {
		l.Items = append(l.Items, &astits.DescriptorLocalTimeOffsetItem{
			CountryCode:             code3(r),
			CountryRegionID:         uint8(U(r, 6)),
			LocalTimeOffsetPolarity: flag(r),
			LocalTimeOffset:         bcdHM(r, 99),
			TimeOfChange:            dvbTime(r),
			NextTimeOffset:          bcdHM(r, 99),
		})
	}
	d.LocalTimeOffset = l
	return 13 * len(l.Items)
}

func genMaximumBitrate(r *rand.Rand, d *astits.Descriptor, max int) int {
	if max < 3 {
		return -1
	}
	d.MaximumBitrate = &astits.DescriptorMaximumBitrate{Bitrate: uint32(U(r, 22)) * 50}
	return 3
}

func genNetworkName(r *rand.Rand, d *astits.Descriptor, max int) int {
	n := &astits.DescriptorNetworkName{Name: Bytes(r, Len(r, max))}
	d.NetworkName = n
	return len(n.Name)
}

func genParentalRating(r *rand.Rand, d *astits.Descriptor, max int) int {
	p := &astits.DescriptorParentalRating{}
	for i, n := 0, Len(r, max/4); i < n; i++ {
		p.Items = append(p.Items, &astits.DescriptorParentalRatingItem{CountryCode: code3(r), Rating: u8(r)})
	}
	d.ParentalRating = p
	return 4 * len(p.Items)
}

func genPrivateDataIndicator(r *rand.Rand, d *astits.Descriptor, max int) int {
	if max < 4 {
		return -1
	}
	d.PrivateDataIndicator = &astits.DescriptorPrivateDataIndicator{Indicator: uint32(U(r, 32))}
	return 4
}

func genPrivateDataSpecifier(r *rand.Rand, d *astits.Descriptor, max int) int {
	if max < 4 {
		return -1
	}
	d.PrivateDataSpecifier = &astits.DescriptorPrivateDataSpecifier{Specifier: uint32(U(r, 32))}
	return 4
}

func genRegistration(r *rand.Rand, d *astits.Descriptor, max int) int {
	if max < 4 {
		return -1
	}
	g := &astits.DescriptorRegistration{
		FormatIdentifier:             uint32(U(r, 32)),
		AdditionalIdentificationInfo: Bytes(r, Len(r, max-4)),
	}
	d.Registration = g
	return 4 + len(g.AdditionalIdentificationInfo)
}

func genService(r *rand.Rand, d *astits.Descriptor, max int) int {
	if max < 3 {
		return -1
	}
	s := &astits.DescriptorService{Type: u8(r)}
	s.Provider = Bytes(r, Len(r, max-3))
	s.Name = Bytes(r, Len(r, max-3-len(s.Provider)))
	d.Service = s
	return 3 + len(s.Provider) + len(s.Name)
}

func genShortEvent(r *rand.Rand, d *astits.Descriptor, max int) int {
	if max < 5 {
		return -1
	}
	s := &astits.DescriptorShortEvent{Language: code3(r)}
	s.EventName = Bytes(r, Len(r, max-5))
	s.Text = Bytes(r, Len(r, max-5-len(s.EventName)))
	d.ShortEvent = s
	return 5 + len(s.EventName) + len(s.Text)
}

func genStreamIdentifier(r *rand.Rand, d *astits.Descriptor, max int) int {
	if max < 1 {
		return -1
	}
	d.StreamIdentifier = &astits.DescriptorStreamIdentifier{ComponentTag: u8(r)}
	return 1
}

func genSubtitling(r *rand.Rand, d *astits.Descriptor, max int) int {
	s := &astits.DescriptorSubtitling{}
	for i, n := 0, Len(r, max/8); i < n; i++ {
		s.Items = append(s.Items, &astits.DescriptorSubtitlingItem{
			Language:          code3(r),
			Type:              u8(r),
			CompositionPageID: uint16(U(r, 16)),
			AncillaryPageID:   uint16(U(r, 16)),
		})
	}
	d.Subtitling = s
	return 8 * len(s.Items)
}

func genTeletext(r *rand.Rand, max int) (*astits.DescriptorTeletext, int) {
	t := &astits.DescriptorTeletext{}
	for i, n := 0, Len(r, max/5); i < n; i++ {
		t.Items = append(t.Items, &astits.DescriptorTeletextItem{
			Language: code3(r),
			Type:     uint8(U(r, 5)),
			Magazine: uint8(U(r, 3)),
			Page:     uint8(between(r, 9)*10 + between(r, 9)),
		})
	}
	return t, 5 * len(t.Items)
}

// vbiLineIDs: data_service_id values whose descriptor bytes carry field_parity / line_offset (EN 300 468 6.2.47).
var vbiLineIDs = [...]uint8{1, 2, 4, 5, 6, 7}

func genVBIData(r *rand.Rand, d *astits.Descriptor, max int) int {
	v := &astits.DescriptorVBIData{}
	used := 0
	target := Len(r, max/2) // number of services; max/2 is the most that fit
	lineCap := [...]int{0, 3, 255}[r.IntN(3)]
	for len(v.Services) < target && max-used >= 2 {
		s := &astits.DescriptorVBIDataService{}
		if r.IntN(8) == 0 { // an id with reserved descriptor bytes: none are kept in the model, length 0 on the wire
			for s.DataServiceID = u8(r); isVBILineID(s.DataServiceID); s.DataServiceID = u8(r) {
			}
		} else {
			s.DataServiceID = vbiLineIDs[r.IntN(len(vbiLineIDs))]
			for i, n := 0, Len(r, min(max-used-2, lineCap)); i < n; i++ {
				s.Descriptors = append(s.Descriptors, &astits.DescriptorVBIDataDescriptor{
					FieldParity: flag(r),
					LineOffset:  uint8(U(r, 5)),
				})
			}
		}
		if n := refts.VBIReservedBytes(s.DataServiceID); n > 0 && max-used-2 < n {
			continue // no room for the reserved bytes of this id
		}
		v.Services = append(v.Services, s)
		used += 2 + len(s.Descriptors) + refts.VBIReservedBytes(s.DataServiceID)
	}
	d.VBIData = v
	return used
}

func isVBILineID(id uint8) bool {
	for _, v := range vbiLineIDs {
		if v == id {
			return true
		}
	}
	return false
}

// Descriptor returns a random, standard-conformant descriptor model for the tag (any of the 23 typed tags, a
// user-defined tag 0x80..0xFE, or any other = unknown tag) whose encoded body is at most maxBody (<= 255) bytes.
// The Length field is set to the body length. A body of length 0 is modelled the way a decoder reports it: no typed
// part, no UserDefined, no Unknown. When maxBody is below the minimum body of the tag, a user-defined descriptor
// 0x80 of maxBody bytes is returned instead.
func Descriptor(r *rand.Rand, tag uint8, maxBody int) *astits.Descriptor {
	if maxBody > 255 {
		maxBody = 255
	}
	if maxBody < 0 {
		maxBody = 0
	}
	d := &astits.Descriptor{Tag: tag}
	n := -1
	switch tag {
	case 0x05:
		n = genRegistration(r, d, maxBody)
	case 0x06:
		n = genDataStreamAlignment(r, d, maxBody)
	case 0x0A:
		n = genISO639(r, d, maxBody)
	case 0x0E:
		n = genMaximumBitrate(r, d, maxBody)
	case 0x0F:
		n = genPrivateDataIndicator(r, d, maxBody)
	case 0x28:
		n = genAVCVideo(r, d, maxBody)
	case 0x40:
		n = genNetworkName(r, d, maxBody)
	case 0x45:
		n = genVBIData(r, d, maxBody)
	case 0x46:
		d.VBITeletext, n = genTeletext(r, maxBody)
	case 0x48:
		n = genService(r, d, maxBody)
	case 0x4D:
		n = genShortEvent(r, d, maxBody)
	case 0x4E:
		n = genExtendedEvent(r, d, maxBody)
	case 0x50:
		n = genComponent(r, d, maxBody)
	case 0x52:
		n = genStreamIdentifier(r, d, maxBody)
	case 0x54:
		n = genContent(r, d, maxBody)
	case 0x55:
		n = genParentalRating(r, d, maxBody)
	case 0x56:
		d.Teletext, n = genTeletext(r, maxBody)
	case 0x58:
		n = genLocalTimeOffset(r, d, maxBody)
	case 0x59:
		n = genSubtitling(r, d, maxBody)
	case 0x5F:
		n = genPrivateDataSpecifier(r, d, maxBody)
	case 0x6A:
		n = genAC3(r, d, maxBody)
	case 0x7A:
		n = genEnhancedAC3(r, d, maxBody)
	case 0x7F:
		n = genExtension(r, d, maxBody)
	default:
		b := Bytes(r, Len(r, maxBody))
		n = len(b)
		if isUserDefined(tag) {
			d.UserDefined = b
		} else {
			d.Unknown = &astits.DescriptorUnknown{Content: b, Tag: tag}
		}
	}
	if n < 0 { // the tag's minimum body does not fit
		d = &astits.Descriptor{Tag: 0x80, UserDefined: Bytes(r, maxBody)}
		n = maxBody
	}
	if n == 0 {
		return &astits.Descriptor{Tag: d.Tag}
	}
	d.Length = uint8(n)
	return d
}

// RandomTag picks a tag: mostly typed tags, sometimes user-defined (0x80..0xFE), sometimes unknown (any other value,
// 0xFF included).
func RandomTag(r *rand.Rand) uint8 {
	switch r.IntN(8) {
	case 0:
		return 0x80 + uint8(r.IntN(0x7F))
	case 1:
		for {
			t := uint8(r.IntN(0x81)) // 0x00..0x7F, 0x80 stands for 0xFF
			if t == 0x80 {
				return 0xFF
			}
			if !isTyped(t) {
				return t
			}
		}
	default:
		return typedTags[r.IntN(len(typedTags))]
	}
}

// Descriptors returns a loop of 0..n mixed descriptors whose total encoding (without the 2 length bytes) is at most
// maxBytes.
func Descriptors(r *rand.Rand, maxBytes int) []*astits.Descriptor {
	if maxBytes > 4095 {
		maxBytes = 4095 // loop lengths are 12 bits
	}
	target := Len(r, 16)
	if r.IntN(8) == 0 {
		target = 1 << 30 // fill the loop
	}
	small := r.IntN(4) == 0 // short bodies: many descriptors
	var ds []*astits.Descriptor
	for rem := maxBytes; len(ds) < target && rem >= 2; {
		mb := min(rem-2, 255)
		if small {
			mb = min(mb, 8)
		}
		d := Descriptor(r, RandomTag(r), mb)
		ds = append(ds, d)
		rem -= 2 + int(d.Length)
	}
	return ds
}
