package gen

import (
	"math/rand/v2"
	"time"

	astits "github.com/asticode/go-astits"

	"verifharness/refts"
)

// TableIDs of a kind.
func TableID(r *rand.Rand, kind refts.TableKind) uint8 {
	switch kind {
	case refts.KindPAT:
		return 0x00
	case refts.KindPMT:
		return 0x02
	case refts.KindNIT:
		return []uint8{0x40, 0x41}[r.IntN(2)]
	case refts.KindSDT:
		return []uint8{0x42, 0x46}[r.IntN(2)]
	case refts.KindEIT:
		switch r.IntN(4) {
		case 0:
			return 0x4e
		case 1:
			return 0x6f
		}
		return uint8(0x4e + r.IntN(0x22))
	case refts.KindTOT:
		return 0x73
	}
	panic("kind")
}

// MaxSectionLength returns the section_length limit of a kind.
func MaxSectionLength(kind refts.TableKind) int {
	if kind == refts.KindEIT {
		return 4093
	}
	return 1021
}

func descBudget(r *rand.Rand, rem int) int {
	if rem <= 0 {
		return 0
	}
	switch r.IntN(4) {
	case 0:
		return 0
	case 1:
		return rem
	}
	return r.IntN(rem + 1)
}

func descLoopSize(ds []*astits.Descriptor) int {
	n := 0
	for _, d := range ds {
		n += 2 + int(d.Length)
	}
	return n
}

// DVBTime draws a UTC time with whole seconds inside the MJD range.
func DVBTime(r *rand.Rand) time.Time {
	var mjd int
	switch r.IntN(5) {
	case 0:
		mjd = 15079
	case 1:
		mjd = 65535
	default:
		mjd = 15079 + r.IntN(65535-15079+1)
	}
	sec := r.IntN(86400)
	switch r.IntN(6) {
	case 0:
		sec = 0
	case 1:
		sec = 86399
	}
	return time.Date(1858, 11, 17, 0, 0, 0, 0, time.UTC).AddDate(0, 0, mjd).Add(time.Duration(sec) * time.Second)
}

// BCDDuration draws hh:mm:ss with hh 0..99.
func BCDDuration(r *rand.Rand) time.Duration {
	h := r.IntN(100)
	switch r.IntN(5) {
	case 0:
		h = 0
	case 1:
		h = 99
	}
	return time.Duration(h)*time.Hour + time.Duration(r.IntN(60))*time.Minute + time.Duration(r.IntN(60))*time.Second
}

// RandomSection draws a well-formed section model of the kind whose section_length stays within limit (≤ the kind's maximum).
// fill: 0 small, 1 medium, 2 as large as the limit allows.
func RandomSection(r *rand.Rand, kind refts.TableKind, limit int, fill int) *astits.PSISection {
	if limit <= 0 || limit > MaxSectionLength(kind) {
		limit = MaxSectionLength(kind)
	}
	s := &astits.PSISection{
		Header: &astits.PSISectionHeader{TableID: astits.PSITableID(TableID(r, kind)), SectionSyntaxIndicator: kind != refts.KindTOT, PrivateBit: r.IntN(2) == 0},
		Syntax: &astits.PSISectionSyntax{Data: &astits.PSISectionSyntaxData{}},
	}
	ext := uint16(U(r, 16))
	budget := limit - 4 // CRC
	if kind != refts.KindTOT {
		s.Syntax.Header = &astits.PSISectionSyntaxHeader{
			TableIDExtension: ext, VersionNumber: uint8(U(r, 5)), CurrentNextIndicator: r.IntN(2) == 0,
			SectionNumber: uint8(U(r, 8)), LastSectionNumber: uint8(U(r, 8)),
		}
		budget -= 5
	}
	target := budget
	switch fill {
	case 0:
		target = r.IntN(60)
	case 1:
		target = r.IntN(budget + 1)
	}
	if target > budget {
		target = budget
	}
	d := s.Syntax.Data
	switch kind {
	case refts.KindPAT:
		d.PAT = &astits.PATData{TransportStreamID: ext}
		n := target / 4
		if fill == 0 && r.IntN(3) == 0 {
			n = 0
		}
		for i := 0; i < n; i++ {
			pn := uint16(U(r, 16))
			if r.IntN(20) == 0 {
				pn = 0
			}
			d.PAT.Programs = append(d.PAT.Programs, &astits.PATProgram{ProgramNumber: pn, ProgramMapID: uint16(U(r, 13))})
		}
	case refts.KindPMT:
		d.PMT = &astits.PMTData{ProgramNumber: ext, PCRPID: uint16(U(r, 13))}
		rem := target - 4
		if rem < 0 {
			rem = 0
		}
		d.PMT.ProgramDescriptors = Descriptors(r, descBudget(r, rem))
		rem -= descLoopSize(d.PMT.ProgramDescriptors)
		small := r.IntN(3) == 0 // many streams without descriptors
		for rem >= 5 {
			es := &astits.PMTElementaryStream{StreamType: astits.StreamType(U(r, 8)), ElementaryPID: uint16(U(r, 13))}
			rem -= 5
			if !small {
				es.ElementaryStreamDescriptors = Descriptors(r, descBudget(r, rem))
				rem -= descLoopSize(es.ElementaryStreamDescriptors)
			}
			d.PMT.ElementaryStreams = append(d.PMT.ElementaryStreams, es)
			if fill == 0 && r.IntN(3) == 0 {
				break
			}
		}
	case refts.KindSDT:
		d.SDT = &astits.SDTData{TransportStreamID: ext, OriginalNetworkID: uint16(U(r, 16))}
		rem := target - 3
		small := r.IntN(3) == 0
		for rem >= 5 {
			sv := &astits.SDTDataService{ServiceID: uint16(U(r, 16)), HasEITSchedule: r.IntN(2) == 0, HasEITPresentFollowing: r.IntN(2) == 0,
				RunningStatus: uint8(U(r, 3)), HasFreeCSAMode: r.IntN(2) == 0}
			rem -= 5
			if !small {
				sv.Descriptors = Descriptors(r, descBudget(r, rem))
				rem -= descLoopSize(sv.Descriptors)
			}
			d.SDT.Services = append(d.SDT.Services, sv)
			if fill == 0 && r.IntN(3) == 0 {
				break
			}
		}
	case refts.KindNIT:
		d.NIT = &astits.NITData{NetworkID: ext}
		rem := target - 4
		if rem < 0 {
			rem = 0
		}
		d.NIT.NetworkDescriptors = Descriptors(r, descBudget(r, rem))
		rem -= descLoopSize(d.NIT.NetworkDescriptors)
		small := r.IntN(3) == 0
		for rem >= 6 {
			t := &astits.NITDataTransportStream{TransportStreamID: uint16(U(r, 16)), OriginalNetworkID: uint16(U(r, 16))}
			rem -= 6
			if !small {
				t.TransportDescriptors = Descriptors(r, descBudget(r, rem))
				rem -= descLoopSize(t.TransportDescriptors)
			}
			d.NIT.TransportStreams = append(d.NIT.TransportStreams, t)
			if fill == 0 && r.IntN(3) == 0 {
				break
			}
		}
	case refts.KindEIT:
		d.EIT = &astits.EITData{ServiceID: ext, TransportStreamID: uint16(U(r, 16)), OriginalNetworkID: uint16(U(r, 16)),
			SegmentLastSectionNumber: uint8(U(r, 8)), LastTableID: uint8(U(r, 8))}
		rem := target - 6
		small := r.IntN(3) == 0
		for rem >= 12 {
			e := &astits.EITDataEvent{EventID: uint16(U(r, 16)), StartTime: DVBTime(r), Duration: BCDDuration(r), RunningStatus: uint8(U(r, 3)), HasFreeCSAMode: r.IntN(2) == 0}
			rem -= 12
			if !small {
				e.Descriptors = Descriptors(r, descBudget(r, rem))
				rem -= descLoopSize(e.Descriptors)
			}
			d.EIT.Events = append(d.EIT.Events, e)
			if fill == 0 && r.IntN(3) == 0 {
				break
			}
		}
	case refts.KindTOT:
		d.TOT = &astits.TOTData{UTCTime: DVBTime(r)}
		rem := target - 7
		if rem > 0 {
			d.TOT.Descriptors = Descriptors(r, descBudget(r, rem))
		}
	}
	return s
}

// PIDFor returns the PID a table kind is carried on in the generated streams (PMT: caller's choice).
func PIDFor(kind refts.TableKind) uint16 {
	switch kind {
	case refts.KindPAT:
		return 0
	case refts.KindNIT:
		return 0x10
	case refts.KindSDT:
		return 0x11
	case refts.KindEIT:
		return 0x12
	case refts.KindTOT:
		return 0x14
	}
	return 0x1000
}

// PATFor builds a minimal PAT unit announcing the PMT PID.
func PATFor(r *rand.Rand, pmtPID uint16) *Unit {
	s := SimpleSection(r, refts.KindPAT, 1, 0)
	s.Syntax.Data.PAT.Programs = []*astits.PATProgram{{ProgramNumber: 1, ProgramMapID: pmtPID}}
	u := NewPSIUnit(r, 0, 0, []*astits.PSISection{s}, 0, false)
	u.PlanChunks([]int{len(u.Payload)})
	u.TailPad = true
	return u
}

// ExactSection draws a section of the kind whose section_length is exactly `length` (e.g. the kind's maximum): a small random section
// padded with user-defined descriptors in its first descriptor loop. PAT sections are padded with programs (length ≡ 9 mod 4
// otherwise the nearest smaller fit is used). Returns nil when the kind cannot reach the length.
func ExactSection(r *rand.Rand, kind refts.TableKind, length int) *astits.PSISection {
	for tries := 0; tries < 50; tries++ {
		s := RandomSection(r, kind, 200, 0)
		b, err := refts.EncodeSection(s, nil)
		if err != nil {
			continue
		}
		pad := length - (len(b) - 3)
		if pad == 0 {
			return s
		}
		if pad < 0 || pad == 1 {
			continue
		}
		d := s.Syntax.Data
		var loop *[]*astits.Descriptor
		switch kind {
		case refts.KindPAT:
			if pad%4 != 0 {
				continue
			}
			used := map[uint16]bool{}
			for _, p := range d.PAT.Programs {
				used[p.ProgramNumber] = true
			}
			for n := uint16(1); pad > 0; n++ {
				if used[n] {
					continue
				}
				d.PAT.Programs = append(d.PAT.Programs, &astits.PATProgram{ProgramNumber: n, ProgramMapID: 0x1f00 + n%0xf0})
				pad -= 4
			}
			return s
		case refts.KindPMT:
			loop = &d.PMT.ProgramDescriptors
		case refts.KindNIT:
			loop = &d.NIT.NetworkDescriptors
		case refts.KindTOT:
			if d.TOT == nil || s.Header.TableID == 0x70 { // a TDT has no descriptor loop
				continue
			}
			loop = &d.TOT.Descriptors
		case refts.KindSDT:
			if len(d.SDT.Services) == 0 {
				continue
			}
			loop = &d.SDT.Services[0].Descriptors
		case refts.KindEIT:
			if len(d.EIT.Events) == 0 {
				continue
			}
			loop = &d.EIT.Events[0].Descriptors
		default:
			return nil
		}
		if descLoopSize(*loop)+pad > 4095 {
			continue
		}
		for pad > 0 {
			c := pad
			if c > 257 {
				c = 257
			}
			if pad-c == 1 {
				c--
			}
			body := Bytes(r, c-2)
			*loop = append(*loop, &astits.Descriptor{Tag: 0x80 + uint8(r.UintN(0x7e)), Length: uint8(c - 2), UserDefined: body})
			pad -= c
		}
		if b, err = refts.EncodeSection(s, nil); err == nil && len(b)-3 == length {
			return s
		}
	}
	return nil
}
