package props

import (
	"bytes"
	"errors"
	"fmt"
	"math/rand/v2"

	astits "github.com/asticode/go-astits"

	"verifharness/gen"
	"verifharness/mon"
	"verifharness/refts"
)

func init() {
	register(&Prop{
		ID:    "C09",
		Level: "fault_enumeration",
		Rule: "(in) generated sections of the six table types (all table_id variants, 12..1024+ bytes, alone and in multi-section units, on their PIDs; PMT behind a PAT) under corruption: every single-bit flip of every " +
			"unit byte (exhaustive per unit), random byte substitutions, bursts ≤ 32 bits, section_length changes, truncation/extension, CRC field overwrites; the demuxer's outcome is compared with the independent " +
			"reference decoder's accept/reject decision and decoding of the same bytes. (out) Muxer histories with ES descriptors of every supported tag and size that fits one packet (struct Length right/0/wrong) and " +
			"writePSIData on larger PAT/PMT contents: section_length, CRC_32 and trailing stuffing judged by the reference; valid sections holding the CRC_32 of their own shortened form with the section_length rewritten to it (stage self-similar), valid PAT sections whose body reads as a complete signed section of its own, with the section_length zeroed (stage embedded), checksum fields of all zeros / all ones / complemented / byte-reversed; every PAT/PMT packet of long Muxer sessions (hundreds of emissions of unchanged tables, stage endurance) decoded as well. distinct = hash of the corrupted unit / output; non-trivial = a corruption was applied or a section emitted",
		Assumptions: []string{"error or nothing is always an acceptable outcome for a corrupted unit; a delivered table must be one the reference accepts from the same bytes, equal field for field and in order",
			"the reference is refts/psi.go with the bit-serial CRC of refts/crc.go"},
		Shards: 32,
		Run:    runC09,
		Guards: func(m *mon.Merged, tier string) []string {
			var out []string
			need(m, &out, "bit_flips_applied", 80000)
			need(m, &out, "random_corruptions_applied", 10000)
			need(m, &out, "uncorrupted_units_delivered", 60)
			need(m, &out, "sections_of_maximal_length", 20)
			need(m, &out, "outcome_error_or_nothing", 50000)
			need(m, &out, "muxer_sections_checked", 2000)
			need(m, &out, "self_similar_sections", 1500)
			need(m, &out, "embedded_sections", 400)
			need(m, &out, "straddle_units_judged", 300)
			need(m, &out, "written_psi_sections_checked", 300)
			for _, k := range []string{"PAT", "PMT", "NIT", "SDT", "EIT", "TOT"} {
				need(m, &out, "flips_in_"+k, 2000)
			}
			for _, reg := range []string{"table_id", "length", "header", "body", "crc"} {
				need(m, &out, "flip_region_"+reg, 100)
			}
			return out
		},
		Exhaustive: func(tier string) bool { return true },
	})
}

type c09unit struct {
	kind   refts.TableKind
	pid    uint16
	u      *gen.Unit
	prefix []byte // PAT packet for PMT units
}

func newC09Unit(r *rand.Rand, kind refts.TableKind, nsec, limit int) *c09unit {
	cu := &c09unit{kind: kind, pid: gen.PIDFor(kind)}
	var secs []*astits.PSISection
	for j := 0; j < nsec; j++ {
		secs = append(secs, gen.RandomSection(r, kind, limit, 1))
	}
	ptr := 0
	if r.IntN(5) == 0 {
		ptr = 1 + r.IntN(8)
	}
	cu.u = gen.NewPSIUnit(r, cu.pid, 0, secs, ptr, true)
	if kind == refts.KindPAT || kind == refts.KindPMT {
		// fixed 184 byte chunks: an interior section boundary must not fall on a packet boundary (the next section would
		// start in a packet without payload_unit_start); move it with one more filler byte
		for tries := 0; tries < 8; tries++ {
			clash := false
			for off := range cu.u.SectionBoundaries() {
				if off%184 == 0 && off < len(cu.u.Payload) && off != 1+ptr {
					clash = true
				}
			}
			if !clash {
				break
			}
			ptr++
			cu.u = gen.NewPSIUnit(r, cu.pid, 0, secs, ptr, true)
		}
	}
	if kind == refts.KindPMT {
		pat := gen.PATFor(r, cu.pid)
		s := gen.Mux(map[uint16][]*gen.Unit{0: {pat}}, []uint16{0}, nil)
		cu.prefix = s.Bytes
	}
	return cu
}

// stream builds the TS bytes for a (possibly corrupted) unit payload: full 184 byte chunks, 0xFF padding in the last packet.
func (cu *c09unit) stream(payload []byte) []byte {
	out := append([]byte{}, cu.prefix...)
	cc := uint8(3)
	for off := 0; off < len(payload); off += 184 {
		end := off + 184
		if end > len(payload) {
			end = len(payload)
		}
		p := gen.BuildPacket(cu.pid, cc, off == 0, payload[off:end], nil, true)
		cc++
		b, err := refts.EncodePacket(p, nil)
		if err != nil {
			panic(err)
		}
		out = append(out, b...)
	}
	return out
}

// judge runs the library on the payload and compares with the reference decoder.
func (cu *c09unit) judge(c *mon.Ctx, stage string, idx int64, payload []byte, cls string, corrupted bool) {
	// the reference decodes exactly the bytes the demuxer is given: the unit payload plus the 0xFF padding of the last packet
	onWire := append([]byte{}, payload...)
	for len(onWire)%184 != 0 {
		onWire = append(onWire, 0xff)
	}
	_, refSecs, _ := refts.DecodeUnit(onWire)
	var accepted []*astits.DemuxerData
	for _, rs := range refSecs {
		if rs.Err != nil || rs.Section == nil || rs.Section.Syntax == nil || rs.Section.Syntax.Data == nil {
			continue
		}
		sd := rs.Section.Syntax.Data
		if sd.PAT == nil && sd.PMT == nil && sd.NIT == nil && sd.SDT == nil && sd.EIT == nil && sd.TOT == nil {
			continue
		}
		accepted = append(accepted, &astits.DemuxerData{PID: cu.pid, PAT: sd.PAT, PMT: sd.PMT, NIT: sd.NIT, SDT: sd.SDT, EIT: sd.EIT, TOT: sd.TOT})
	}
	run := RunDemux(cu.stream(payload), baseCfg("data"))
	data := map[string]any{"unit_payload": mon.Hex(payload, 2200), "kind": cu.kind.String(), "corruption": cls}
	if run.Panic != "" {
		c.Violate("C09/in/panic:"+cu.kind.String(), stage, idx, run.Panic, data)
		return
	}
	var got []*astits.DemuxerData
	for _, d := range run.Datas() {
		if d.PID == cu.pid {
			cp := *d
			cp.FirstPacket = nil
			got = append(got, &cp)
		}
	}
	if !corrupted {
		if len(run.Errors()) > 0 || len(got) != len(cu.u.Sections) {
			c.Violate("C09/in/valid-section-not-delivered:"+cu.kind.String(), stage, idx, fmt.Sprintf("%d delivered of %d, errors %v", len(got), len(cu.u.Sections), run.Errors()), data)
			return
		}
		c.Count("uncorrupted_units_delivered")
	}
	if len(got) == 0 {
		c.Count("outcome_error_or_nothing")
	} else {
		c.Count("outcome_delivered")
	}
	// order preserving sub-list of the accepted tables
	ai := 0
	for gi, g := range got {
		found := false
		for ai < len(accepted) {
			if mon.Diff(g, accepted[ai], nil) == "" {
				found = true
				ai++
				break
			}
			ai++
		}
		if !found {
			cause := "altered-or-unchecked"
			if len(accepted) == 0 {
				cause = "reference-rejects-everything"
			}
			c.Violate("C09/in/delivered-table-not-accepted-by-reference:"+cu.kind.String()+":"+cls+":"+cause, stage, idx,
				fmt.Sprintf("delivered table %d (%s) is not among the %d tables the reference decoder accepts from the same bytes", gi, dataKind(g), len(accepted)), data)
			return
		}
	}
}

func flipRegion(cu *c09unit, off int) string {
	p := cu.u.Payload
	o := 1 + int(p[0])
	if off < o {
		return "pointer"
	}
	for o+3 <= len(p) {
		l := int(p[o+1]&0xf)<<8 | int(p[o+2])
		switch {
		case off == o:
			return "table_id"
		case off < o+3:
			return "length"
		case off < o+8 && cu.kind != refts.KindTOT:
			return "header"
		case off < o+3+l-4:
			return "body"
		case off < o+3+l:
			return "crc"
		}
		o += 3 + l
	}
	return "stuffing"
}

// maxSizeSections: valid sections whose section_length is exactly the largest value the table allows (and the two below), alone in
// their unit and corrupted in a few places: the largest legal section is delivered like any other.
func maxSizeSections(c *mon.Ctx) {
	n := c.Pick(36, 1200)
	for i := int64(0); i < n; i++ {
		if !c.Mine("max-size", i) {
			continue
		}
		r := c.Rng("max-size", i)
		kind := kindsAll[i%6]
		length := gen.MaxSectionLength(kind) - int(i/6)%3
		sec := gen.ExactSection(r, kind, length)
		if sec == nil {
			continue
		}
		cu := &c09unit{kind: kind, pid: gen.PIDFor(kind)}
		cu.u = gen.NewPSIUnit(r, cu.pid, 0, []*astits.PSISection{sec}, 0, true)
		if kind == refts.KindPMT {
			pat := gen.PATFor(r, cu.pid)
			cu.prefix = gen.Mux(map[uint16][]*gen.Unit{0: {pat}}, []uint16{0}, nil).Bytes
		}
		cu.judge(c, "max-size", i, cu.u.Payload, "none", false)
		c.Count("sections_of_maximal_length")
		c.Seen("maximal_length_kinds", kind.String())
		for k := 0; k < 6; k++ {
			pl := append([]byte{}, cu.u.Payload...)
			off := r.IntN(len(pl))
			pl[off] ^= 1 << uint(r.IntN(8))
			cu.judge(c, "max-size", i, pl, "bitflip-"+flipRegion(cu, off), true)
		}
	}
}

// selfSimilarCase: a valid section that holds, at the place where a smaller section_length would put the CRC_32, exactly the CRC_32 of
// the section cut there (with that smaller length in its header). The original is valid and must be delivered unmodified; with the
// section_length rewritten to the smaller value — a single flipped bit when the two values differ in one bit — the checksum still
// matches, and what the demuxer makes of it must be what the reference decoder makes of it (a table cut short of its mandatory fields
// or in the middle of a loop entry is no table).
func selfSimilarCase(c *mon.Ctx, idx int64, r *rand.Rand) {
	kind := kindsAll[idx%6]
	for tries := 0; tries < 30; tries++ {
		cu := newC09Unit(r, kind, 1, 14+r.IntN(260))
		p := append([]byte{}, cu.u.Payload...)
		o := 1 + int(p[0])
		L := int(p[o+1]&0xf)<<8 | int(p[o+2])
		// candidate smaller lengths: single-bit clears first, then any value
		var cands []int
		for b := 0; b < 12; b++ {
			if L&(1<<b) != 0 && L&^(1<<b) >= 4 {
				cands = append(cands, L&^(1<<b))
			}
		}
		single := len(cands) > 0 && idx%3 != 2
		if !single {
			cands = []int{4 + r.IntN(L-4)}
		}
		L2 := cands[r.IntN(len(cands))]
		q := o + 3 + L2 - 4 // where the CRC of the shorter section sits
		if q+4 > o+3+L-4 {
			continue // would overlap the real CRC
		}
		cut := append([]byte{}, p[o:q]...)
		cut[1] = cut[1]&0xf0 | byte(L2>>8)
		cut[2] = byte(L2)
		crc := refts.CRC32(cut)
		p[q], p[q+1], p[q+2], p[q+3] = byte(crc>>24), byte(crc>>16), byte(crc>>8), byte(crc)
		e := o + 3 + L
		full := refts.CRC32(p[o : e-4])
		p[e-4], p[e-3], p[e-2], p[e-1] = byte(full>>24), byte(full>>16), byte(full>>8), byte(full)
		// still a valid section for the reference? (the four bytes may have hit a field with reserved values or a loop length)
		onWire := append([]byte{}, p...)
		for len(onWire)%184 != 0 {
			onWire = append(onWire, 0xff)
		}
		_, secs, _ := refts.DecodeUnit(onWire)
		if len(secs) != 1 || secs[0].Err != nil || secs[0].Section == nil || secs[0].Section.Syntax == nil {
			c.Count("self_similar_candidates_not_valid")
			continue
		}
		cu.u = &gen.Unit{PID: cu.u.PID, Kind: gen.UnitPSI, Payload: p, Sections: []*astits.PSISection{secs[0].Section}}
		// the four bytes may have put a field outside the domain of the table generators (a date before 1900-03-01, time digits that
		// are not BCD), where library and reference read the valid section differently: the fidelity of valid sections is C13's
		// subject and is judged there on its own generators; this stage needs an original both sides agree on
		if run := RunDemux(cu.stream(p), baseCfg("data")); run.Panic == "" {
			var got []*astits.DemuxerData
			for _, d := range run.Datas() {
				if d.PID == cu.pid {
					cp := *d
					cp.FirstPacket = nil
					got = append(got, &cp)
				}
			}
			sd := secs[0].Section.Syntax.Data
			want := &astits.DemuxerData{PID: cu.pid, PAT: sd.PAT, PMT: sd.PMT, NIT: sd.NIT, SDT: sd.SDT, EIT: sd.EIT, TOT: sd.TOT}
			if len(got) != 1 || mon.Diff(got[0], want, nil) != "" {
				c.Count("self_similar_candidates_outside_the_generators_domain")
				continue
			}
		}
		cu.judge(c, "self-similar", idx, p, "none", false)
		sh := append([]byte{}, p...)
		sh[o+1] = sh[o+1]&0xf0 | byte(L2>>8)
		sh[o+2] = byte(L2)
		cls := "length-rewrite-self-similar"
		if single {
			cls = "bitflip-length-self-similar"
		}
		cu.judge(c, "self-similar", idx, sh, cls, true)
		c.Count("self_similar_sections")
		c.Count("self_similar_" + kind.String())
		c.Case(mon.HashBytes("c09ss", sh), true)
		return
	}
}

// embeddedSectionCase: a valid PAT section whose body - transport_stream_id, version byte, section numbers, program entries: bytes
// that may hold anything - reads, from its fourth byte on, as a complete section of one of the six table types with a correct CRC_32
// of its own, followed by 0xFF. The original is valid and must be delivered unmodified. With the section_length zeroed (one byte
// substituted when it is below 256, a burst over its 12 bits otherwise) no PAT section is left - a section_length of 0 cannot hold the
// fields and the CRC_32 of the table - and what the demuxer makes of the bytes must be what the reference decoder makes of them: the
// table inside was never sent.
func embeddedSectionCase(c *mon.Ctx, idx int64, r *rand.Rand) {
	kind := kindsAll[idx%6]
	for tries := 0; tries < 30; tries++ {
		in := newC09Unit(r, kind, 1, 14+r.IntN(400))
		ip := in.u.Payload
		io := 1 + int(ip[0])
		iL := int(ip[io+1]&0xf)<<8 | int(ip[io+2])
		inner := ip[io : io+3+iL]
		n := len(inner)
		if n < 9 {
			continue
		}
		f := 1 + r.IntN(12)
		for (n-5+f)%4 != 0 {
			f++
		}
		L := n + f + 4
		if L > 1021 {
			continue
		}
		p := []byte{0, 0x00, 0xb0 | byte(L>>8), byte(L)}
		p = append(p, inner...)
		p = append(p, bytes.Repeat([]byte{0xff}, f)...)
		crc := refts.CRC32(p[1:])
		p = append(p, byte(crc>>24), byte(crc>>16), byte(crc>>8), byte(crc))
		_, secs, _ := refts.DecodeUnit(append(append([]byte{}, p...), 0xff))
		if len(secs) != 1 || secs[0].Err != nil || secs[0].Section == nil || secs[0].Section.Syntax == nil || secs[0].Section.Syntax.Data.PAT == nil {
			c.Count("embedded_candidates_not_valid")
			continue
		}
		cu := &c09unit{kind: refts.KindPAT, pid: 0}
		cu.u = &gen.Unit{PID: 0, Kind: gen.UnitPSI, Payload: p, Sections: []*astits.PSISection{secs[0].Section}}
		cu.judge(c, "embedded", idx, p, "none", false)
		z := append([]byte{}, p...)
		cls := "length-byte-zeroed-embedded-section"
		if L >= 256 {
			cls = "length-burst-zeroed-embedded-section"
		}
		z[2] &= 0xf0
		z[3] = 0
		cu.judge(c, "embedded", idx, z, cls, true)
		c.Count("embedded_sections")
		c.Count("embedded_" + kind.String())
		c.Case(mon.HashBytes("c09em", z), true)
		return
	}
}

func runC09(c *mon.Ctx) {
	// valid multi-section units whose interior section header sits 1..183 bytes before the end of a packet payload (split between
	// two packets for 1 and 2): delivered like any other, and corrupted in a few places
	for i := int64(0); i < 2*184; i++ {
		before := int(i % 184)
		if before == 0 || !c.Mine("header-straddle", i) {
			continue
		}
		r := c.Rng("header-straddle", i)
		kind := []refts.TableKind{refts.KindPAT, refts.KindPMT}[i/184]
		_, u := straddleStream(r, kind, before)
		cu := &c09unit{kind: kind, pid: u.PID, u: u}
		if kind == refts.KindPMT {
			cu.prefix = gen.Mux(map[uint16][]*gen.Unit{0: {gen.PATFor(r, cu.pid)}}, []uint16{0}, nil).Bytes
		}
		cu.judge(c, "header-straddle", i, u.Payload, "none", false)
		for k := 0; k < 4; k++ {
			pl := append([]byte{}, u.Payload...)
			off := r.IntN(len(pl))
			pl[off] ^= 1 << uint(r.IntN(8))
			cu.judge(c, "header-straddle", i, pl, "bitflip-"+flipRegion(cu, off), true)
		}
		c.Count("straddle_units_judged")
		c.Case(mon.HashBytes("c09hs", u.Payload), true)
	}
	for i := int64(0); i < c.Pick(3000, 300000); i++ {
		if c.Mine("self-similar", i) {
			selfSimilarCase(c, i, c.Rng("self-similar", i))
		}
	}
	for i := int64(0); i < c.Pick(600, 30000); i++ {
		if c.Mine("embedded", i) {
			embeddedSectionCase(c, i, c.Rng("embedded", i))
		}
	}
	enduranceSessions(c, func(stage string, i int64, shape string, hr *HistRun) {
		checkMuxedTables(c, stage, i, hr)
	})
	maxSizeSections(c)
	// (in) exhaustive bit flips
	nu := c.Pick(216, 20000)
	for i := int64(0); i < nu; i++ {
		if !c.Mine("flips", i) {
			continue
		}
		r := c.Rng("flips", i)
		kind := kindsAll[i%6]
		nsec := 1
		limit := 40 + r.IntN(300)
		switch i % 5 {
		case 0:
			nsec = 2 + r.IntN(2)
			limit = 30 + r.IntN(120)
		case 1:
			limit = 12 + r.IntN(30)
		case 2:
			if c.Thorough() || i < 24 {
				limit = 1021
			}
		}
		cu := newC09Unit(r, kind, nsec, limit)
		cu.judge(c, "flips", i, cu.u.Payload, "none", false)
		// one trailing 0xFF byte is part of the flipped range as well
		pl := append(append([]byte{}, cu.u.Payload...), 0xff, 0xff)
		for off := 0; off < len(pl); off++ {
			reg := "stuffing"
			if off < len(cu.u.Payload) {
				reg = flipRegion(cu, off)
			}
			for bit := 0; bit < 8; bit++ {
				pl[off] ^= 1 << uint(bit)
				cu.judge(c, "flips", i, pl, "bitflip-"+reg, true)
				pl[off] ^= 1 << uint(bit)
				c.Count("bit_flips_applied")
				c.Count("flips_in_" + kind.String())
				c.Count("flip_region_" + reg)
			}
		}
		c.CaseN(int64(len(pl)*8 + 1))
		if i < 2 {
			c.Sample("flips", map[string]any{"kind": kind.String(), "sections": nsec, "unit_bytes": len(cu.u.Payload), "flips": len(pl) * 8, "unit_head": mon.Hex(cu.u.Payload, 32)})
		}
	}
	// (in) other corruptions
	nr := c.Pick(20000, 3000000)
	for i := int64(0); i < nr; i++ {
		if !c.Mine("corrupt", i) {
			continue
		}
		r := c.Rng("corrupt", i)
		kind := kindsAll[r.IntN(6)]
		cu := newC09Unit(r, kind, 1+r.IntN(3), 20+r.IntN(400))
		pl := append([]byte{}, cu.u.Payload...)
		cls := []string{"byte-substitution", "burst", "length-rewrite", "truncate", "extend", "crc-overwrite", "length-and-move"}[r.IntN(7)]
		firstSec := 1 + int(pl[0])
		switch cls {
		case "byte-substitution":
			for k := 0; k < 1+r.IntN(4); k++ {
				pl[r.IntN(len(pl))] = byte(r.UintN(256))
			}
		case "burst":
			start := r.IntN(len(pl) * 8)
			n := 1 + r.IntN(32)
			for b := start; b < start+n && b < len(pl)*8; b++ {
				if r.IntN(2) == 0 || b == start || b == start+n-1 {
					pl[b/8] ^= 0x80 >> uint(b%8)
				}
			}
		case "length-rewrite":
			l := int(pl[firstSec+1]&0xf)<<8 | int(pl[firstSec+2])
			nl := []int{0, 1, 3, 4, 5, l - 1, l + 1, l - 4, 0xfff, r.IntN(0x1000)}[r.IntN(10)]
			if nl < 0 {
				nl = 0
			}
			pl[firstSec+1] = pl[firstSec+1]&0xf0 | byte(nl>>8)
			pl[firstSec+2] = byte(nl)
		case "truncate":
			pl = pl[:1+r.IntN(len(pl))]
		case "extend":
			pl = append(pl, gen.Bytes(r, 1+r.IntN(30))...)
		case "crc-overwrite":
			l := int(pl[firstSec+1]&0xf)<<8 | int(pl[firstSec+2])
			e := firstSec + 3 + l
			if e <= len(pl) && l >= 4 {
				// random bytes, and the values a damaged or never computed checksum typically has: all zeros, all ones, the
				// complement of the right one, the right one with its bytes reversed
				c0, c1, c2, c3 := pl[e-4], pl[e-3], pl[e-2], pl[e-1]
				switch r.IntN(6) {
				case 0:
					copy(pl[e-4:e], []byte{0, 0, 0, 0})
					cls = "crc-zeroed"
				case 1:
					copy(pl[e-4:e], []byte{0xff, 0xff, 0xff, 0xff})
				case 2:
					copy(pl[e-4:e], []byte{^c0, ^c1, ^c2, ^c3})
				case 3:
					copy(pl[e-4:e], []byte{c3, c2, c1, c0})
				default:
					copy(pl[e-4:e], gen.Bytes(r, 4))
				}
			}
		case "length-and-move":
			// shorten the section by k bytes, removing them from the body
			l := int(pl[firstSec+1]&0xf)<<8 | int(pl[firstSec+2])
			k := 1 + r.IntN(4)
			if l > k+8 {
				nl := l - k
				pl[firstSec+1] = pl[firstSec+1]&0xf0 | byte(nl>>8)
				pl[firstSec+2] = byte(nl)
				cut := firstSec + 3 + 5 + r.IntN(l-k-8)
				pl = append(pl[:cut], pl[cut+k:]...)
			}
		}
		cu.judge(c, "corrupt", i, pl, cls, true)
		c.Count("random_corruptions_applied")
		c.Count("corruption_" + cls)
		c.Case(mon.HashBytes("c09c", pl), true)
	}
	// (out) muxer sections
	no := c.Pick(1200, 100000)
	for i := int64(0); i < no; i++ {
		if !c.Mine("out", i) {
			continue
		}
		r := c.Rng("out", i)
		muxSections(c, i, r)
	}
	// (out) writePSIData on contents the Muxer cannot hold
	nw := c.Pick(600, 8000)
	for i := int64(0); i < nw; i++ {
		if !c.Mine("outpsi", i) {
			continue
		}
		r := c.Rng("outpsi", i)
		kind := []refts.TableKind{refts.KindPAT, refts.KindPMT}[i%2]
		var secs []*astits.PSISection
		for j := 0; j < 1+r.IntN(2); j++ {
			s := gen.RandomSection(r, kind, 0, r.IntN(3))
			if kind == refts.KindPMT {
				all := append([]*astits.Descriptor{}, s.Syntax.Data.PMT.ProgramDescriptors...)
				for _, es := range s.Syntax.Data.PMT.ElementaryStreams {
					all = append(all, es.ElementaryStreamDescriptors...)
				}
				if hasReservedVBIService(all) {
					s.Syntax.Data.PMT.ProgramDescriptors = nil
					for _, es := range s.Syntax.Data.PMT.ElementaryStreams {
						es.ElementaryStreamDescriptors = nil
					}
				}
				// struct Length field modes
				for _, d := range all {
					switch r.IntN(3) {
					case 1:
						d.Length = 0
					case 2:
						d.Length = d.Length/2 + 3
					}
				}
			}
			enc, err := refts.EncodeSection(s, nil)
			if err != nil {
				continue
			}
			s.Header.SectionLength = uint16(len(enc) - 3)
			secs = append(secs, s)
		}
		if len(secs) == 0 {
			continue
		}
		var out []byte
		var werr error
		if p, v, st := mon.Guarded(func() { out, _, werr = astits.VerifWritePSIData(&astits.PSIData{Sections: secs}) }); p {
			c.Violate("C09/out/panic", "outpsi", i, fmt.Sprintf("%v\n%s", v, st), nil)
			continue
		}
		if werr != nil {
			c.Violate("C09/out/write-error:"+kind.String(), "outpsi", i, werr.Error(), nil)
			continue
		}
		checkEmittedSections(c, "outpsi", i, out, len(secs), kind.String(), map[string]any{"written": mon.Hex(out, 1200)})
		c.Add("written_psi_sections_checked", int64(len(secs)))
		c.Case(mon.HashBytes("c09w", out), true)
	}
}

// checkEmittedSections walks pointer_field + sections + 0xFF stuffing and judges lengths and CRCs with the reference.
func checkEmittedSections(c *mon.Ctx, stage string, idx int64, payload []byte, wantSecs int, cls string, data map[string]any) bool {
	if len(payload) < 1 || payload[0] != 0 {
		c.Violate("C09/out/pointer-field:"+cls, stage, idx, fmt.Sprintf("payload begins %x", clipBytes(payload, 4)), data)
		return false
	}
	o := 1
	n := 0
	for o < len(payload) && payload[o] != 0xff {
		if o+3 > len(payload) {
			c.Violate("C09/out/truncated-section-header:"+cls, stage, idx, fmt.Sprintf("offset %d", o), data)
			return false
		}
		l := int(payload[o+1]&0xf)<<8 | int(payload[o+2])
		if o+3+l > len(payload) {
			c.Violate("C09/out/section-length-exceeds-bytes-written:"+cls, stage, idx, fmt.Sprintf("section at %d declares %d bytes, %d were written after it", o, l, len(payload)-o-3), data)
			return false
		}
		sec := payload[o : o+3+l]
		_, err := refts.DecodeSection(&refts.R{B: sec})
		if errors.Is(err, refts.ErrCRC) {
			c.Violate("C09/out/crc-rejected-by-reference:"+cls, stage, idx, fmt.Sprintf("section at %d (%d bytes): CRC_32 %x, reference computes %08x over the bytes written", o, len(sec), sec[len(sec)-4:], refts.CRC32(sec[:len(sec)-4])), data)
			return false
		}
		if err != nil {
			c.Violate("C09/out/section-undecodable:"+cls, stage, idx, fmt.Sprintf("section at %d: %v", o, err), data)
			return false
		}
		o += 3 + l
		n++
	}
	for k := o; k < len(payload); k++ {
		if payload[k] != 0xff {
			c.Violate("C09/out/garbage-after-sections:"+cls, stage, idx, fmt.Sprintf("byte %#x at offset %d after the last section (section_length shorter than the bytes written?)", payload[k], k), data)
			return false
		}
	}
	if n != wantSecs {
		c.Violate("C09/out/section-count:"+cls, stage, idx, fmt.Sprintf("%d sections found, %d written", n, wantSecs), data)
		return false
	}
	return true
}

// muxSections runs a Muxer whose streams carry descriptors of every supported tag and checks every emitted table packet.
func muxSections(c *mon.Ctx, idx int64, r *rand.Rand) {
	var ops []HOp
	budget := 150
	nes := 1 + r.IntN(5)
	tags := gen.TypedTags()
	for k := 0; k < nes; k++ {
		es := &astits.PMTElementaryStream{StreamType: astits.StreamType(r.UintN(256))}
		nd := r.IntN(3)
		for q := 0; q < nd && budget > 8; q++ {
			tag := tags[(int(idx)+k*3+q)%len(tags)]
			if r.IntN(6) == 0 {
				tag = gen.RandomTag(r)
			}
			d := gen.Descriptor(r, tag, r.IntN(budget-2))
			if hasReservedVBIService([]*astits.Descriptor{d}) {
				continue
			}
			switch r.IntN(3) {
			case 1:
				d.Length = 0
			case 2:
				d.Length = d.Length/2 + 3
			}
			n, _ := refts.DescriptorBodyLen(d)
			if r.IntN(4) == 0 {
				// language / country codes that are not 3 bytes long (the demuxer returns such values for some real streams): whatever
				// the writer makes of them, the lengths it declares must cover what it writes
				k := []int{0, 1, 2, 4, 7}[r.IntN(5)]
				if m := mon.ResizeCodes(d, k); m > 0 {
					c.Count("descriptors_with_codes_of_another_length")
					n += m * 4 // room for the longest variant
				}
			}
			budget -= 2 + n
			es.ElementaryStreamDescriptors = append(es.ElementaryStreamDescriptors, d)
			c.Seen("muxed_descriptor_tags", tagClass(d.Tag))
		}
		budget -= 5
		ops = append(ops, HOp{Kind: "add", PID: uint16(0x40 + k), ES: es, Slot: -1})
	}
	ops = append(ops, HOp{Kind: "pcr", PID: 0x40}, HOp{Kind: "tables"})
	if r.IntN(2) == 0 {
		ops = append(ops, HOp{Kind: "remove", PID: uint16(0x40 + nes - 1)}, HOp{Kind: "tables"})
	}
	if idx%16 == 3 {
		ops = wrapPMTScenario(r)
		if (idx/16)%2 == 1 {
			ops = wrapDescriptorScenario(r)
		}
		c.Count("histories_with_a_pmt_of_65536_bytes")
	}
	hr := runHistory(ops, 10)
	if !checkMuxedTables(c, "out", idx, hr) {
		return
	}
	c.Case(mon.HashBytes("c09o", hr.Out), len(hr.Out) > 0)
}

// checkMuxedTables decodes every PAT / PMT packet of a Muxer session with the reference decoder: section_length and CRC_32 must agree
// with the bytes written.
func checkMuxedTables(c *mon.Ctx, stage string, idx int64, hr *HistRun) bool {
	for k, cl := range hr.Calls {
		if cl.Panic != "" {
			c.Violate("C09/out/panic", stage, idx, cl.Panic, nil)
			return false
		}
		if cl.Op.Kind == "tables" && cl.Err != nil {
			c.Count("muxer_table_emission_rejected")
			continue
		}
		for o := cl.Start; o+188 <= cl.End; o += 188 {
			if pid := uint16(hr.Out[o+1]&0x1f)<<8 | uint16(hr.Out[o+2]); pid != 0 && pid != 0x1000 {
				continue
			}
			p, err := refts.DecodePacket(hr.Out[o : o+188])
			if err != nil {
				c.Violate("C09/out/nonconformant-packet", stage, idx, err.Error(), nil)
				return false
			}
			cls := "PAT"
			if p.Header.PID == 0x1000 {
				cls = "PMT"
			}
			if !p.Header.HasPayload || !p.Header.PayloadUnitStartIndicator {
				c.Violate("C09/out/table-packet-carries-no-section:"+cls, stage, idx, fmt.Sprintf("call %d: the packet the Muxer emitted on PID %#x has payload=%v payload_unit_start=%v: no section a decoder accepts", k, p.Header.PID, p.Header.HasPayload, p.Header.PayloadUnitStartIndicator),
					map[string]any{"call": k, "packet": mon.Hex(hr.Out[o:o+188], 188)})
				return false
			}
			if !checkEmittedSections(c, stage, idx, p.Payload, 1, cls, map[string]any{"call": k, "packet": mon.Hex(hr.Out[o:o+188], 188)}) {
				return false
			}
			c.Count("muxer_sections_checked")
		}
	}
	return true
}
