// Package props holds one monitor + workload per property.
package props

import (
	"sort"
	"strconv"

	"verifharness/mon"
)

// Prop describes one property check.
type Prop struct {
	ID          string
	Level       string // MANIFEST / evidence category
	Rule        string // how cases are generated and what makes one non-trivial / distinct
	Assumptions []string
	Shards      int  // number of worker shards (default 32)
	Journal     bool // journal every case before executing it (crash attribution)
	// Run executes the cases of this worker's shard.
	Run func(c *mon.Ctx)
	// Race, when set, is run by the -race binary (one process per shard) in addition to Run.
	Race       func(c *mon.Ctx)
	RaceShards int
	// Guards returns reasons why the merged run observed too little to conclude anything.
	Guards func(m *mon.Merged, tier string) []string
	// Exhaustive tells whether a finite sub-domain was enumerated completely in this tier (reported as is).
	Exhaustive func(tier string) bool
	// TimeoutS is the per-worker watchdog (seconds) per tier; 0 = default.
	TimeoutQuick, TimeoutThorough int
}

var Registry = map[string]*Prop{}

func register(p *Prop) { Registry[p.ID] = p }

func IDs() []string {
	var ids []string
	for k := range Registry {
		ids = append(ids, k)
	}
	sort.Strings(ids)
	return ids
}

// need is a helper for guards.
func need(m *mon.Merged, out *[]string, key string, min int64) {
	if m.Counters[key] < min {
		*out = append(*out, key+" observed "+itoa(m.Counters[key])+" < "+itoa(min))
	}
}

func needSet(m *mon.Merged, out *[]string, set string, min int) {
	if len(m.Sets[set]) < min {
		*out = append(*out, "set "+set+" has "+itoa(int64(len(m.Sets[set])))+" members < "+itoa(int64(min)))
	}
}

func itoa(v int64) string {
	if v == 0 {
		return "0"
	}
	neg := v < 0
	if neg {
		v = -v
	}
	var b [24]byte
	i := len(b)
	for v > 0 {
		i--
		b[i] = byte('0' + v%10)
		v /= 10
	}
	if neg {
		i--
		b[i] = '-'
	}
	return string(b[i:])
}

func strconvUnquote(q string) (string, error) { return strconv.Unquote(q) }
