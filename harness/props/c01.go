package props

import (
	"bytes"
	"context"
	"errors"
	"fmt"
	"math/rand/v2"

	astits "github.com/asticode/go-astits"

	"verifharness/gen"
	"verifharness/mon"
	"verifharness/refts"
)

func init() {
	register(&Prop{
		ID:    "C01",
		Level: "exploration",
		Rule: "random Muxer histories (1..N streams, explicit and automatic PIDs, any stream type, ES descriptors, Add/Remove/re-Add/SetPCRPID/WriteTables/WriteData interleavings, failing calls in between, " +
			"retransmit periods 1..50) with payload lengths around every k*184 boundary and above 65535, every writer-supported PES optional-header combination and first-packet adaptation fields sized to leave " +
			"0,1,2,few,many bytes (and too big to share a packet with the PES header); plus a sweep of every payload length 1..1200 for several header/AF shapes; the Muxer's bytes are demultiplexed by the library " +
			"(explicit 188) and independently reassembled by the reference decoder; plus long sessions (stage endurance: 131 500 units on a PID, PIDs silent for 131 072+ packets, units up to 2 MiB, hundreds of emissions, thousands of automatic PIDs); distinct = hash of the muxed bytes; non-trivial = ≥2 PES compared",
		Assumptions: []string{"explicit elementary PIDs are ≥ 0x20 (the demuxer hard-wires PID 1 as CAT and 0x10–0x14, 0x1E, 0x1F as DVB SI whatever the PMT says), not the PMT PID, not 0x1FFF", "StreamID 0 means: derive from the stream type (compared with StreamType.ToPESStreamID)",
			"when the caller's adaptation field and the PES header do not fit one packet the field travels in an adaptation-only packet and is not part of DemuxerData.FirstPacket; the PES itself must arrive intact"},
		Shards: 32,
		Run:    runC01,
		Guards: func(m *mon.Merged, tier string) []string {
			var out []string
			need(m, &out, "pes_compared", 8000)
			need(m, &out, "table_pairs_compared", 1000)
			need(m, &out, "first_packet_af_compared", 500)
			need(m, &out, "af_too_big_for_first_packet", 30)
			need(m, &out, "payload_over_65535", 20)
			need(m, &out, "auto_pid_streams_written", 100)
			need(m, &out, "readded_pids_written", 20)
			need(m, &out, "sweep_lengths", 1200)
			need(m, &out, "parsed_units_remultiplexed", 500)
			need(m, &out, "explicit_pid_reassigned_automatically", 100)
			return out
		},
	})
}

var afIgnore = &mon.EqOpt{Ignore: map[string]bool{"PacketAdaptationField.Length": true, "PacketAdaptationField.StuffingLength": true, "PacketAdaptationField.IsOneByteStuffing": true,
	"PacketAdaptationExtensionField.Length": true}}

// checkRoundTrip is C01's monitor.
func checkRoundTrip(c *mon.Ctx, stage string, idx int64, hr *HistRun) {
	data := map[string]any{"history": histSample(hr)}
	bad := func(class, detail string) { c.Violate("C01/"+class, stage, idx, detail, data) }
	for _, cl := range hr.Calls {
		if cl.Panic != "" {
			bad("panic:"+cl.Op.Kind, cl.Panic)
			return
		}
	}
	// expected log
	type wr struct {
		call *HCall
		k    int
	}
	want := map[uint16][]wr{}
	streamType := map[uint16]astits.StreamType{}
	readd := map[uint16]int{}
	for k, cl := range hr.Calls {
		if cl.Op.Kind == "add" && cl.Err == nil {
			for _, s := range cl.Streams {
				if s.ES == cl.Op.ES && s.Known {
					streamType[s.PID] = s.ES.StreamType
				}
			}
			if cl.Op.PID != 0 {
				readd[cl.Op.PID]++
			}
		}
		for _, s := range cl.Streams { // auto PIDs are learnt later
			if s.Known {
				streamType[s.PID] = s.ES.StreamType
			}
		}
		if cl.Op.Kind == "data" && cl.Err == nil {
			want[cl.PID] = append(want[cl.PID], wr{cl, k})
		}
	}
	ems, ok := tablesOracle(c, "C01", stage, idx, hr, false)
	if !ok {
		return
	}
	// library demux
	run := RunDemux(hr.Out, baseCfg("data"))
	if run.Panic != "" {
		bad("demux-panic", run.Panic)
		return
	}
	if errs := run.Errors(); len(errs) > 0 {
		bad("demux-error", errs[0].Error())
		return
	}
	got := perPID(run.Datas())
	// reference reassembly (so that a symmetric writer/parser error cannot hide)
	log, _ := refts.DecodeLog(hr.Out)
	units, ccErrs := refts.Reassemble(log.Packets)
	_ = ccErrs
	refUnits := map[uint16][][]byte{}
	for _, u := range units {
		if u.PID != 0 && u.PID != 0x1000 {
			refUnits[u.PID] = append(refUnits[u.PID], u.Payload)
		}
	}
	for pid, ws := range want {
		g := got[pid]
		if len(g) != len(ws) {
			cause := "plain"
			if readd[pid] > 1 {
				cause = "pid-removed-and-readded"
			}
			for _, w := range ws {
				if w.call.Op.Data.AdaptationField != nil {
					if cause == "plain" {
						cause = "calls-with-adaptation-field"
					}
				}
			}
			bad("pes-count:"+cause, fmt.Sprintf("pid %#x: %d WriteData calls succeeded, %d PES delivered", pid, len(ws), len(g)))
			return
		}
		if len(refUnits[pid]) != len(ws) {
			bad("reference-unit-count", fmt.Sprintf("pid %#x: %d calls, the reference decoder reassembles %d units", pid, len(ws), len(refUnits[pid])))
			return
		}
		for j, w := range ws {
			d := w.call.Op.Data
			if g[j].PES == nil {
				bad("not-a-pes", fmt.Sprintf("pid %#x datum %d is %s", pid, j, dataKind(g[j])))
				return
			}
			if w.call.Op.Edge {
				// accepted although at the edge of the contract: delivered, payload intact; the header is not judged
				if !bytes.Equal(g[j].PES.Data, d.PES.Data) {
					bad("pes-differs:.Data:edge-header", fmt.Sprintf("pid %#x unit %d (call %d): payload differs", pid, j, w.k))
					return
				}
				c.Count("edge_header_units_delivered")
				continue
			}
			h := mon.Clone(d.PES.Header)
			if h.StreamID == 0 {
				st := streamType[pid]
				for _, s := range w.call.Streams { // the type the PID had when the call was made
					if s.Known && s.PID == pid {
						st = s.ES.StreamType
					}
				}
				h.StreamID = st.ToPESStreamID()
				if h.StreamID == 0xBE || h.StreamID == 0xBF {
					h.OptionalHeader = nil
				}
			}
			if h.OptionalHeader != nil {
				h.OptionalHeader.HasCRC = false
				h.OptionalHeader.HasPackHeaderField = false
			}
			if (h.StreamID == 0xBE || h.StreamID == 0xBF) && h.OptionalHeader != nil {
				h.OptionalHeader = nil
			}
			enc, err := refts.EncodePES(h, d.PES.Data, refts.PESEnc{LengthZero: h.StreamID == 0xE0 || h.StreamID == 0xFD}, nil)
			if err != nil {
				c.Note("unencodable expected PES: " + err.Error())
				continue
			}
			exp, _ := refts.DecodePES(enc)
			if df := mon.Diff(g[j].PES, exp, nil); df != "" {
				bad("pes-differs:"+fieldOf(df), fmt.Sprintf("pid %#x WriteData call %d (payload %d bytes): delivered vs written: %s", pid, w.k, len(d.PES.Data), df))
				return
			}
			if !bytes.Equal(refUnits[pid][j], enc) {
				bad("reference-reassembly-differs", fmt.Sprintf("pid %#x call %d: the bytes on the wire differ from the reference encoding at %d", pid, w.k, firstDiff(refUnits[pid][j], enc)))
				return
			}
			c.Count("pes_compared")
			c.Seen("payload_mod_184", fmt.Sprint(len(enc)%184))
			if len(d.PES.Data) > 65535 {
				c.Count("payload_over_65535")
			}
			if readd[pid] > 1 {
				c.Count("readded_pids_written")
			}
			if w.call.Op.Auto {
				c.Count("auto_pid_streams_written")
			}
			// first packet adaptation field
			fp := g[j].FirstPacket
			if fp == nil {
				bad("first-packet-missing", fmt.Sprintf("pid %#x", pid))
				return
			}
			if fp.Header.PID != pid || !fp.Header.PayloadUnitStartIndicator {
				bad("first-packet-header", fmt.Sprintf("pid %#x: %+v", pid, fp.Header))
				return
			}
			if af := d.AdaptationField; af != nil {
				hdr := len(enc) - len(d.PES.Data)
				// with the stuffing the caller asked for (a parsed field handed back): when only the content fits next to the header,
				// where the field travels depends on how much of the request is honoured, and is not judged
				fits := 183-gen.AFBodySize(af) >= hdr
				if af.StuffingLength > 0 {
					c.Count("first_packet_af_with_requested_stuffing")
				}
				if !fits {
					c.Count("af_too_big_for_first_packet")
				} else {
					wantAF := mon.Clone(af)
					if fp.AdaptationField == nil {
						if afSubset(af) == "00/0" && !af.DiscontinuityIndicator && !af.RandomAccessIndicator && !af.ElementaryStreamPriorityIndicator {
							// nothing but (requested) stuffing, as in a parsed field handed back: there is no content to lose
							c.Count("first_packet_af_without_content_not_sent")
							continue
						}
						bad("first-packet-af-missing", fmt.Sprintf("pid %#x call %d", pid, w.k))
						return
					}
					// a cleared flag wins over a value left behind (a parsed field whose flags the caller edited)
					if !wantAF.HasPCR {
						wantAF.PCR = nil
					}
					if !wantAF.HasOPCR {
						wantAF.OPCR = nil
					}
					if !wantAF.HasTransportPrivateData {
						wantAF.TransportPrivateData, wantAF.TransportPrivateDataLength = nil, 0
					}
					if !wantAF.HasAdaptationExtensionField {
						wantAF.AdaptationExtensionField = nil
					}
					if !wantAF.HasSplicingCountdown {
						wantAF.SpliceCountdown = 0
					}
					if wantAF.HasSplicingCountdown {
						// a value wider than the field (edge of the write contract): when the call is accepted, its low 8 bits travel
						wantAF.SpliceCountdown = int(int8(uint8(wantAF.SpliceCountdown)))
					}
					if df := mon.Diff(fp.AdaptationField, wantAF, afIgnore); df != "" {
						bad("first-packet-af-differs:"+fieldOf(df), fmt.Sprintf("pid %#x call %d: %s", pid, w.k, df))
						return
					}
					c.Count("first_packet_af_compared")
				}
			} else if a := fp.AdaptationField; a != nil {
				if a.HasPCR || a.HasOPCR || a.RandomAccessIndicator || a.HasTransportPrivateData || a.HasSplicingCountdown || a.HasAdaptationExtensionField || a.DiscontinuityIndicator {
					bad("first-packet-af-invented", fmt.Sprintf("pid %#x call %d: %+v", pid, w.k, a))
					return
				}
			}
		}
	}
	for pid, g := range got {
		if pid == 0 || pid == 0x1000 {
			continue
		}
		if len(want[pid]) == 0 && len(g) > 0 {
			bad("data-on-unwritten-pid", fmt.Sprintf("pid %#x: %d data", pid, len(g)))
			return
		}
	}
	// tables: one PAT and one PMT per emission, equal to what the reference decoded from the wire
	if len(got[0]) != len(ems) || len(got[0x1000]) != len(ems) {
		bad("table-delivery-count", fmt.Sprintf("%d emissions on the wire, %d PAT and %d PMT delivered", len(ems), len(got[0]), len(got[0x1000])))
		return
	}
	for j, e := range ems {
		if df := mon.Diff(got[0][j].PAT, e.pat.Syntax.Data.PAT, nil); df != "" {
			bad("pat-differs", df)
			return
		}
		if df := mon.Diff(got[0x1000][j].PMT, e.pmt.Syntax.Data.PMT, nil); df != "" {
			bad("pmt-differs:"+fieldOf(df), df)
			return
		}
		c.Count("table_pairs_compared")
	}
	n := 0
	for _, ws := range want {
		n += len(ws)
	}
	c.Case(mon.HashBytes("c01", hr.Out), n >= 2)
}

func runC01(c *mon.Ctx) {
	enduranceSessions(c, func(stage string, i int64, shape string, hr *HistRun) { checkRoundTrip(c, stage, i, hr) })
	n := c.Pick(2000, 150000)
	for i := int64(0); i < n; i++ {
		if !c.Mine("histories", i) {
			continue
		}
		r := c.Rng("histories", i)
		o := HistOpts{MaxOps: 60, AllowInvalid: true, AutoPIDs: true, BigAF: true, LongPayloads: i%4 == 0, RichHeaders: true, ManyPackets: i%3 == 0, ReuseAF: i%4 == 1}
		if c.Thorough() {
			o.MaxOps = 200
		}
		ops, period := RandomHistory(r, o)
		if i%6 == 0 {
			ops = append(ops, readdScenario(r)...)
		}
		if i%5 == 2 {
			// a few WriteData calls carry a PES header at the edge of the write contract: whether the Muxer accepts or refuses them,
			// every unit it accepted (these and all the others) must come back
			c.Add("data_calls_with_edge_headers", int64(edgeHeaders(r, ops)))
		}
		hr := runHistory(ops, period)
		checkRoundTrip(c, "histories", i, hr)
		if i < 2 {
			c.Sample("histories", histSample(hr))
		}
	}
	// remultiplexing: what a demuxer returned (parsed PES with by-product fields, the first packet's parsed adaptation field) is
	// written by a new Muxer and must come back unaltered
	nrm := c.Pick(300, 40000)
	for i := int64(0); i < nrm; i++ {
		if !c.Mine("remux", i) {
			continue
		}
		r := c.Rng("remux", i)
		ops, n, pe := remuxScenario(r, i%2 == 1)
		c.Add("streams_announced_with_the_parsed_pmt_entry", int64(pe))
		if n == 0 {
			continue
		}
		hr := runHistory(ops, 1+r.IntN(30))
		checkRoundTrip(c, "remux", i, hr)
		c.Add("parsed_units_remultiplexed", int64(n))
	}
	// the repository's own remultiplexer, replayed
	nes := c.Pick(300, 30000)
	for i := int64(0); i < nes; i++ {
		if c.Mine("es-split", i) {
			esSplitCase(c, i, c.Rng("es-split", i))
		}
	}
	// first-packet adaptation fields with the discontinuity indicator (a new time base announced with its first PCR): a legal field
	// like the others, so every unit has to come back. The demuxer reacts to the indicator by discarding what it holds for the PID,
	// which is the complete unit written just before — known finding, see KNOWN_FINDINGS.txt; anything else that goes missing
	// or differs is reported as a violation
	ndi := c.Pick(150, 20000)
	for i := int64(0); i < ndi; i++ {
		if !c.Mine("di", i) {
			continue
		}
		diCase(c, i, c.Rng("di", i))
	}
	// an explicit PID is removed and the same PID is handed out again by automatic assignment
	nra := c.Pick(200, 30000)
	for i := int64(0); i < nra; i++ {
		if !c.Mine("readd-auto", i) {
			continue
		}
		r := c.Rng("readd-auto", i)
		ops := readdAutoScenario(r)
		if i%3 == 1 {
			ops = autoCollisionScenario(r)
			c.Count("explicit_pids_in_the_automatic_range_out_of_order")
		}
		if i%3 == 2 {
			ops = exactPMTScenario(r)
			c.Count("pmt_filling_its_packet_exactly")
		}
		if i%9 == 0 {
			ops = churnScenario(r)
			c.Count("stream_churn_histories")
		}
		if i%9 == 4 {
			// a call rejected for its oversized adaptation field, repaired on the same object and repeated: the repeated unit
			// (and the following ones) must come back unaltered
			ops = retryScenario(r)
			c.Count("rejected_calls_repaired_on_the_same_object")
		}
		hr := runHistory(ops, 1+r.IntN(6))
		checkRoundTrip(c, "readd-auto", i, hr)
		c.Count("explicit_pid_reassigned_automatically")
	}
	// sweep: every payload length for 8 header / adaptation field shapes
	lens := []int{}
	for l := 1; l <= 1200; l++ {
		lens = append(lens, l)
	}
	if c.Thorough() {
		for l := 65500; l <= 65600; l++ {
			lens = append(lens, l)
		}
	} else {
		lens = append(lens, 65526, 65527, 65528, 65529, 65535, 65536, 65540)
	}
	// units of a thousand packets and more (a large intra frame of a contribution stream): 1023 / 1024 / 1025 packets, 2 K, 1 MiB
	lens = append(lens, 188218, 188402, 188586, 377000, 1<<20)
	for li, l := range lens {
		if !c.Mine("sweep", int64(li)) {
			continue
		}
		r := c.Rng("sweep", int64(li))
		var ops []HOp
		ops = append(ops, HOp{Kind: "add", PID: 0x40, ES: &astits.PMTElementaryStream{StreamType: astits.StreamTypeH264Video}, Slot: -1},
			HOp{Kind: "add", PID: 0x41, ES: &astits.PMTElementaryStream{StreamType: astits.StreamTypeAACAudio}, Slot: -1}, HOp{Kind: "pcr", PID: 0x40})
		for shape := 0; shape < 8; shape++ {
			pid := uint16(0x40 + shape%2)
			h := &astits.PESHeader{StreamID: []uint8{0xE0, 0xC0}[shape%2], OptionalHeader: &astits.PESOptionalHeader{MarkerBits: 2}}
			switch shape / 2 {
			case 1:
				h.OptionalHeader.PTSDTSIndicator = 2
				h.OptionalHeader.PTS = &astits.ClockReference{Base: int64(l)}
			case 2:
				h.OptionalHeader = gen.OptionalHeader(r, 0xC0|0x3d, 15, true)
			case 3:
				h.StreamID = 0xBF
				h.OptionalHeader = nil
			}
			d := &astits.MuxerData{PES: &astits.PESData{Header: h, Data: gen.Bytes(r, l)}}
			if shape >= 4 && shape%2 == 0 {
				d.AdaptationField = &astits.PacketAdaptationField{HasPCR: true, PCR: &astits.ClockReference{Base: int64(l) * 300, Extension: int64(l % 300)}, RandomAccessIndicator: shape == 4}
			}
			if shape == 7 {
				d.AdaptationField = &astits.PacketAdaptationField{HasTransportPrivateData: true, TransportPrivateData: gen.Bytes(r, l%170), TransportPrivateDataLength: l % 170}
			}
			ops = append(ops, HOp{Kind: "data", PID: pid, Data: d})
		}
		hr := runHistory(ops, 3)
		checkRoundTrip(c, "sweep", int64(li), hr)
		c.Count("sweep_lengths")
	}
}

// readdScenario: write, remove, add the same PID again (another type), write again.
func readdScenario(r *rand.Rand) []HOp {
	pid := uint16(0x60 + r.IntN(4))
	mk := func() HOp {
		return HOp{Kind: "data", PID: pid, Data: &astits.MuxerData{PES: &astits.PESData{Header: &astits.PESHeader{StreamID: 0xC0, OptionalHeader: &astits.PESOptionalHeader{MarkerBits: 2}}, Data: gen.Bytes(r, 1+r.IntN(600))}}}
	}
	ops := []HOp{{Kind: "add", PID: pid, ES: &astits.PMTElementaryStream{StreamType: astits.StreamTypeAACAudio}, Slot: -1}, {Kind: "pcr", PID: pid}}
	for k := 0; k < 1+r.IntN(3); k++ {
		ops = append(ops, mk())
	}
	ops = append(ops, HOp{Kind: "add", PID: pid + 8, ES: &astits.PMTElementaryStream{StreamType: astits.StreamTypeAACAudio}, Slot: -1}, HOp{Kind: "pcr", PID: pid + 8},
		HOp{Kind: "remove", PID: pid}, HOp{Kind: "add", PID: pid, ES: &astits.PMTElementaryStream{StreamType: astits.StreamTypeMPEG2Audio}, Slot: -1})
	for k := 0; k < 1+r.IntN(3); k++ {
		ops = append(ops, mk())
	}
	return ops
}

func diCase(c *mon.Ctx, idx int64, r *rand.Rand) {
	pids := []uint16{0x40, 0x41}
	ops := []HOp{{Kind: "add", PID: 0x40, ES: &astits.PMTElementaryStream{StreamType: astits.StreamTypeH264Video}, Slot: -1},
		{Kind: "add", PID: 0x41, ES: &astits.PMTElementaryStream{StreamType: astits.StreamTypeAACAudio}, Slot: -1}, {Kind: "pcr", PID: 0x40}}
	type wrote struct {
		pid  uint16
		data []byte
		di   bool
	}
	var ws []wrote
	n := 3 + r.IntN(12)
	for k := 0; k < n; k++ {
		pid := pids[r.IntN(2)]
		d := &astits.MuxerData{PES: &astits.PESData{Header: &astits.PESHeader{StreamID: []uint8{0xE0, 0xC0}[pid&1], OptionalHeader: &astits.PESOptionalHeader{MarkerBits: 2}}, Data: gen.Bytes(r, 1+r.IntN(700))}}
		w := wrote{pid: pid, data: d.PES.Data}
		switch r.IntN(3) {
		case 0:
			d.AdaptationField = &astits.PacketAdaptationField{DiscontinuityIndicator: true, HasPCR: true, PCR: &astits.ClockReference{Base: gen.Clock33(r), Extension: int64(r.IntN(300))}, RandomAccessIndicator: r.IntN(2) == 0}
			w.di = true
		case 1:
			d.AdaptationField = &astits.PacketAdaptationField{HasPCR: true, PCR: &astits.ClockReference{Base: gen.Clock33(r)}}
		}
		ops = append(ops, HOp{Kind: "data", PID: pid, Data: d})
		ws = append(ws, w)
	}
	hr := runHistory(ops, 1+r.IntN(10))
	data := map[string]any{"history": histSample(hr)}
	for _, cl := range hr.Calls {
		if cl.Panic != "" || cl.Err != nil {
			c.Violate("C01/di/call-failed", "di", idx, fmt.Sprintf("%s: %v %s", cl.Op.Kind, cl.Err, cl.Panic), data)
			return
		}
	}
	run := RunDemux(hr.Out, baseCfg("data"))
	if run.Panic != "" || len(run.Errors()) > 0 {
		c.Violate("C01/di/demux-error", "di", idx, fmt.Sprintf("%s %v", run.Panic, run.Errors()), data)
		return
	}
	got := perPID(run.Datas())
	c.Count("histories_with_discontinuity_indicators")
	known := false
	for _, pid := range pids {
		var full, lib [][]byte // what was written, and what is left when the unit before each indicator is taken out
		for k, w := range ws {
			if w.pid != pid {
				continue
			}
			full = append(full, w.data)
			dropped := false
			for j := k + 1; j < len(ws); j++ {
				if ws[j].pid == pid {
					dropped = ws[j].di
					break
				}
			}
			if !dropped {
				lib = append(lib, w.data)
			}
		}
		var g [][]byte
		for _, d := range got[pid] {
			if d.PES != nil {
				g = append(g, d.PES.Data)
			}
		}
		eq := func(a, b [][]byte) bool {
			if len(a) != len(b) {
				return false
			}
			for k := range a {
				if !bytes.Equal(a[k], b[k]) {
					return false
				}
			}
			return true
		}
		switch {
		case eq(g, full):
		case eq(g, lib):
			known = true
		default:
			c.Violate("C01/di/units-differ", "di", idx, fmt.Sprintf("pid %#x: %d units written, %d delivered, and not the written ones minus those that precede an indicator", pid, len(full), len(g)), data)
			return
		}
	}
	if known {
		c.Violate("C01/unit-before-discontinuity-indicator-dropped", "di", idx, "the unit written before a WriteData whose first-packet adaptation field carries the discontinuity indicator is not delivered", data)
	}
}

// esSplitCase replays cmd/astits-es-split on a stream a random Muxer history produced: a Demuxer over a bufio.Reader with detected
// packet size; once all PMTs of the PAT are known, one Muxer per elementary stream, created with the parsed PMT entry and its own
// PID as PCR PID; every PES handed to its Muxer with the first packet's parsed adaptation field (HasPCR cleared, then set again
// with the unit's PTS or DTS, exactly as the tool does) and the parsed PES. Every such Muxer's output must be whole conformant
// packets that demultiplex, without an error, into exactly the units it was given.
func esSplitCase(c *mon.Ctx, idx int64, r *rand.Rand) {
	ops, period := RandomHistory(r, HistOpts{MaxOps: 50, AutoPIDs: true, BigAF: idx%3 == 0, RichHeaders: true, LongPayloads: idx%5 == 0, ManyPackets: idx%4 == 0})
	src := runHistory(ops, period).Out
	if len(src) < 3*188 {
		return
	}
	cfg := DemuxCfg{Reader: "bufio", API: "data"}
	dmx, _ := NewDemuxerFor(src, cfg)
	type sink struct {
		m    *astits.Muxer
		out  *bytes.Buffer
		sent []*astits.PESData
	}
	muxers := map[uint16]*sink{}
	var pat *astits.PATData
	pmts := map[uint16]*astits.PMTData{}
	gotAll := false
	data := map[string]any{"source": mon.Hex(src, 1200)}
	for calls := 0; calls < len(src)/188+64; calls++ {
		var d *astits.DemuxerData
		var err error
		if p, v, st := mon.Guarded(func() { d, err = dmx.NextData() }); p {
			c.Violate("C01/es-split/panic", "es-split", idx, fmt.Sprintf("%v\n%s", v, st), data)
			return
		}
		if err != nil {
			if errors.Is(err, astits.ErrNoMorePackets) {
				break
			}
			c.Violate("C01/es-split/demux-error", "es-split", idx, err.Error(), data)
			return
		}
		switch {
		case d.PAT != nil:
			pat, gotAll = d.PAT, false
			continue
		case d.PMT != nil:
			pmts[d.PMT.ProgramNumber] = d.PMT
			gotAll = pat != nil
			if pat != nil {
				for _, p := range pat.Programs {
					if _, ok := pmts[p.ProgramNumber]; !ok {
						gotAll = false
					}
				}
			}
			if !gotAll {
				continue
			}
			for _, pmt := range pmts {
				for _, es := range pmt.ElementaryStreams {
					if _, ok := muxers[es.ElementaryPID]; ok {
						continue
					}
					out := &bytes.Buffer{}
					m := astits.NewMuxer(context.Background(), out)
					if err := m.AddElementaryStream(*es); err != nil {
						c.Violate("C01/es-split/add-failed", "es-split", idx, fmt.Sprintf("parsed PMT entry for pid %#x refused: %v", es.ElementaryPID, err), data)
						return
					}
					m.SetPCRPID(es.ElementaryPID)
					muxers[es.ElementaryPID] = &sink{m: m, out: out}
				}
			}
			continue
		}
		if !gotAll || d.PES == nil || d.PES.Header.OptionalHeader == nil {
			continue
		}
		pid := d.FirstPacket.Header.PID
		sk := muxers[pid]
		if sk == nil {
			continue
		}
		af := d.FirstPacket.AdaptationField
		if af != nil && af.HasPCR {
			af.HasPCR = false
		}
		var pcr *astits.ClockReference
		switch d.PES.Header.OptionalHeader.PTSDTSIndicator {
		case astits.PTSDTSIndicatorOnlyPTS:
			pcr = d.PES.Header.OptionalHeader.PTS
		case astits.PTSDTSIndicatorBothPresent:
			pcr = d.PES.Header.OptionalHeader.DTS
		}
		if pcr != nil {
			if af == nil {
				af = &astits.PacketAdaptationField{}
			}
			af.HasPCR, af.PCR = true, pcr
		}
		keep := mon.Clone(d.PES)
		var werr error
		if p, v, st := mon.Guarded(func() { _, werr = sk.m.WriteData(&astits.MuxerData{PID: pid, AdaptationField: af, PES: d.PES}) }); p {
			c.Violate("C01/es-split/panic", "es-split", idx, fmt.Sprintf("%v\n%s", v, st), data)
			return
		}
		if werr != nil {
			c.Violate("C01/es-split/write-failed", "es-split", idx, fmt.Sprintf("pid %#x: WriteData of a parsed unit failed: %v", pid, werr), data)
			return
		}
		sk.sent = append(sk.sent, keep)
	}
	for pid, sk := range muxers {
		out := sk.out.Bytes()
		if len(sk.sent) == 0 {
			continue
		}
		log, tail := refts.DecodeLog(out)
		if tail != 0 {
			c.Violate("C01/es-split/partial-packet", "es-split", idx, fmt.Sprintf("pid %#x: %d trailing bytes", pid, tail), data)
			return
		}
		for k, e := range log.Errs {
			if e != nil {
				c.Violate("C01/es-split/nonconformant-packet", "es-split", idx, fmt.Sprintf("pid %#x packet %d: %v", pid, k, e), data)
				return
			}
		}
		run := RunDemux(out, baseCfg("data"))
		if run.Panic != "" || len(run.Errors()) > 0 {
			c.Violate("C01/es-split/output-demux-error", "es-split", idx, fmt.Sprintf("pid %#x: %s %v", pid, run.Panic, run.Errors()), data)
			return
		}
		var got []*astits.PESData
		for _, d := range run.Datas() {
			if d.PID == pid && d.PES != nil {
				got = append(got, d.PES)
			}
		}
		if len(got) != len(sk.sent) {
			c.Violate("C01/es-split/pes-count", "es-split", idx, fmt.Sprintf("pid %#x: %d units written, %d come back", pid, len(sk.sent), len(got)), data)
			return
		}
		for k := range got {
			if !bytes.Equal(got[k].Data, sk.sent[k].Data) {
				c.Violate("C01/es-split/pes-differs:.Data", "es-split", idx, fmt.Sprintf("pid %#x unit %d: payload differs (%d vs %d bytes)", pid, k, len(got[k].Data), len(sk.sent[k].Data)), data)
				return
			}
			g, w := got[k].Header, sk.sent[k].Header
			if g.StreamID != w.StreamID || mon.Diff(g.OptionalHeader.PTS, w.OptionalHeader.PTS, nil) != "" || mon.Diff(g.OptionalHeader.DTS, w.OptionalHeader.DTS, nil) != "" {
				c.Violate("C01/es-split/pes-differs:.Header", "es-split", idx, fmt.Sprintf("pid %#x unit %d: stream id %#x/%#x, timestamps differ", pid, k, g.StreamID, w.StreamID), data)
				return
			}
		}
		c.Add("units_split_per_elementary_stream_and_compared", int64(len(got)))
	}
	c.Case(mon.HashBytes("es-split", src), len(muxers) > 0)
}
