package props

import (
	"bytes"
	"context"
	"fmt"

	astits "github.com/asticode/go-astits"

	"verifharness/gen"
	"verifharness/mon"
	"verifharness/refts"
)

func init() {
	register(&Prop{
		ID:    "C11",
		Level: "exploration",
		Rule: "random and swept packet models (header cross product, every subset of the 5 optional adaptation parts x 3 extension parts, boundary biased field values and lengths) " +
			"encoded by the reference codec and parsed with NextPacket; the same models written with Muxer.WritePacket and compared byte for byte; parsed packets re-emitted; " +
			"plus 100 000+ packet streams whose packets are kept for 1024 further calls, compared with the stream bytes and written back (stage endurance); distinct = hash of the 188 reference bytes; non-trivial = packet has an adaptation field or a non-default header flag",
		Assumptions: []string{"reference = refts/packet.go written from ISO 13818-1 2.4.3.2-2.4.3.5 and anchored by hand-assembled header bytes in the self check",
			"the struct's write contract is the one documented on its fields (Length ignored, StuffingLength requested, IsOneByteStuffing for the 1 byte form, TransportPrivateDataLength = len)",
			"IsOneByteStuffing is not part of the TS format and is ignored when comparing parsed packets",
			"reserved bytes closing the adaptation extension are all ones (ISO 13818-1: reserved bits are 1) and counted by ReservedLength; splice_countdown is two's complement"},
		Shards: 32,
		Run:    runC11,
		Guards: func(m *mon.Merged, tier string) []string {
			var out []string
			need(m, &out, "packets_parsed_and_compared", 100000)
			need(m, &out, "packets_written_and_compared", 100000)
			need(m, &out, "packets_reemitted", 100000)
			needSet(m, &out, "pids", 8192)
			needSet(m, &out, "af_part_subsets", 144)
			needSet(m, &out, "af_lengths", 184)
			return out
		},
	})
}

func afSubset(a *astits.PacketAdaptationField) string {
	if a == nil {
		return "none"
	}
	e := 0
	if x := a.AdaptationExtensionField; x != nil {
		if x.HasLegalTimeWindow {
			e |= 1
		}
		if x.HasPiecewiseRate {
			e |= 2
		}
		if x.HasSeamlessSplice {
			e |= 4
		}
	}
	b := func(v bool, k int) int {
		if v {
			return k
		}
		return 0
	}
	return fmt.Sprintf("%02d/%d", b(a.HasPCR, 1)|b(a.HasOPCR, 2)|b(a.HasSplicingCountdown, 4)|b(a.HasTransportPrivateData, 8)|b(a.HasAdaptationExtensionField, 16), e)
}

func checkPacketCodec(c *mon.Ctx, stage string, idx int64, p *astits.Packet) {
	ref, err := refts.EncodePacket(p, nil)
	if err != nil {
		c.Note("generator produced an unencodable packet: " + err.Error())
		return
	}
	want, err := refts.DecodePacket(ref)
	if err != nil {
		c.Note("reference cannot decode its own packet: " + err.Error())
		return
	}
	c.Seen("pids", fmt.Sprint(p.Header.PID))
	c.Seen("af_part_subsets", afSubset(p.AdaptationField))
	if want.AdaptationField != nil {
		c.Seen("af_lengths", fmt.Sprint(want.AdaptationField.Length))
	} else {
		c.Seen("af_lengths", "absent")
	}
	data := map[string]any{"packet": mon.Hex(ref, 188)}
	// (1) parse
	dmx := astits.NewDemuxer(context.Background(), bytes.NewReader(ref), astits.DemuxerOptPacketSize(188))
	var got *astits.Packet
	var perr error
	if pn, v, st := mon.Guarded(func() { got, perr = dmx.NextPacket() }); pn {
		c.Violate("C11/parse/panic", stage, idx, fmt.Sprintf("%v\n%s", v, st), data)
		return
	}
	if perr != nil {
		c.Violate("C11/parse/error-on-conformant-packet", stage, idx, perr.Error(), data)
	} else if d := mon.Diff(got, want, ignoreOneByte); d != "" {
		c.Violate("C11/parse/field-differs:"+fieldOf(d), stage, idx, "library vs reference decoding: "+d, data)
	}
	c.Count("packets_parsed_and_compared")
	// (2) write the model
	model := mon.Clone(p)
	if idx%2 == 1 && model.AdaptationField != nil && !model.AdaptationField.IsOneByteStuffing {
		// the length fields a parser fills in as a by-product are stale in a packet an application has edited: what is written is
		// determined by the content
		model.AdaptationField.Length = int(mon.HashBytes("stale", ref) % 256)
		if model.AdaptationField.AdaptationExtensionField != nil {
			model.AdaptationField.AdaptationExtensionField.Length = int(mon.HashBytes("stale2", ref) % 256)
		}
		c.Count("packets_written_with_stale_length_fields")
	}
	if idx%4 == 2 && !model.Header.HasAdaptationField && model.AdaptationField == nil {
		// adaptation_field_control is what the header says: an application that clears the flag of a packet it keeps (a PCR packet
		// re-armed as a plain one, a parsed packet stripped of its field) leaves the pointer behind
		model.AdaptationField = &astits.PacketAdaptationField{HasPCR: true, PCR: &astits.ClockReference{Base: 1234567, Extension: 89}, RandomAccessIndicator: true, StuffingLength: int(idx % 7)}
		c.Count("packets_written_with_a_left_over_adaptation_field_pointer")
	}
	out, n, werr, pan := muxWritePacket(model)
	switch {
	case pan != "":
		c.Violate("C11/write/panic", stage, idx, pan, data)
	case werr != nil:
		c.Violate("C11/write/error-on-conformant-packet:"+afForm(p), stage, idx, werr.Error(), data)
	case n != 188 || !bytes.Equal(out, ref):
		c.Violate("C11/write/bytes-differ:"+afForm(p), stage, idx, fmt.Sprintf("n=%d\nlibrary   %x\nreference %x\nfirst difference at byte %d", n, out, ref, firstDiff(out, ref)), data)
	}
	c.Count("packets_written_and_compared")
	// (3) re-emit what NextPacket returned
	if perr == nil && got != nil {
		out, n, werr, pan = muxWritePacket(got)
		form := afForm(want)
		switch {
		case pan != "":
			c.Violate("C11/reemit/panic", stage, idx, pan, data)
		case werr != nil:
			c.Violate("C11/reemit/error:"+form, stage, idx, fmt.Sprintf("WritePacket of the packet returned by NextPacket failed: %v (bytes already written: %d)", werr, len(out)), data)
		case n != 188 || !bytes.Equal(out, ref):
			c.Violate("C11/reemit/bytes-differ:"+form, stage, idx, fmt.Sprintf("n=%d\nre-emitted %x\noriginal   %x\nfirst difference at byte %d", n, out, ref, firstDiff(out, ref)), data)
		}
		c.Count("packets_reemitted")
	}
	// (4) the same packet with reserved bytes at the end of its adaptation extension (ISO 13818-1 2.4.3.4: the extension ends with
	// "for (i = 0; i < N; i++) reserved", counted by adaptation_field_extension_length): k of the stuffing bytes that follow the
	// extension are moved inside it by raising its length byte. The packet says the same, and NextPacket + WritePacket must
	// give it back byte for byte
	if a := p.AdaptationField; a != nil && a.HasAdaptationExtensionField && a.StuffingLength > 0 && !a.IsOneByteStuffing {
		pos := 6
		if a.HasPCR {
			pos += 6
		}
		if a.HasOPCR {
			pos += 6
		}
		if a.HasSplicingCountdown {
			pos++
		}
		if a.HasTransportPrivateData {
			pos += 1 + len(a.TransportPrivateData)
		}
		k := 1 + int(mon.HashBytes("resv", ref)%3)
		if k > a.StuffingLength {
			k = a.StuffingLength
		}
		patched := append([]byte{}, ref...)
		patched[pos] += byte(k)
		d2 := map[string]any{"packet": mon.Hex(patched, 188), "reserved_bytes": k}
		dmx := astits.NewDemuxer(context.Background(), bytes.NewReader(patched), astits.DemuxerOptPacketSize(188))
		var got2 *astits.Packet
		var err2 error
		if pn, v, st := mon.Guarded(func() { got2, err2 = dmx.NextPacket() }); pn {
			c.Violate("C11/parse/panic", stage, idx, fmt.Sprintf("%v\n%s", v, st), d2)
			return
		}
		c.Count("packets_with_reserved_bytes_in_the_extension")
		if err2 != nil {
			c.Violate("C11/parse/error-on-conformant-packet:extension-reserved-bytes", stage, idx, err2.Error(), d2)
		} else if df := mon.Diff(got2, want, extReservedIgnore); df != "" {
			c.Violate("C11/parse/field-differs:"+fieldOf(df)+":extension-reserved-bytes", stage, idx, "library vs reference decoding: "+df, d2)
		} else {
			out2, n2, werr2, pan2 := muxWritePacket(got2)
			switch {
			case pan2 != "":
				c.Violate("C11/reemit/panic", stage, idx, pan2, d2)
			case werr2 != nil:
				c.Violate("C11/reemit/error:extension-reserved-bytes", stage, idx, werr2.Error(), d2)
			case n2 != 188 || !bytes.Equal(out2, patched):
				c.Violate("C11/reemit/bytes-differ:extension-reserved-bytes", stage, idx, fmt.Sprintf("n=%d\nre-emitted %x\noriginal   %x\nfirst difference at byte %d", n2, out2, patched, firstDiff(out2, patched)), d2)
			}
		}
	}
	nontrivial := p.Header.HasAdaptationField || p.Header.TransportErrorIndicator || p.Header.TransportPriority || p.Header.TransportScramblingControl != 0
	c.Case(mon.HashBytes("pkt", ref), nontrivial)
}

// what differs by construction when stuffing bytes are counted as reserved bytes of the extension
var extReservedIgnore = &mon.EqOpt{Ignore: map[string]bool{"PacketAdaptationField.IsOneByteStuffing": true, "PacketAdaptationField.StuffingLength": true,
	"PacketAdaptationExtensionField.Length": true, "PacketAdaptationExtensionField.ReservedLength": true}}

func afForm(p *astits.Packet) string {
	a := p.AdaptationField
	switch {
	case a == nil:
		return "no-af"
	case a.IsOneByteStuffing || (a.Length == 0 && !a.HasPCR && afSubset(a) == "00/0" && a.StuffingLength == 0 && !a.RandomAccessIndicator && !a.DiscontinuityIndicator && !a.ElementaryStreamPriorityIndicator && p.Header.HasPayload && len(p.Payload) == 183):
		return "af-length-0"
	}
	return "af"
}

func firstDiff(a, b []byte) int {
	for i := 0; i < len(a) && i < len(b); i++ {
		if a[i] != b[i] {
			return i
		}
	}
	if len(a) != len(b) {
		if len(a) < len(b) {
			return len(a)
		}
		return len(b)
	}
	return -1
}

// fieldOf extracts the field path of a Diff message, indices stripped, so that violation classes are stable.
func fieldOf(d string) string {
	out := make([]byte, 0, len(d))
	skip := false
	for i := 0; i < len(d); i++ {
		ch := d[i]
		if ch == ':' {
			break
		}
		if ch == '[' {
			skip = true
			continue
		}
		if ch == ']' {
			skip = false
			continue
		}
		if !skip {
			out = append(out, ch)
		}
	}
	return string(out)
}

func runC11(c *mon.Ctx) {
	// endurance: packets of a long stream kept for a while and then written back (the re-emission clause over long runs)
	for i := int64(0); i < c.Pick(2, 12); i++ {
		if c.Mine("endurance", i) {
			r := c.Rng("endurance", i)
			heldPacketsCase(c, "C11", "endurance", i, r, int(c.Pick(100000, 400000))+r.IntN(5000), 1024, true)
		}
	}
	// stage pids: every PID x rotating rest of the header, payload only
	for pid := int64(0); pid < 8192; pid++ {
		if !c.Mine("pids", pid) {
			continue
		}
		r := c.Rng("pids", pid)
		reps := int(c.Pick(4, 64))
		for k := 0; k < reps; k++ {
			p := gen.RandomPacket(r)
			p.Header.PID = uint16(pid)
			checkPacketCodec(c, "pids", pid, p)
		}
	}
	// stage header: full cross product of the remaining header bits at a few PIDs (payload only / AF only / both)
	for hv := int64(0); hv < 1<<11; hv++ { // TEI PUSI prio | tsc 2 | afc 2 (00 skipped) | cc 4
		if !c.Mine("header", hv) {
			continue
		}
		afc := int(hv>>4) & 3
		if afc == 0 {
			continue
		}
		r := c.Rng("header", hv)
		for _, pid := range []uint16{0, 1, 0x10, 0x1000, 0x1fff, uint16(r.UintN(8192))} {
			p := gen.RandomPacket(r)
			for (p.Header.HasPayload != (afc&1 != 0)) || (p.Header.HasAdaptationField != (afc&2 != 0)) {
				p = gen.RandomPacket(r)
			}
			p.Header.PID = pid
			p.Header.TransportErrorIndicator = hv>>10&1 == 1
			p.Header.PayloadUnitStartIndicator = hv>>9&1 == 1
			p.Header.TransportPriority = hv>>8&1 == 1
			p.Header.TransportScramblingControl = uint8(hv >> 6 & 3)
			p.Header.ContinuityCounter = uint8(hv & 15)
			checkPacketCodec(c, "header", hv, p)
		}
	}
	// stage af: every subset of parts x ext parts x body budgets, with swept adaptation field lengths
	for sub := int64(0); sub < 32*8; sub++ {
		if !c.Mine("af", sub) {
			continue
		}
		r := c.Rng("af", sub)
		reps := int(c.Pick(60, 2000))
		for k := 0; k < reps; k++ {
			body := 1 + (k*7+int(sub))%182
			if k%5 == 0 {
				body = 182
			}
			a := gen.RandomAF(r, body, int(sub)&31, int(sub)>>5)
			if sp := body - gen.AFBodySize(a); sp > 0 && k%3 != 0 {
				a.StuffingLength = sp
			}
			p := gen.RandomPacket(r)
			p.Header.HasAdaptationField, p.Header.HasPayload = true, true
			p.AdaptationField = a
			p.Payload = gen.Bytes(r, 184-1-gen.AFBodySize(a))
			checkPacketCodec(c, "af", sub, p)
		}
	}
	// stage aflen: every adaptation_field_length 0..183 by stuffing only and with parts
	for l := int64(0); l <= 183; l++ {
		if !c.Mine("aflen", l) {
			continue
		}
		r := c.Rng("aflen", l)
		for k := 0; k < int(c.Pick(20, 400)); k++ {
			p := gen.RandomPacket(r)
			p.Header.HasAdaptationField = true
			switch {
			case l == 0:
				p.AdaptationField = &astits.PacketAdaptationField{IsOneByteStuffing: true}
			default:
				a := &astits.PacketAdaptationField{}
				if k%2 == 1 {
					a = gen.RandomAF(r, int(l), -1, -1)
				}
				a.StuffingLength = int(l) - (gen.AFBodySize(a) - a.StuffingLength)
				p.AdaptationField = a
			}
			p.Header.HasPayload = l != 183
			p.Payload = nil
			if p.Header.HasPayload {
				p.Payload = gen.Bytes(r, 183-int(l))
			}
			checkPacketCodec(c, "aflen", l, p)
		}
	}
	// stage clocks: every single-bit value of the 33+9 bit clocks and the seamless-splice DTS
	for bit := int64(0); bit < 44; bit++ {
		if !c.Mine("clocks", bit) {
			continue
		}
		r := c.Rng("clocks", bit)
		var base, ext int64
		switch {
		case bit < 33:
			base = 1 << uint(bit)
		case bit < 42:
			ext = 1 << uint(bit-33)
		case bit == 42:
			base, ext = 1<<33-1, 511
		}
		for which := 0; which < 3; which++ {
			a := &astits.PacketAdaptationField{}
			switch which {
			case 0:
				a.HasPCR, a.PCR = true, &astits.ClockReference{Base: base, Extension: ext}
			case 1:
				a.HasOPCR, a.OPCR = true, &astits.ClockReference{Base: base, Extension: ext}
			case 2:
				a.HasAdaptationExtensionField = true
				a.AdaptationExtensionField = &astits.PacketAdaptationExtensionField{HasSeamlessSplice: true, SpliceType: uint8(ext & 15), DTSNextAccessUnit: &astits.ClockReference{Base: base}}
			}
			p := gen.RandomPacket(r)
			p.Header.HasAdaptationField, p.Header.HasPayload = true, true
			p.AdaptationField = a
			p.Payload = gen.Bytes(r, 184-1-gen.AFBodySize(a))
			checkPacketCodec(c, "clocks", bit, p)
			c.Seen("clock_bits", fmt.Sprintf("%d/%d", which, bit))
		}
	}
	// stage random
	n := c.Pick(1000000, 50000000)
	for i := int64(0); i < n; i++ {
		if !c.Mine("random", i) {
			continue
		}
		p := gen.RandomPacket(c.Rng("random", i))
		checkPacketCodec(c, "random", i, p)
		if i < 2 {
			b, _ := refts.EncodePacket(p, nil)
			c.Sample("random", map[string]any{"reference_bytes": mon.Hex(b, 48), "af": afSubset(p.AdaptationField)})
		}
	}
	// stage streams: packets fed in a stream (several per demuxer) and re-emitted through one muxer
	ns := c.Pick(300, 5000)
	for i := int64(0); i < ns; i++ {
		if !c.Mine("streams", i) {
			continue
		}
		r := c.Rng("streams", i)
		k := 2 + r.IntN(40)
		var in []byte
		var want []*astits.Packet
		for j := 0; j < k; j++ {
			p := gen.RandomPacket(r)
			b, err := refts.EncodePacket(p, nil)
			if err != nil {
				continue
			}
			w, _ := refts.DecodePacket(b)
			in = append(in, b...)
			want = append(want, w)
		}
		run := RunDemux(in, baseCfg("packet"))
		got := run.Packets()
		if run.Panic != "" {
			c.Violate("C11/stream/panic", "streams", i, run.Panic, nil)
			continue
		}
		if len(got) != len(want) {
			c.Violate("C11/stream/packet-count", "streams", i, fmt.Sprintf("%d packets returned, %d in the stream; errors %v", len(got), len(want), run.Errors()), map[string]any{"stream": mon.Hex(in, 2000)})
			continue
		}
		out := &bytes.Buffer{}
		m := astits.NewMuxer(context.Background(), out)
		for j := range got {
			if d := mon.Diff(got[j], want[j], ignoreOneByte); d != "" {
				c.Violate("C11/stream/field-differs:"+fieldOf(d), "streams", i, fmt.Sprintf("packet %d: %s", j, d), nil)
			}
			if pn, v, st := mon.Guarded(func() { m.WritePacket(got[j]) }); pn {
				c.Violate("C11/stream/reemit-panic", "streams", i, fmt.Sprintf("WritePacket of packet %d returned by NextPacket: %v\n%s", j, v, st), map[string]any{"stream": mon.Hex(in, 2000)})
				break
			}
		}
		if !bytes.Equal(out.Bytes(), in) {
			c.Violate("C11/stream/reemit-differs", "streams", i, fmt.Sprintf("re-emitted stream differs at byte %d", firstDiff(out.Bytes(), in)), nil)
		}
		// the same stream with a PacketSkipper dropping a random subset: every packet that is returned must still be exactly the
		// packet of the stream (nothing of a skipped packet may show in its neighbours)
		keep := make([]bool, len(want))
		for j := range keep {
			keep[j] = r.IntN(3) > 0
		}
		calls := 0
		cfgS := baseCfg("packet")
		cfgS.Skipper = func(*astits.Packet) bool {
			calls++
			return calls-1 < len(keep) && !keep[calls-1]
		}
		runS := RunDemux(in, cfgS)
		gotS := runS.Packets()
		js := 0
		for j := range want {
			if !keep[j] {
				continue
			}
			if runS.Panic != "" || js >= len(gotS) {
				c.Violate("C11/stream/with-skipper-count", "streams", i, fmt.Sprintf("%d packets returned with a skipper keeping more (%s)", len(gotS), runS.Panic), map[string]any{"stream": mon.Hex(in, 2000)})
				break
			}
			if d := mon.Diff(gotS[js], want[j], ignoreOneByte); d != "" {
				c.Violate("C11/stream/with-skipper-field-differs:"+fieldOf(d), "streams", i, fmt.Sprintf("packet %d (returned as %d-th): %s", j, js, d), map[string]any{"stream": mon.Hex(in, 2000)})
				break
			}
			js++
			c.Count("stream_packets_compared_with_a_skipper")
		}
		c.Add("stream_packets", int64(len(got)))
		c.Case(mon.HashBytes("stream", in), true)
	}
}
