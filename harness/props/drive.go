package props

import (
	"bufio"
	"bytes"
	"context"
	"errors"
	"fmt"
	"io"

	astits "github.com/asticode/go-astits"

	"verifharness/mon"
)

// DemuxCfg is one demuxer configuration.
type DemuxCfg struct {
	PacketSize    int    // 0 = auto-detect
	Reader        string // "seek" (bytes.Reader like), "bufio", "plain"
	BufioSize     int
	Chunk         func(pos int) int
	HasFail       bool
	FailAt        int // reader fault offset (when HasFail)
	FailOnce      bool
	FailWithData  bool   // the read crossing the fault offset returns n>0 together with the error
	FailErr       error  // the error of the failing reads (nil: mon.ErrInjected)
	API           string // "data", "packet", "alt"
	Skipper       astits.PacketSkipper
	Parser        astits.PacketsParser
	MaxCalls      int
	ExtraAfterEOF int
	KeepReads     bool
	EOFWithData   bool    // the last bytes arrive together with io.EOF
	ZeroEvery     int     // every k-th Read returns (0, nil)
	RewindFirst   int     // 1: Rewind before the first call; 2: one NextPacket, then Rewind (seekable readers)
	Logger        *LogTap // when set: passed with DemuxerOptLogger
	HasSeekFail   bool
	SeekFailIdx   int             // index of the Seek call that fails (when HasSeekFail)
	Ctx           context.Context // nil: context.Background()
	Groups        *GroupRec       // when set (and Parser is nil): an observing PacketsParser that records the groups it is handed
}

// GroupRec records, into whatever Sink points at, one line per group an observing PacketsParser is handed: PID and continuity
// counters of its packets.
type GroupRec struct{ Sink *[]string }

func (g *GroupRec) parser(ps []*astits.Packet) ([]*astits.DemuxerData, bool, error) {
	if g.Sink != nil {
		l := ""
		for k, p := range ps {
			if k == 0 {
				l = fmt.Sprintf("%#x:", p.Header.PID)
			}
			l += fmt.Sprintf(" %d/%d", p.Header.ContinuityCounter, len(p.Payload))
		}
		*g.Sink = append(*g.Sink, l)
	}
	return nil, false, nil
}

func (c DemuxCfg) String() string {
	ps := "auto"
	if c.PacketSize > 0 {
		ps = fmt.Sprint(c.PacketSize)
	}
	ch := "full"
	if c.Chunk != nil {
		ch = "chunked"
	}
	if c.EOFWithData {
		ch += "+eof-with-data"
	}
	if c.ZeroEvery > 0 {
		ch += fmt.Sprintf("+zero-read-every-%d", c.ZeroEvery)
	}
	return fmt.Sprintf("size=%s reader=%s reads=%s api=%s", ps, c.Reader, ch, c.API)
}

// Item is one result of a demuxer call.
type Item struct {
	Data   *astits.DemuxerData
	Packet *astits.Packet
	Err    error
	Pos    int // reader position (bytes consumed from the source) when the call returned
	Call   int
}

// DemuxRun is everything observed while draining a demuxer.
type DemuxRun struct {
	Items      []Item
	Calls      int
	EOFAt      int // call index of the first ErrNoMorePackets, -1 if never
	Panic      string
	PanicClass string
	PostEOFBad string   // a call after ErrNoMorePackets returned something else
	WrappedEOF string   // a call returned an error that wraps ErrNoMorePackets instead of the sentinel itself
	Groups     []string // groups handed to the observing parser (runWithGroups)
	Tap        *mon.RTap
	Dmx        *astits.Demuxer
	PacketSize int // framing used (set by callers that need offsets; 0 = 188)
}

func (r *DemuxRun) Datas() []*astits.DemuxerData {
	var out []*astits.DemuxerData
	for _, it := range r.Items {
		if it.Data != nil {
			out = append(out, it.Data)
		}
	}
	return out
}

func (r *DemuxRun) Packets() []*astits.Packet {
	var out []*astits.Packet
	for _, it := range r.Items {
		if it.Packet != nil {
			out = append(out, it.Packet)
		}
	}
	return out
}

func (r *DemuxRun) Errors() []error {
	var out []error
	for _, it := range r.Items {
		if it.Err != nil {
			out = append(out, it.Err)
		}
	}
	return out
}

// NewDemuxer builds the demuxer + tap of a configuration without running it.
func NewDemuxerFor(input []byte, cfg DemuxCfg) (*astits.Demuxer, *mon.RTap) {
	tap := mon.NewRTap(input)
	tap.Chunk = cfg.Chunk
	tap.KeepLog = cfg.KeepReads
	tap.EOFWithData = cfg.EOFWithData
	tap.ZeroEvery = cfg.ZeroEvery
	if cfg.HasSeekFail {
		tap.SeekFailIdx = cfg.SeekFailIdx
	}
	if cfg.HasFail {
		tap.FailAt = cfg.FailAt
		tap.FailOnce = cfg.FailOnce
		tap.FailWithData = cfg.FailWithData
		tap.FailErr = cfg.FailErr
	}
	var rd io.Reader
	switch cfg.Reader {
	case "bufio":
		sz := cfg.BufioSize
		if sz == 0 {
			sz = 4096
		}
		rd = bufio.NewReaderSize(mon.Plain{T: tap}, sz)
	case "plain":
		rd = mon.Plain{T: tap}
	default:
		rd = mon.Seekable{RTap: tap}
	}
	var opts []func(*astits.Demuxer)
	if cfg.PacketSize > 0 {
		opts = append(opts, astits.DemuxerOptPacketSize(cfg.PacketSize))
	}
	if cfg.Skipper != nil {
		opts = append(opts, astits.DemuxerOptPacketSkipper(cfg.Skipper))
	}
	if cfg.Parser != nil {
		opts = append(opts, astits.DemuxerOptPacketsParser(cfg.Parser))
	} else if cfg.Groups != nil {
		opts = append(opts, astits.DemuxerOptPacketsParser(cfg.Groups.parser))
	}
	if cfg.Logger != nil {
		opts = append(opts, astits.DemuxerOptLogger(cfg.Logger))
	}
	ctx := cfg.Ctx
	if ctx == nil {
		ctx = context.Background()
	}
	return astits.NewDemuxer(ctx, rd, opts...), tap
}

// RunDemux drains a demuxer: calls the API until ErrNoMorePackets (continuing after other errors), then ExtraAfterEOF more times.
func RunDemux(input []byte, cfg DemuxCfg) *DemuxRun {
	dmx, tap := NewDemuxerFor(input, cfg)
	run := &DemuxRun{EOFAt: -1, Tap: tap, Dmx: dmx}
	if cfg.RewindFirst > 0 {
		if p, v, st := mon.Guarded(func() {
			if cfg.RewindFirst == 2 {
				dmx.NextPacket()
			}
			dmx.Rewind()
		}); p {
			run.Panic = fmt.Sprintf("%v\n%s", v, st)
			run.PanicClass = mon.PanicClass(v, st)
			return run
		}
	}
	max := cfg.MaxCalls
	if max == 0 {
		max = len(input) + 64
	}
	after := 0
	for run.Calls < max+cfg.ExtraAfterEOF+1 {
		var it Item
		tap.Calls = run.Calls
		usePacket := cfg.API == "packet" || (cfg.API == "alt" && run.Calls%2 == 1)
		p, v, st := mon.Guarded(func() {
			if usePacket {
				it.Packet, it.Err = dmx.NextPacket()
			} else {
				it.Data, it.Err = dmx.NextData()
			}
		})
		it.Call = run.Calls
		it.Pos = tap.Pos
		run.Calls++
		if p {
			run.Panic = fmt.Sprintf("%v\n%s", v, st)
			run.PanicClass = mon.PanicClass(v, st)
			return run
		}
		if run.EOFAt >= 0 {
			if it.Err != astits.ErrNoMorePackets || it.Data != nil || it.Packet != nil {
				if run.PostEOFBad == "" {
					run.PostEOFBad = fmt.Sprintf("call %d after ErrNoMorePackets returned data=%v packet=%v err=%v", it.Call, it.Data != nil, it.Packet != nil, it.Err)
				}
			}
			after++
			if after >= cfg.ExtraAfterEOF {
				return run
			}
			continue
		}
		// the end of the stream is the sentinel ITSELF (callers compare with ==, as the README does): an error that merely wraps it
		// is an error like any other, and is remembered
		if it.Err != nil && it.Err != astits.ErrNoMorePackets && errors.Is(it.Err, astits.ErrNoMorePackets) && run.WrappedEOF == "" {
			run.WrappedEOF = fmt.Sprintf("call %d returned %q: errors.Is finds ErrNoMorePackets in it, it is not ErrNoMorePackets", it.Call, it.Err.Error())
		}
		if it.Err == astits.ErrNoMorePackets && it.Data == nil && it.Packet == nil {
			if cfg.API == "alt" && usePacket {
				// with mixed calls NextPacket runs dry first while NextData may still flush pending units:
				// the end of the stream is the first ErrNoMorePackets of NextData
				continue
			}
			run.EOFAt = it.Call
			if cfg.ExtraAfterEOF == 0 {
				return run
			}
			continue
		}
		run.Items = append(run.Items, it)
		if run.Calls >= max && run.EOFAt < 0 {
			return run
		}
	}
	return run
}

// baseline configuration of the design: explicit 188, seekable reader, full reads.
func baseCfg(api string) DemuxCfg { return DemuxCfg{PacketSize: 188, Reader: "seek", API: api} }

// perPID groups data by PID preserving order.
func perPID(ds []*astits.DemuxerData) map[uint16][]*astits.DemuxerData {
	m := map[uint16][]*astits.DemuxerData{}
	for _, d := range ds {
		m[d.PID] = append(m[d.PID], d)
	}
	return m
}

var ignoreOneByte = &mon.EqOpt{Ignore: map[string]bool{"PacketAdaptationField.IsOneByteStuffing": true}}

// dataKind names the content of a DemuxerData.
func dataKind(d *astits.DemuxerData) string {
	switch {
	case d.PES != nil:
		return "PES"
	case d.PAT != nil:
		return "PAT"
	case d.PMT != nil:
		return "PMT"
	case d.NIT != nil:
		return "NIT"
	case d.SDT != nil:
		return "SDT"
	case d.EIT != nil:
		return "EIT"
	case d.TOT != nil:
		return "TOT"
	}
	return "empty"
}

// muxWrite runs one Muxer.WritePacket on a fresh muxer and returns what reached the writer.
func muxWritePacket(p *astits.Packet) (out []byte, n int, err error, panicked string) {
	buf := &bytes.Buffer{}
	m := astits.NewMuxer(context.Background(), buf)
	start := 0
	if p != nil && p.Header.ContinuityCounter%2 == 1 {
		// a Muxer that has already written tables, a PES and another packet: what WritePacket emits may not depend on that
		m.AddElementaryStream(astits.PMTElementaryStream{ElementaryPID: 0x1ab0, StreamType: astits.StreamTypeMPEG2Audio})
		m.SetPCRPID(0x1ab0)
		m.WritePacket(&astits.Packet{Header: astits.PacketHeader{PID: 0x1ab1, HasPayload: true}, Payload: []byte{1, 2, 3}})
		if p.Header.PID%2 == 0 {
			m.WriteTables() // the last call before the packet is either a table emission or a PES
		}
		if p.Header.PID%2 == 1 || p.Header.PID%4 == 0 {
			m.WriteData(&astits.MuxerData{PID: 0x1ab0, PES: &astits.PESData{Header: &astits.PESHeader{StreamID: 0xc0, OptionalHeader: &astits.PESOptionalHeader{MarkerBits: 2}}, Data: bytes.Repeat([]byte{0x5a}, 300+int(p.Header.PID%200))}})
		}
		if p.Header.PID%4 == 0 {
			m.WriteTables()
		}
		start = buf.Len()
	}
	pp, v, st := mon.Guarded(func() { n, err = m.WritePacket(p) })
	if pp {
		panicked = fmt.Sprintf("%v\n%s", v, st)
	}
	return buf.Bytes()[start:], n, err, panicked
}

// LogTap is a logger handed to the Demuxer: it records what the library logs (errors it decides not to return).
type LogTap struct{ Lines []string }

func (l *LogTap) Fatal(v ...interface{}) { l.Lines = append(l.Lines, "FATAL "+fmt.Sprint(v...)) }
func (l *LogTap) Fatalf(format string, v ...interface{}) {
	l.Lines = append(l.Lines, "FATAL "+fmt.Sprintf(format, v...))
}
func (l *LogTap) Print(v ...interface{}) { l.Lines = append(l.Lines, fmt.Sprint(v...)) }
func (l *LogTap) Printf(format string, v ...interface{}) {
	l.Lines = append(l.Lines, fmt.Sprintf(format, v...))
}

// reusedBuf returns the bytes of b in a long-lived buffer of its own for `name`: consecutive calls hand the library the same
// memory with other content, as the Demuxer's pooled parse buffer does. A result may depend on the bytes of the call only.
func reusedBuf(name string, b []byte) []byte {
	sb := reusedBufs[name]
	if cap(sb) < len(b) {
		sb = make([]byte, 0, 2*len(b)+64)
		reusedBufs[name] = sb
	}
	sb = sb[:len(b)]
	copy(sb, b)
	return sb
}

var reusedBufs = map[string][]byte{}
