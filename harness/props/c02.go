package props

import (
	"fmt"
	"math/rand/v2"

	astits "github.com/asticode/go-astits"

	"verifharness/gen"
	"verifharness/mon"
	"verifharness/refts"
)

func init() {
	register(&Prop{
		ID:    "C02",
		Level: "exploration",
		Rule: "streams built by the independent reference multiplexer from random models (1..8 PIDs: PAT, PMT PIDs announced by it, DVB SI PIDs, PES PIDs; bounded and unbounded PES; " +
			"PSI units of 1..n sections over 1..6+ packets; pointer_field 0..n; adaptation stuffing in any packet; trailing 0xFF or exact fit; random interleaving; PMT units that start before and end after the PAT announcing them) demultiplexed with NextData (seekable and read-only readers; a quarter of the runs after an initial Rewind or in the 188+k framing); " +
			"plus sparse PIDs silent for up to 262 200 packets of other PIDs (stage endurance), an interior section header at every offset 1..183 before the end of a packet payload (header-straddle), one to three PMTs complete before the PAT that announces them, delivered at end of stream (pmt-before-pat); plus enumeration of every first-chunk and last-chunk size (thorough: every pair) of selected units; distinct = hash of the stream bytes; non-trivial = ≥2 units delivered on ≥2 PIDs or a multi-packet unit",
		Assumptions: []string{"units are packet aligned and start with payload_unit_start; on PAT/PMT PIDs an interior section boundary never coincides with a packet boundary (ISO 13818-1 requires payload_unit_start for a section start)",
			"the PAT unit announcing a PMT PID is complete before the final packet of that PID's first unit (stage straddle: before the first packet elsewhere)", "table contents are simple and carry the unit id (field fidelity is C13's subject)",
			"discontinuity_indicator is never set (C06 covers it)"},
		Shards: 32,
		Run:    runC02,
		Guards: func(m *mon.Merged, tier string) []string {
			var out []string
			need(m, &out, "units_compared_PES", 1000)
			need(m, &out, "units_compared_PSI", 1000)
			need(m, &out, "readahead_checks", 500)
			need(m, &out, "late_delivery_checks", 500)
			need(m, &out, "split_one_byte_first_chunk", 50)
			need(m, &out, "split_one_byte_last_chunk", 50)
			need(m, &out, "split_pointer_only_first_chunk", 20)
			need(m, &out, "multi_section_units", 100)
			need(m, &out, "exhaustive_split_streams", 1000)
			need(m, &out, "long_streams", 6)
			need(m, &out, "endurance_sparse_streams", 8)
			need(m, &out, "program_maps_complete_before_their_pat_delivered_at_end_of_stream", 100)
			need(m, &out, "interior_section_headers_split_between_packets", 6)
			need(m, &out, "streams_with_giant_units", 12)
			need(m, &out, "streams_through_a_plain_reader", 300)
			need(m, &out, "streams_after_an_initial_rewind", 150)
			need(m, &out, "pmt_units_straddling_their_pat", 300)
			need(m, &out, "streams_in_larger_framing", 100)
			return out
		},
	})
}

// checkStreamDelivery judges one demuxer run against the model (C02's oracle, reused by other properties).
// pktSizeOf tells the framing the run used (set by the caller through run.PacketSize; 188 by default).
func checkStreamDelivery(c *mon.Ctx, prop, stage string, idx int64, s *gen.Stream, m *gen.Model, run *DemuxRun, timing bool) bool {
	psz := 188
	if run.PacketSize > 0 {
		psz = run.PacketSize
	}
	data := map[string]any{"stream": mon.Hex(s.Bytes, 3000), "packets": len(s.Packets)}
	ok := true
	bad := func(class, detail string) {
		ok = false
		c.Violate(prop+"/"+class, stage, idx, detail, data)
	}
	if run.Panic != "" {
		bad("panic", run.Panic)
		return false
	}
	if run.EOFAt < 0 {
		bad("no-end-of-stream", fmt.Sprintf("ErrNoMorePackets not reached after %d calls", run.Calls))
		return false
	}
	for _, it := range run.Items {
		if it.Err != nil {
			bad("error-on-wellformed-stream", fmt.Sprintf("call %d: %v", it.Call, it.Err))
			return false
		}
	}
	// per PID expectations
	type exp struct {
		u *gen.Unit
		d *astits.DemuxerData
		k int // section index inside the unit
	}
	want := map[uint16][]exp{}
	for _, u := range s.Units {
		for k, d := range u.Expected() {
			want[u.PID] = append(want[u.PID], exp{u, d, k})
		}
	}
	pos := map[uint16]int{}
	for _, it := range run.Items {
		d := it.Data
		if d == nil {
			continue
		}
		w := want[d.PID]
		i := pos[d.PID]
		if i >= len(w) {
			bad("extra-data:"+dataKind(d), fmt.Sprintf("pid %#x: unexpected extra %s (call %d)", d.PID, dataKind(d), it.Call))
			return false
		}
		e := w[i]
		pos[d.PID]++
		g := *d
		g.FirstPacket = nil
		kindU := "PSI"
		if e.u.Kind == gen.UnitPES {
			kindU = "PES"
		}
		if df := mon.Diff(&g, e.d, nil); df != "" {
			bad("unit-differs:"+kindU+splitClass(e.u, m), fmt.Sprintf("pid %#x unit serial %d section %d: delivered vs model: %s", d.PID, e.u.Serial, e.k, df))
			return false
		}
		// first packet
		fp := s.Packets[e.u.FirstPkt]
		wfp, _ := refts.DecodePacket(mustEncode(fp))
		if d.FirstPacket == nil {
			bad("first-packet-missing", fmt.Sprintf("pid %#x", d.PID))
		} else {
			wantFP := &astits.Packet{Header: wfp.Header, AdaptationField: wfp.AdaptationField}
			if df := mon.Diff(d.FirstPacket, wantFP, ignoreOneByte); df != "" {
				bad("first-packet-differs:"+fieldOf(df), fmt.Sprintf("pid %#x unit %d: %s", d.PID, e.u.Serial, df))
			}
		}
		if timing {
			endOff := (e.u.LastPkt + 1) * psz
			if m != nil && m.Early[d.PID] {
				c.Count("readahead_checks")
				if it.Pos != endOff {
					bad("pat-pmt-not-returned-by-final-packet-call", fmt.Sprintf("pid %#x unit %d (%s): returned with the reader at %d, the unit's final packet ends at %d", d.PID, e.u.Serial, dataKind(d), it.Pos, endOff))
				}
			} else {
				// no later than the call that reads the next payload_unit_start of the PID
				next := -1
				for _, u2 := range s.Units {
					if u2.PID == d.PID && u2.FirstPkt > e.u.LastPkt {
						next = u2.FirstPkt
						break
					}
				}
				if next >= 0 {
					c.Count("late_delivery_checks")
					if it.Pos > (next+1)*psz {
						// the statement bounds the delivery of PAT/PMT only; for other units this is an observation, not a verdict
						c.Count("units_returned_after_the_next_unit_of_their_pid_was_read")
					}
				}
			}
		}
		c.Count("units_compared_" + kindU)
	}
	for pid, w := range want {
		if pos[pid] != len(w) {
			e := w[pos[pid]]
			kindU := "PSI"
			if e.u.Kind == gen.UnitPES {
				kindU = "PES"
			}
			lastOfPID := pos[pid] >= len(w)-len(e.u.Expected())
			cl := "unit-missing:" + kindU + splitClass(e.u, m)
			if lastOfPID {
				cl += ":last-of-pid"
			}
			bad(cl, fmt.Sprintf("pid %#x: %d of %d expected data delivered; first missing: unit serial %d (packets %v)", pid, pos[pid], len(w), e.u.Serial, e.u.Pkts))
		}
	}
	return ok
}

func mustEncode(p *astits.Packet) []byte {
	b, err := refts.EncodePacket(p, nil)
	if err != nil {
		panic(err)
	}
	return b
}

// splitClass names the packetisation class of a unit (categorical, used in violation classes and counters).
func splitClass(u *gen.Unit, m *gen.Model) string {
	s := ""
	if u.Kind == gen.UnitPSI && m != nil && m.Early[u.PID] {
		first := 1 + int(u.Payload[0])
		if len(u.Plan) > 1 && u.Plan[0].N <= first {
			s += ":pointer-only-first-chunk"
		}
	}
	return s
}

func countSplits(c *mon.Ctx, s *gen.Stream, m *gen.Model) {
	for _, u := range s.Units {
		if len(u.Plan) > 1 {
			if u.Plan[0].N == 1 {
				c.Count("split_one_byte_first_chunk")
			}
			if u.Plan[len(u.Plan)-1].N == 1 {
				c.Count("split_one_byte_last_chunk")
			}
		}
		if splitClass(u, m) != "" {
			c.Count("split_pointer_only_first_chunk")
		}
		if u.Kind == gen.UnitPSI {
			if len(u.Sections) > 1 {
				c.Count("multi_section_units")
			}
			if u.Payload[0] > 0 {
				c.Count("units_with_pointer_field_gt_0")
			}
			if !u.TailPad {
				c.Count("psi_units_without_trailing_ff")
			}
			off := 0
			for i, p := range u.Plan {
				off += p.N
				if i < len(u.Plan)-1 && u.SectionBoundaries()[off] {
					c.Count("section_end_at_packet_end")
				}
			}
		} else if u.PES.Header.PacketLength == 0 {
			c.Count("unbounded_pes_units")
		}
		c.Max("max_packets_per_unit", int64(len(u.Plan)))
		for _, p := range u.Plan {
			if p.N < 184 {
				c.Count("packets_with_adaptation_stuffing_or_pad")
				break
			}
		}
	}
}

func nontrivialStream(s *gen.Stream) bool {
	pids := map[uint16]bool{}
	multi := false
	for _, u := range s.Units {
		pids[u.PID] = true
		if len(u.Plan) > 1 {
			multi = true
		}
	}
	return (len(s.Units) >= 2 && len(pids) >= 2) || multi
}

// twoAtOnceCase: a PMT PID is already sending when the capture starts, its first unit lies before the PAT that announces the PID.
// The unit that follows the PAT arrives in one packet and is complete at once — that packet ends two units, and the second one
// holds several sections. Every section of every unit has to be delivered, once and in order.
func twoAtOnceCase(c *mon.Ctx, idx int64, r *rand.Rand) {
	pmtPID := uint16(0x100 + r.IntN(0x800))
	type up struct {
		pid  uint16
		pay  []byte
		secs []*astits.PSISection
	}
	mk := func(serial, nsec int) up {
		var secs []*astits.PSISection
		for q := 0; q < nsec; q++ {
			secs = append(secs, gen.SimpleSection(r, refts.KindPMT, serial*8+q, r.IntN(12)))
		}
		u := gen.NewPSIUnit(r, pmtPID, serial, secs, 0, false)
		return up{pmtPID, u.Payload, u.Sections}
	}
	pat := gen.SimpleSection(r, refts.KindPAT, 1, 0)
	pat.Syntax.Data.PAT.Programs = []*astits.PATProgram{{ProgramNumber: 1, ProgramMapID: pmtPID}}
	units := []up{mk(1, 1), {0, gen.NewPSIUnit(r, 0, 1, []*astits.PSISection{pat}, 0, false).Payload, nil}, mk(2, 2+r.IntN(3)), mk(3, 1+r.IntN(2))}
	if idx%2 == 1 {
		units = units[:3] // the stream ends right after the packet that completed two units
	}
	var stream []byte
	var want []*astits.PMTData
	cc := map[uint16]uint8{}
	for _, u := range units {
		if len(u.pay) > 184 {
			return
		}
		b, _ := refts.EncodePacket(gen.BuildPacket(u.pid, cc[u.pid], true, u.pay, nil, true), nil)
		cc[u.pid]++
		stream = append(stream, b...)
		for _, sec := range u.secs {
			want = append(want, sec.Syntax.Data.PMT)
		}
	}
	run := RunDemux(stream, baseCfg("data"))
	data := map[string]any{"stream": mon.Hex(stream, 1200)}
	c.Count("streams_where_one_packet_completes_two_units")
	if run.Panic != "" {
		c.Violate("C02/panic", "two-at-once", idx, run.Panic, data)
		return
	}
	if errs := run.Errors(); len(errs) > 0 {
		c.Violate("C02/error-on-wellformed-stream", "two-at-once", idx, errs[0].Error(), data)
		return
	}
	var got []*astits.PMTData
	for _, d := range run.Datas() {
		if d.PID == pmtPID && d.PMT != nil {
			got = append(got, d.PMT)
		}
	}
	if len(got) != len(want) {
		c.Violate("C02/unit-missing:PSI:two-units-completed-by-one-packet", "two-at-once", idx, fmt.Sprintf("%d PMT sections delivered, the stream carries %d", len(got), len(want)), data)
		return
	}
	for k := range want {
		if d := mon.Diff(got[k], want[k], nil); d != "" {
			c.Violate("C02/unit-differs:PSI:two-units-completed-by-one-packet", "two-at-once", idx, fmt.Sprintf("section %d: %s", k, d), data)
			return
		}
	}
	c.Add("sections_of_units_completed_in_pairs_compared", int64(len(want)))
}

func runC02(c *mon.Ctx) {
	nt := c.Pick(300, 20000)
	for i := int64(0); i < nt; i++ {
		if c.Mine("two-at-once", i) {
			twoAtOnceCase(c, i, c.Rng("two-at-once", i))
		}
	}
	n := c.Pick(3000, 150000)
	for i := int64(0); i < n; i++ {
		if !c.Mine("streams", i) {
			continue
		}
		r := c.Rng("streams", i)
		m := gen.RandomModel(r, gen.ModelOpts{MaxPES: 3, MaxPMT: 3, MaxSI: 3, MaxUnits: 4, ReservedRnd: true, RichAF: i%3 == 0, Scrambled: i%5 == 1, SharedPMTPID: i%5 == 2})
		s := m.Build(r)
		var run *DemuxRun
		if i%4 == 3 {
			// the same packets in the 188+k framing (explicit size)
			k := []int{4, 16, 1 + r.IntN(60)}[r.IntN(3)]
			ex := gen.Bytes(r, k)
			run = RunDemux(refts.Reframe(s.Bytes, k, func(p, j int) byte { return ex[j] ^ byte(p) }), DemuxCfg{PacketSize: 188 + k, Reader: "seek", API: "data"})
			run.PacketSize = 188 + k
			c.Count("streams_in_larger_framing")
		} else {
			cfg := baseCfg("data")
			switch i % 8 {
			case 1, 5:
				// a reader that can only Read: with an explicit packet size nothing may be read ahead of the packet returned
				cfg.Reader = "plain"
				c.Count("streams_through_a_plain_reader")
			case 2:
				// the application looks at the first packet (or nothing), rewinds, and then demultiplexes
				cfg.RewindFirst = 1 + int(i/8)%2
				c.Count("streams_after_an_initial_rewind")
			}
			run = RunDemux(s.Bytes, cfg)
		}
		checkStreamDelivery(c, "C02", "streams", i, s, m, run, true)
		countSplits(c, s, m)
		c.Seen("pid_counts", fmt.Sprint(len(m.PIDs)))
		c.Add("packets_demuxed", int64(len(s.Packets)))
		c.Case(mon.HashBytes("c02", s.Bytes), nontrivialStream(s))
		if i < 2 {
			c.Sample("streams", map[string]any{"pids": m.PIDs, "units": len(s.Units), "packets": len(s.Packets), "head": mon.Hex(s.Bytes, 64)})
		}
	}
	// a PMT unit that starts before the PAT announcing its PID is complete and ends after it: when its final packet is read the PID
	// is known, so the call that reads that packet must return the table (the packets before the PAT wait in the PID's queue)
	nst := c.Pick(400, 20000)
	for i := int64(0); i < nst; i++ {
		if !c.Mine("straddle", i) {
			continue
		}
		r := c.Rng("straddle", i)
		var m *gen.Model
		var pid uint16
		for pid == 0 {
			m = gen.RandomModel(r, gen.ModelOpts{MaxPES: 2, MaxPMT: 3, MaxSI: 1, MaxUnits: 3, RichAF: i%2 == 0})
			for _, p := range m.PIDs {
				if p != 0 && m.Early[p] && m.Hold[p] > 0 && len(m.PerPID[p]) > 0 && len(m.PerPID[p][0].Plan) >= 2 {
					pid = p
					break
				}
			}
		}
		order := gen.RandomOrder(r, m.Counts(), m.PIDs, m.Hold)
		// move the first j packets of the PMT PID in front of the hold-th PAT packet
		j := 1 + r.IntN(len(m.PerPID[pid][0].Plan)-1)
		var rest []uint16
		moved := 0
		for _, p := range order {
			if p == pid && moved < j {
				moved++
				continue
			}
			rest = append(rest, p)
		}
		pats, cut := 0, 0
		for k, p := range rest {
			if p == 0 {
				pats++
				if pats == m.Hold[pid] {
					cut = k // the PAT packet that completes the announcing unit
					break
				}
			}
		}
		var out []uint16
		ins := make([]int, j)
		for k := range ins {
			ins[k] = r.IntN(cut + 1)
		}
		for k := 0; k <= len(rest); k++ {
			for _, at := range ins {
				if at == k {
					out = append(out, pid)
				}
			}
			if k < len(rest) {
				out = append(out, rest[k])
			}
		}
		s := m.BuildOrder(out)
		run := RunDemux(s.Bytes, baseCfg("data"))
		checkStreamDelivery(c, "C02", "straddle", i, s, m, run, true)
		c.Count("pmt_units_straddling_their_pat")
		c.Case(mon.HashBytes("c02straddle", s.Bytes), true)
	}
	// large units: PES of a thousand packets and more, and bounded PES whose PES_packet_length sits at the top of its 16 bits
	ng := c.Pick(16, 200)
	for i := int64(0); i < ng; i++ {
		if !c.Mine("giant", i) {
			continue
		}
		r := c.Rng("giant", i)
		var big []*gen.Unit
		switch i % 4 {
		case 0: // bounded, PES_packet_length 65525..65535 (3 flag bytes + 5 PTS bytes + data)
			for k := 0; k < 3; k++ {
				l := 65535 - r.IntN(11)
				if k == 0 {
					l = 65535 - int(i/4)%11
				}
				big = append(big, gen.NewPESUnit(r, 0x100, 1+k, gen.PESOpts{DataLen: l - 8, WithPTS: true}))
			}
		default: // unbounded, 1023 / 1024 / 1025 / 2048+ packets
			n := []int{1023, 1024, 1025, 2048 + r.IntN(3000)}[(int(i)+int(i/4))%4]
			big = append(big, gen.NewPESUnit(r, 0x100, 1, gen.PESOpts{DataLen: n*184 - 14 - r.IntN(184), Unbounded: true, WithPTS: true}))
			big = append(big, gen.NewPESUnit(r, 0x100, 2, gen.PESOpts{DataLen: 300 + r.IntN(3000), Unbounded: true, WithPTS: true}))
		}
		var small []*gen.Unit
		for k := 0; k < 4; k++ {
			small = append(small, gen.NewPESUnit(r, 0x101, 10+k, gen.PESOpts{DataLen: 50 + r.IntN(900), WithPTS: k%2 == 0}))
		}
		counts := map[uint16]int{}
		for _, u := range append(append([]*gen.Unit{}, big...), small...) {
			u.PlanChunks(gen.RandomChunks(r, len(u.Payload), 0, 0, false))
			counts[u.PID] += len(u.Plan)
		}
		per := map[uint16][]*gen.Unit{0x100: big, 0x101: small}
		s := gen.Mux(per, gen.RandomOrder(r, counts, []uint16{0x100, 0x101}, nil), nil)
		run := RunDemux(s.Bytes, baseCfg("data"))
		checkStreamDelivery(c, "C02", "giant", i, s, nil, run, false)
		c.Count("streams_with_giant_units")
		c.Max("largest_unit_packets", int64(len(big[0].Plan)))
		c.Case(mon.HashBytes("c02giant", s.Bytes[:3760]), true)
	}
	// long streams: thousands of packets, continuity counters wrapping many times, many units per PID
	nlong := c.Pick(6, 80)
	for i := int64(0); i < nlong; i++ {
		if !c.Mine("long", i) {
			continue
		}
		r := c.Rng("long", i)
		var s *gen.Stream
		var m *gen.Model
		for {
			m = gen.RandomModel(r, gen.ModelOpts{MaxPES: 3, MaxPMT: 2, MaxSI: 2, MaxUnits: 60, MaxPESLen: 7000, RichAF: true})
			s = m.Build(r)
			if len(s.Packets) >= 1500 {
				break
			}
		}
		run := RunDemux(s.Bytes, baseCfg("data"))
		checkStreamDelivery(c, "C02", "long", i, s, m, run, true)
		c.Count("long_streams")
		c.Max("long_stream_packets", int64(len(s.Packets)))
		c.Case(mon.HashBytes("c02long", s.Bytes[:3760]), true)
	}
	// header-straddle: the header of an interior section starts 1, 2, 3 ... 183 bytes before the end of a packet payload (every
	// residue; with 1 and 2 its three bytes are split between two packets), on the PAT PID, a PMT PID and an SI PID
	for i := int64(0); i < 3*184; i++ {
		before := int(i % 184)
		if before == 0 || !c.Mine("header-straddle", i) {
			continue
		}
		kind := []refts.TableKind{refts.KindPAT, refts.KindPMT, refts.KindSDT}[i/184]
		s, _ := straddleStream(c.Rng("header-straddle", i), kind, before)
		run := RunDemux(s.Bytes, baseCfg("data"))
		checkStreamDelivery(c, "C02", "header-straddle", i, s, nil, run, false)
		c.Count("interior_section_header_positions")
		if before <= 2 {
			c.Count("interior_section_headers_split_between_packets")
		}
		c.Case(mon.HashBytes("c02hs", s.Bytes), true)
	}
	// a program map that is complete before the PAT announcing its PID arrives, with no further unit on that PID: nothing flushes it
	// before the end of the stream, where — the PAT having been delivered — it is a table like any other last unit of a PID
	for i := int64(0); i < c.Pick(120, 3000); i++ {
		if !c.Mine("pmt-before-pat", i) {
			continue
		}
		r := c.Rng("pmt-before-pat", i)
		// one to three programs whose maps are all complete before the one PAT that announces them
		npm := 1 + int(i)%3
		per := map[uint16][]*gen.Unit{}
		pat := gen.PATFor(r, 0x1000)
		pat.Sections[0].Syntax.Data.PAT.Programs = nil
		var pmtOrder []uint16
		for q := 0; q < npm; q++ {
			pid := uint16(0x1000 + q)
			pmt := gen.NewPSIUnit(r, pid, 1+q, []*astits.PSISection{gen.SimpleSection(r, refts.KindPMT, 1+q, r.IntN(300))}, r.IntN(3), false)
			pmt.PlanChunks(gen.RandomChunks(r, len(pmt.Payload), 0, 0, true))
			pmt.TailPad = r.IntN(2) == 0
			per[pid] = []*gen.Unit{pmt}
			pmtOrder = append(pmtOrder, repeatPID(pid, len(pmt.Plan))...)
			pat.Sections[0].Syntax.Data.PAT.Programs = append(pat.Sections[0].Syntax.Data.PAT.Programs, &astits.PATProgram{ProgramNumber: uint16(1 + q), ProgramMapID: pid})
		}
		pat = gen.NewPSIUnit(r, 0, 0, pat.Sections, 0, false)
		pat.PlanChunks([]int{len(pat.Payload)})
		pat.TailPad = true
		var pes []*gen.Unit
		for k := 0; k < 2+r.IntN(4); k++ {
			u := gen.NewPESUnit(r, 0x100, k, gen.PESOpts{DataLen: 20 + r.IntN(500), Unbounded: k%2 == 0, WithPTS: true})
			u.PlanChunks(gen.RandomChunks(r, len(u.Payload), 0, 0, true))
			pes = append(pes, u)
		}
		np := gen.NumPackets(pes)
		before := r.IntN(np + 1)
		between := r.IntN(np - before + 1)
		order := append(repeatPID(0x100, before), pmtOrder...)
		order = append(order, repeatPID(0x100, between)...)
		order = append(order, repeatPID(0, len(pat.Plan))...)
		order = append(order, repeatPID(0x100, np-before-between)...)
		per[0], per[0x100] = []*gen.Unit{pat}, pes
		s := gen.Mux(per, order, nil)
		run := RunDemux(s.Bytes, baseCfg("data"))
		checkStreamDelivery(c, "C02", "pmt-before-pat", i, s, nil, run, false)
		c.Count("program_maps_complete_before_their_pat_delivered_at_end_of_stream")
		c.Case(mon.HashBytes("c02pbp", s.Bytes), true)
	}
	// endurance: PIDs that stay silent while tens of thousands of packets of other PIDs pass (65536 and 131072 among the gaps)
	for i := int64(0); i < c.Pick(8, 40); i++ {
		if c.Mine("endurance", i) {
			sparseCase(c, "C02", "endurance", i)
		}
	}
	// exhaustive cuts: every first-chunk size and every last-chunk size of one unit inside a small context
	ne := c.Pick(120, 2500)
	for i := int64(0); i < ne; i++ {
		if !c.Mine("cuts", i) {
			continue
		}
		r := c.Rng("cuts", i)
		exhaustiveCuts(c, i, r)
	}
}

// exhaustiveCuts builds a 2-3 PID context and enumerates the packetisation of one target unit.
func exhaustiveCuts(c *mon.Ctx, idx int64, r *rand.Rand) {
	m := gen.RandomModel(r, gen.ModelOpts{MaxPES: 1, MaxPMT: 1, MaxSI: 1, MaxUnits: 2, SmallUnits: true})
	// choose the target: rotate over kinds
	var cands []*gen.Unit
	for _, p := range m.PIDs {
		cands = append(cands, m.PerPID[p]...)
	}
	t := cands[r.IntN(len(cands))]
	// make the target interesting: PES of up to ~500 bytes / PSI as is (≤ ~3 packets)
	if t.Kind == gen.UnitPES && len(t.Payload) < 200 {
		nu := gen.NewPESUnit(r, t.PID, t.Serial, gen.PESOpts{DataLen: 150 + r.IntN(400), Unbounded: r.IntN(2) == 0, WithPTS: true})
		*t = *nu
	}
	L := len(t.Payload)
	early := m.Early[t.PID]
	bounds := t.SectionBoundaries()
	firstSec := 0
	if t.Kind == gen.UnitPSI {
		firstSec = 1 + int(t.Payload[0])
	}
	legal := func(sizes []int) bool {
		if !early {
			return true
		}
		off := 0
		for k := 0; k < len(sizes)-1; k++ {
			off += sizes[k]
			if bounds[off] && off != firstSec {
				return false
			}
		}
		return true
	}
	tryPlan := func(sizes []int, cls string) {
		if !legal(sizes) {
			return
		}
		t.PlanChunks(sizes)
		if t.Kind == gen.UnitPSI {
			t.TailPad = r.IntN(2) == 0
		}
		if t.PID == 0 && len(m.PerPID[0]) > 0 && m.PerPID[0][0] == t {
			for _, p := range m.PMTs {
				m.Hold[p] = len(t.Plan)
			}
		}
		s := m.Build(r)
		run := RunDemux(s.Bytes, baseCfg("data"))
		checkStreamDelivery(c, "C02", "cuts", idx, s, m, run, true)
		countSplits(c, s, m)
		c.Count("exhaustive_split_streams")
		c.Case(mon.HashBytes("c02cut", s.Bytes), true)
	}
	rest := func(total int) []int {
		var out []int
		for total > 0 {
			n := 184
			if n > total {
				n = total
			}
			out = append(out, n)
			total -= n
		}
		return out
	}
	// all first-chunk sizes
	for f := 1; f <= 184 && f < L; f++ {
		tryPlan(append([]int{f}, rest(L-f)...), "first")
	}
	// all last-chunk sizes (front filled with full chunks, one adjustable chunk before the last)
	for l := 1; l <= 184 && l < L; l++ {
		front := L - l
		var sizes []int
		fr := rest(front)
		// move the short chunk to the front so that the packets before the last are full
		if len(fr) > 1 {
			fr[0], fr[len(fr)-1] = fr[len(fr)-1], fr[0]
		}
		sizes = append(sizes, fr...)
		sizes = append(sizes, l)
		tryPlan(sizes, "last")
	}
	if c.Thorough() {
		// every (first,last) pair with full packets between
		for f := 1; f <= 184 && f < L; f += 1 {
			for l := 1; l <= 184 && f+l <= L; l += 3 {
				mid := L - f - l
				if mid%184 != 0 && mid > 0 {
					// one flexible middle chunk
					sizes := []int{f}
					for mid > 184 {
						sizes = append(sizes, 184)
						mid -= 184
					}
					sizes = append(sizes, mid, l)
					tryPlan(sizes, "pair")
				} else {
					sizes := []int{f}
					sizes = append(sizes, rest(mid)...)
					sizes = append(sizes, l)
					tryPlan(sizes, "pair")
				}
			}
		}
	}
}
