package props

import (
	"context"
	"errors"
	"fmt"
	"math/rand/v2"

	astits "github.com/asticode/go-astits"

	"verifharness/gen"
	"verifharness/mon"
	"verifharness/refts"
)

func init() {
	register(&Prop{
		ID:    "C20",
		Level: "exploration",
		Rule: "well-formed generated streams (PAT before PMTs, multi-section and multi-packet units) x every number k of NextPacket/NextData/alternating calls before Rewind (0..total, all k for small streams, " +
			"strided for larger) x {explicit, auto} x single and repeated rewinds x full and chunked seekable reads; the results after the rewind are compared with a fresh demuxer; " +
			"plus 1..65 537 rewinds in a row over a held partial unit (stage many-rewinds); a fifth of the rewinds under a context cancelled just before, compared with a Demuxer created with that context; a quarter of the streams with a packet that lost its sync byte, errors compared word for word; half of the streams with an observing PacketsParser whose groups are compared too, a third through a reader that reports io.EOF with its last bytes; a damaged table pending and a second set of packets held ready at the rewind (stale-ready); distinct = hash of (stream, api, size mode, k); non-trivial = k>0",
		Assumptions: []string{"the reader is an in-memory seekable tap; streams satisfy the property's precondition (PAT precedes PMTs)"},
		Shards:      32,
		Run:         runC20,
		Guards: func(m *mon.Merged, tier string) []string {
			var out []string
			need(m, &out, "rewinds_checked", 5000)
			need(m, &out, "streams_with_a_damaged_packet", 40)
			need(m, &out, "runs_with_eof_reported_with_the_last_bytes", 300)
			need(m, &out, "rewind_state_mid_unit", 200)
			need(m, &out, "rewind_state_sections_buffered", 50)
			need(m, &out, "rewind_state_at_eof", 50)
			need(m, &out, "rewind_state_before_first_call", 50)
			need(m, &out, "repeated_rewinds", 200)
			need(m, &out, "long_stream_rewinds", 500)
			need(m, &out, "many_rewinds_cases", 40)
			need(m, &out, "rewinds_under_a_cancelled_context", 300)
			need(m, &out, "rewinds_on_streams_with_damaged_tables", 500)
			need(m, &out, "rewinds_with_a_size_detection_would_not_find", 200)
			return out
		},
	})
}

// manyRewindsCase: Rewind called N times in a row (255, 256, 257, 65536 ... among the counts) at a point where a PID holds a partial
// unit whose packet count is a multiple of 16 (so that the first packet read again continues the counter of what was held): whatever
// survives the Nth rewind that did not survive the first shows as residue. Even cases take a generated stream and a random point.
func manyRewindsCase(c *mon.Ctx, idx int64, r *rand.Rand, nrew int) {
	var in []byte
	k := 1
	if idx%2 == 0 {
		s := newLongStream()
		j := 1 + r.IntN(3)
		b := append(pesHeaderPTS(0xe0, 11, 0, false), longData(0x100, 1, (16*j+1)*184-14-r.IntN(100))...)
		s.pes(0x101, 0xc0, 1, longData(0x101, 1, 100), true)
		for q := 0; q < 16*j; q++ {
			s.packet(0x100, q == 0, b[q*184:q*184+184])
		}
		s.pes(0x101, 0xc0, 2, longData(0x101, 2, 100), true)
		s.packet(0x100, false, b[16*j*184:])
		s.pes(0x100, 0xe0, 12, longData(0x100, 2, 300), false)
		s.pes(0x101, 0xc0, 3, longData(0x101, 3, 50), true)
		in = s.b
	} else {
		var gs *gen.Stream
		for {
			m := gen.RandomModel(r, gen.ModelOpts{MaxPES: 3, MaxPMT: 1, MaxSI: 1, MaxUnits: 12, MaxPESLen: 1500})
			gs = m.Build(r)
			if len(gs.Packets) >= 80 && len(gs.Packets) <= 400 {
				break
			}
		}
		in = gs.Bytes
	}
	for _, ps := range []int{188, 0} {
		cfg := DemuxCfg{PacketSize: ps, Reader: "seek", API: "data"}
		fresh := RunDemux(in, cfg)
		if fresh.Panic != "" {
			c.Violate("C20/fresh-run-panic", "many-rewinds", idx, fresh.Panic, nil)
			return
		}
		if idx%2 == 1 {
			k = r.IntN(fresh.Calls + 1)
		}
		data := map[string]any{"rewinds": nrew, "calls_before": k, "config": cfg.String(), "stream": mon.Hex(in, 1500)}
		dmx, _ := NewDemuxerFor(in, cfg)
		var got []Item
		if p, v, st := mon.Guarded(func() {
			for q := 0; q < k; q++ {
				dmx.NextData()
			}
			for q := 0; q < nrew; q++ {
				if n, err := dmx.Rewind(); n != 0 || err != nil {
					panic(fmt.Sprintf("Rewind number %d = (%d, %v), want (0, nil)", q+1, n, err))
				}
			}
			for q := 0; q < fresh.Calls+40; q++ {
				d, err := dmx.NextData()
				if errors.Is(err, astits.ErrNoMorePackets) {
					break
				}
				got = append(got, Item{Data: d, Err: err})
			}
		}); p {
			c.Violate("C20/many-rewinds/panic-or-rewind-result", "many-rewinds", idx, fmt.Sprintf("%v\n%s", v, st), data)
			return
		}
		if d := itemsEqual(got, fresh.Items); d != "" {
			c.Violate("C20/differs-from-fresh:after-many-rewinds:"+sizeCls(ps), "many-rewinds", idx, fmt.Sprintf("after %d rewinds in a row vs fresh demuxer: %s", nrew, d), data)
		}
		c.Count("many_rewinds_cases")
		c.Add("rewinds_in_a_row", int64(nrew))
		c.Max("most_rewinds_in_a_row", int64(nrew))
		c.Case(mon.HashStr("manyrew", fmt.Sprint(idx, ps, nrew)), true)
	}
}

func runC20(c *mon.Ctx) {
	runC20Long(c)
	{
		counts := []int{1, 2, 15, 16, 17, 255, 256, 257, 512, 1024, 65535, 65536, 65537}
		for i := int64(0); i < c.Pick(int64(2*len(counts)), int64(12*len(counts))); i++ {
			if c.Mine("many-rewinds", i) {
				r := c.Rng("many-rewinds", i)
				n := counts[int(i/2)%len(counts)]
				if int(i/2) >= len(counts) && i%3 == 0 {
					n = 1 + r.IntN(70000)
				}
				manyRewindsCase(c, i, r, n)
			}
		}
	}
	// a table unit whose section_length was damaged upwards stays pending until the packet that starts the next one, which - a
	// table of one packet - flushes it (an error) and is complete itself: the Demuxer holds a second set of packets ready when the
	// call returns. Rewinds at every point, with an observing PacketsParser: nothing of it is handed out after the rewind
	for i := int64(0); i < c.Pick(60, 1200); i++ {
		if c.Mine("stale-ready", i) {
			staleReadyCase(c, i, c.Rng("stale-ready", i))
		}
	}
	n := c.Pick(300, 30000)
	for i := int64(0); i < n; i++ {
		if !c.Mine("streams", i) {
			continue
		}
		r := c.Rng("streams", i)
		var s *gen.Stream
		var m *gen.Model
		for {
			m = gen.RandomModel(r, gen.ModelOpts{MaxPES: 2, MaxPMT: 2, MaxSI: 2, MaxUnits: 3, RichAF: true, Scrambled: i%4 == 1, SharedPMTPID: i%4 == 2})
			s = m.Build(r)
			if len(s.Packets) >= 3 && len(s.Packets) <= 60 {
				break
			}
		}
		if i%4 == 0 && len(s.Packets) >= 6 {
			// a packet in the middle of the stream has lost its sync byte: the error the calls return for it - all of it, the words
			// included - is part of what a Demuxer delivers, and is the same after a rewind as on a new Demuxer
			dm := append([]byte{}, s.Bytes...)
			dm[188*(len(s.Packets)/2)] = 0x00
			s = &gen.Stream{Units: s.Units, Packets: s.Packets, Owner: s.Owner, Bytes: dm}
			c.Count("streams_with_a_damaged_packet")
		}
		if i%3 == 2 {
			// a capture cut in the middle of a packet: the truncated tail is end of stream and must leave no residue either
			s = &gen.Stream{Units: s.Units, Packets: s.Packets, Owner: s.Owner, Bytes: append(append([]byte{}, s.Bytes...), s.Bytes[:1+r.IntN(187)]...)}
			c.Count("streams_with_truncated_final_packet")
		}
		// options must survive a rewind as well: half of the streams run with a (stateless) packet skipper
		var skipper astits.PacketSkipper
		if i%2 == 1 && len(m.PIDs) > 1 {
			sk := m.PIDs[int(i/2)%len(m.PIDs)]
			if sk == 0 {
				sk = m.PIDs[len(m.PIDs)-1]
			}
			skipper = func(p *astits.Packet) bool { return p.Header.PID == sk }
			c.Count("streams_with_skipper")
		}
		for _, api := range []string{"data", "packet", "alt"} {
			for _, ps := range []int{188, 0} {
				// a third of the streams through a reader that reports io.EOF together with its last bytes (io.Reader allows it): what
				// the last Read said besides its bytes is residue too
				cfg := DemuxCfg{PacketSize: ps, Reader: "seek", API: api, Skipper: skipper, EOFWithData: i%3 == 1}
				if cfg.EOFWithData {
					c.Count("runs_with_eof_reported_with_the_last_bytes")
				}
				// half of the streams with an observing PacketsParser: the groups it is handed after a rewind are those it is handed
				// on a new Demuxer
				if i%2 == 0 && api != "packet" {
					cfg.Groups = &GroupRec{}
					c.Count("runs_with_an_observing_parser")
				}
				fresh := runWithGroups(s.Bytes, cfg)
				if fresh.Panic != "" {
					c.Violate("C20/fresh-run-panic", "streams", i, fresh.Panic, nil)
					continue
				}
				total := fresh.Calls
				stride := 1
				if total > 40 && !c.Thorough() {
					stride = 1 + total/25
				}
				for k := int(i) % stride; k <= total; k += stride {
					k2 := -1
					if r.IntN(4) == 0 {
						k2 = r.IntN(total + 1)
					}
					if r.IntN(3) == 0 {
						cfg.Chunk = func(int) int { return 100 }
					} else {
						cfg.Chunk = nil
					}
					rewindCase(c, "streams", i, s, m, cfg, fresh, k, k2)
				}
			}
		}
		// damaged tables: a unit whose first sections are valid and a later one is not (CRC), or any other parse error: whatever the
		// Demuxer makes of it, it makes the same of it after a Rewind, wherever the Rewind falls
		if i%4 == 3 {
			b := append([]byte{}, s.Bytes...)
			hit := 0
			for tries := 0; tries < 40 && hit < 2; tries++ {
				k := r.IntN(len(s.Packets))
				u := s.Owner[k]
				if u == nil || u.Kind != gen.UnitPSI || len(s.Packets[k].Payload) < 8 {
					continue
				}
				off := k*188 + 188 - 1 - r.IntN(len(s.Packets[k].Payload)-4)
				b[off] ^= byte(1 + r.IntN(255))
				hit++
			}
			if hit > 0 {
				sv := &gen.Stream{Units: s.Units, Packets: s.Packets, Owner: s.Owner, Bytes: b}
				for _, api := range []string{"data", "alt"} {
					cfg := DemuxCfg{PacketSize: 188, Reader: "seek", API: api}
					fresh := RunDemux(b, cfg)
					if fresh.Panic != "" {
						continue
					}
					for kk := 0; kk <= fresh.Calls; kk++ {
						rewindCase(c, "streams", i, sv, m, cfg, fresh, kk, -1)
						c.Count("rewinds_on_streams_with_damaged_tables")
					}
				}
			}
		}
		// one packet that ends two units: on PID 0 a section announces more bytes than its packet holds and stays pending; the next
		// packet starts a new unit and is complete at once, so it flushes the pending one (a parse error) and completes its own, which
		// is handed out by the following call. A Rewind between those two calls must not leave the second unit behind
		if i%4 == 1 {
			b := append([]byte{}, s.Bytes...)
			pat := gen.SimpleSection(r, refts.KindPAT, 1+r.IntN(30), 0)
			pat.Syntax.Data.PAT.Programs = []*astits.PATProgram{{ProgramNumber: 1 + uint16(r.IntN(100)), ProgramMapID: 0x1ff0 + uint16(r.IntN(8))}}
			whole := gen.NewPSIUnit(r, 0, 1, []*astits.PSISection{pat}, 0, false).Payload
			trunc := append([]byte{0, 0x00, 0xb1, 0x2c}, gen.Bytes(r, 180)...) // pointer_field 0, table_id 0, section_length 300
			cc := uint8(r.IntN(16))
			for q, pay := range [][]byte{trunc, whole, whole, trunc, whole} {
				e, _ := refts.EncodePacket(gen.BuildPacket(0, cc+uint8(q), true, pay, nil, true), nil)
				b = append(b, e...)
			}
			sv := &gen.Stream{Units: s.Units, Packets: s.Packets, Owner: s.Owner, Bytes: b}
			for _, api := range []string{"data", "alt"} {
				cfg := DemuxCfg{PacketSize: 188, Reader: "seek", API: api}
				fresh := RunDemux(b, cfg)
				if fresh.Panic != "" {
					continue
				}
				for kk := 0; kk <= fresh.Calls; kk++ {
					rewindCase(c, "streams", i, sv, m, cfg, fresh, kk, -1)
					c.Count("rewinds_on_streams_where_one_packet_ends_two_units")
				}
			}
		}
		// the detected packet size belongs to the stream, not to the place where Rewind was called: 188+k framing (k = 1..4) whose
		// first packet lets detection see the right size while every later packet ends in a 0x47, which would make a detection
		// started there find another size
		if i%4 == 2 {
			k := 1 + int(i/4)%4
			big := refts.Reframe(s.Bytes, k, func(p, j int) byte { return 0x11 })
			ps := 188 + k
			for j := 0; j*ps+ps <= len(big); j++ {
				if j == 0 {
					for q := ps - k; q < ps; q++ {
						if big[q] == 0x47 {
							big[q] = 0x48
						}
					}
				} else {
					big[j*ps+ps-1] = 0x47
				}
			}
			sv := &gen.Stream{Units: s.Units, Packets: s.Packets, Owner: s.Owner, Bytes: big}
			for _, api := range []string{"data", "packet"} {
				cfg := DemuxCfg{PacketSize: 0, Reader: "seek", API: api}
				fresh := RunDemux(big, cfg)
				if fresh.Panic != "" {
					continue
				}
				for kk := 0; kk <= fresh.Calls; kk++ {
					rewindCase(c, "streams", i, sv, m, cfg, fresh, kk, -1)
					c.Count("rewinds_with_detected_size_on_larger_framing")
				}
			}
		}
		// the configuration must survive a rewind too: an explicit packet size on inputs where auto-detection would decide otherwise
		// (188+k framing whose extra bytes hold sync bytes; a single packet, which is too short to detect anything)
		if i%3 == 0 {
			k := []int{4, 16, 2}[int(i/3)%3]
			big := refts.Reframe(s.Bytes, k, func(p, j int) byte {
				if (p+j)%3 == 0 {
					return 0x47
				}
				return byte(p*7 + j)
			})
			variants := []struct {
				in []byte
				ps int
			}{{big, 188 + k}, {s.Bytes[:188], 188}, {s.Bytes[:188], 0}, {refts.Reframe(s.Bytes, 16, func(p, j int) byte { return byte(p + j) }), 0}}
			// (the last two: auto-detection on inputs it cannot make sense of - every call fails, before and after the Rewind alike)
			for _, v := range variants {
				sv := &gen.Stream{Units: s.Units, Packets: s.Packets, Owner: s.Owner, Bytes: v.in}
				for _, api := range []string{"data", "packet"} {
					cfg := DemuxCfg{PacketSize: v.ps, Reader: "seek", API: api}
					fresh := RunDemux(v.in, cfg)
					if fresh.Panic != "" {
						continue
					}
					for kk := 0; kk <= fresh.Calls; kk += 1 + fresh.Calls/6 {
						rewindCase(c, "streams", i, sv, m, cfg, fresh, kk, -1)
						c.Count("rewinds_with_a_size_detection_would_not_find")
					}
				}
			}
		}
		if i < 2 {
			c.Sample("streams", map[string]any{"packets": len(s.Packets), "units": len(s.Units), "rewind_points": "every k in 0..calls"})
		}
	}
}

// longStreams: enough packets per PID (≥ 16, so that continuity counters wrap) for residue that only shows when the counters line up.
func runC20Long(c *mon.Ctx) {
	n := c.Pick(30, 3000)
	for i := int64(0); i < n; i++ {
		if !c.Mine("long", i) {
			continue
		}
		r := c.Rng("long", i)
		var s *gen.Stream
		var m *gen.Model
		for {
			m = gen.RandomModel(r, gen.ModelOpts{MaxPES: 3, MaxPMT: 1, MaxSI: 1, MaxUnits: 12, MaxPESLen: 1500})
			s = m.Build(r)
			if len(s.Packets) >= 80 && len(s.Packets) <= 400 {
				break
			}
		}
		for _, ps := range []int{188, 0} {
			cfg := DemuxCfg{PacketSize: ps, Reader: "seek", API: "data"}
			fresh := RunDemux(s.Bytes, cfg)
			if fresh.Panic != "" {
				continue
			}
			for k := 0; k <= fresh.Calls; k++ {
				if !c.Thorough() && (k+int(i))%2 == 1 {
					continue
				}
				rewindCase(c, "long", i, s, m, cfg, fresh, k, -1)
				c.Count("long_stream_rewinds")
			}
		}
	}
}

func rewindCase(c *mon.Ctx, stage string, idx int64, s *gen.Stream, m *gen.Model, cfg DemuxCfg, fresh *DemuxRun, k, k2 int) {
	var cancelCtx context.CancelFunc
	if k2 < 0 && (int(idx)+k)%5 == 4 {
		cfg.Ctx, cancelCtx = context.WithCancel(context.Background())
		defer cancelCtx()
	}
	var before, after []string
	if cfg.Groups != nil {
		cfg.Groups.Sink = &before
	}
	dmx, tap := NewDemuxerFor(s.Bytes, cfg)
	call := 0
	step := func() (Item, bool) {
		var it Item
		usePacket := cfg.API == "packet" || (cfg.API == "alt" && call%2 == 1)
		p, v, st := mon.Guarded(func() {
			if usePacket {
				it.Packet, it.Err = dmx.NextPacket()
			} else {
				it.Data, it.Err = dmx.NextData()
			}
		})
		call++
		if p {
			c.Violate("C20/panic", stage, idx, fmt.Sprintf("%v\n%s", v, st), nil)
			return it, false
		}
		return it, true
	}
	data := map[string]any{"config": cfg.String(), "k": k, "k2": k2, "stream": mon.Hex(s.Bytes, 1500)}
	state := "mid-stream"
	var lastData *astits.DemuxerData
	for j := 0; j < k; j++ {
		it, ok := step()
		if !ok {
			return
		}
		lastData = it.Data
		if errors.Is(it.Err, astits.ErrNoMorePackets) {
			state = "at-eof"
		}
	}
	if k == 0 {
		state = "before-first-call"
	}
	// classify the state at rewind time from the model: reader position inside a unit / sections still buffered
	if state == "mid-stream" {
		pk := tap.Pos / 188
		if pk > 0 && pk <= len(s.Packets) {
			u := s.Owner[pk-1]
			if u != nil && u.LastPkt > pk-1 {
				state = "mid-unit"
			}
		}
		if lastData != nil && lastData.PES == nil && cfg.API == "data" {
			// a multi-section unit leaves later sections in the data buffer
			for _, u := range s.Units {
				if u.PID == lastData.PID && len(u.Sections) > 1 {
					state = "sections-buffered"
				}
			}
		}
	}
	c.Count("rewind_state_" + map[string]string{"mid-unit": "mid_unit", "sections-buffered": "sections_buffered", "at-eof": "at_eof", "before-first-call": "before_first_call", "mid-stream": "between_units"}[state])
	doRewind := func() bool {
		var n int64
		var err error
		if p, v, st := mon.Guarded(func() { n, err = dmx.Rewind() }); p {
			c.Violate("C20/rewind-panic", stage, idx, fmt.Sprintf("%v\n%s", v, st), data)
			return false
		}
		if n != 0 || err != nil {
			c.Violate("C20/rewind-result:"+state, stage, idx, fmt.Sprintf("Rewind() = (%d, %v), want (0, nil)", n, err), data)
			return false
		}
		if len(tap.Seeks) == 0 || tap.Seeks[len(tap.Seeks)-1] != 0 {
			c.Violate("C20/no-seek-to-zero:"+state, stage, idx, fmt.Sprintf("seeks observed: %v", tap.Seeks), data)
		}
		return true
	}
	if k2 < 0 && cfg.Ctx != nil && cancelCtx != nil {
		// the Demuxer's context is cancelled before the Rewind: Rewind still reports 0 and no error and leaves the reader at 0,
		// and what the calls return from then on is what they return on a Demuxer created with that (cancelled) context
		cancelCtx()
		if !doRewind() {
			return
		}
		fresh2, _ := NewDemuxerFor(s.Bytes, cfg)
		for j := 0; j < 6; j++ {
			it, ok := step()
			if !ok {
				return
			}
			var ft Item
			if cfg.API == "packet" || (cfg.API == "alt" && (call-1)%2 == 1) {
				ft.Packet, ft.Err = fresh2.NextPacket()
			} else {
				ft.Data, ft.Err = fresh2.NextData()
			}
			if d := itemsEqual([]Item{it}, []Item{ft}); d != "" {
				c.Violate("C20/differs-from-fresh:context-cancelled:"+state, stage, idx, fmt.Sprintf("call %d after a Rewind under a cancelled context vs a Demuxer created with that context: %s (errors: %v vs %v)", j, d, it.Err, ft.Err), data)
				return
			}
		}
		c.Count("rewinds_under_a_cancelled_context")
		c.Case(mon.HashStr(fmt.Sprint(idx, cfg.API, cfg.PacketSize, k, "cancelled")), k > 0)
		return
	}
	if !doRewind() {
		return
	}
	if k2 >= 0 {
		call = 0
		for j := 0; j < k2; j++ {
			if _, ok := step(); !ok {
				return
			}
		}
		if !doRewind() {
			return
		}
		c.Count("repeated_rewinds")
	}
	// drain and compare with the fresh run
	call = 0
	if cfg.Groups != nil {
		cfg.Groups.Sink = &after
	}
	var got []Item
	for j := 0; j < fresh.Calls+40; j++ {
		it, ok := step()
		if !ok {
			return
		}
		if it.Err == astits.ErrNoMorePackets {
			if cfg.API == "alt" && it.Data == nil && (call-1)%2 == 1 {
				continue // NextPacket runs dry before NextData has flushed (same convention as RunDemux)
			}
			break
		}
		got = append(got, it)
	}
	if d := itemsEqual(got, fresh.Items); d != "" {
		c.Violate("C20/differs-from-fresh:"+state+":"+cfg.API+":"+sizeCls(cfg.PacketSize), stage, idx, "after rewind vs fresh demuxer: "+d, data)
	}
	if cfg.Groups != nil {
		if fmt.Sprint(after) != fmt.Sprint(fresh.Groups) {
			c.Violate("C20/parser-groups-differ-from-fresh:"+state+":"+cfg.API, stage, idx, fmt.Sprintf("groups handed to a PacketsParser after the rewind: %q; on a new Demuxer: %q", after, fresh.Groups), data)
		}
		c.Count("rewinds_compared_through_a_packets_parser")
	}
	c.Count("rewinds_checked")
	c.Case(mon.HashStr(fmt.Sprint(idx, cfg.API, cfg.PacketSize, k, k2, cfg.Chunk != nil)), k > 0)
}

// runWithGroups is RunDemux that also keeps the groups an observing PacketsParser was handed (cfg.Groups set).
func runWithGroups(input []byte, cfg DemuxCfg) *DemuxRun {
	var gs []string
	if cfg.Groups != nil {
		cfg.Groups.Sink = &gs
	}
	run := RunDemux(input, cfg)
	run.Groups = gs
	if cfg.Groups != nil {
		cfg.Groups.Sink = nil
	}
	return run
}

func staleReadyCase(c *mon.Ctx, idx int64, r *rand.Rand) {
	pid := uint16(0x1000)
	if idx%3 == 0 {
		pid = 0 // the tables are PATs
	}
	kind := refts.KindPMT
	if pid == 0 {
		kind = refts.KindPAT
	}
	mk := func(serial int) []byte {
		sec := gen.SimpleSection(r, kind, serial, r.IntN(40))
		if pid == 0 {
			sec.Syntax.Data.PAT.Programs = []*astits.PATProgram{{ProgramNumber: 1, ProgramMapID: 0x1000}}
		}
		return gen.NewPSIUnit(r, pid, serial, []*astits.PSISection{sec}, 0, false).Payload
	}
	var units [][]byte
	var pids []uint16
	add := func(p uint16, b []byte) { pids, units = append(pids, p), append(units, b) }
	if pid != 0 {
		add(0, gen.PATFor(r, pid).Payload)
	}
	add(pid, mk(1))
	dam := mk(2)
	dam[2] |= 0x01 + byte(r.IntN(3)) // section_length enlarged beyond the end of the packet: the unit never looks complete
	add(pid, dam)
	add(pid, mk(3))
	for k := 0; k < 1+r.IntN(3); k++ {
		add(pid, mk(4+k))
	}
	var stream []byte
	cc := map[uint16]uint8{}
	for k, u := range units {
		if len(u) > 184 {
			return
		}
		b, _ := refts.EncodePacket(gen.BuildPacket(pids[k], cc[pids[k]], true, u, nil, true), nil)
		cc[pids[k]]++
		stream = append(stream, b...)
	}
	s := &gen.Stream{Bytes: stream}
	for _, ps := range []int{188, 0} {
		cfg := DemuxCfg{PacketSize: ps, Reader: "seek", API: "data", Groups: &GroupRec{}}
		fresh := runWithGroups(stream, cfg)
		if fresh.Panic != "" {
			c.Violate("C20/fresh-run-panic", "stale-ready", idx, fresh.Panic, nil)
			return
		}
		if len(fresh.Errors()) > 0 {
			c.Count("stale_ready_streams_with_the_error_of_the_damaged_table")
		}
		for k := 0; k <= fresh.Calls; k++ {
			rewindCase(c, "stale-ready", idx, s, nil, cfg, fresh, k, -1)
		}
	}
	c.Count("stale_ready_streams")
}
