package props

import (
	"fmt"
	"math/rand/v2"
	"sort"

	astits "github.com/asticode/go-astits"

	"verifharness/gen"
	"verifharness/mon"
	"verifharness/refts"
)

func init() {
	register(&Prop{
		ID:    "C07",
		Level: "exploration",
		Rule: "per-PID packet sequences from the reference multiplexer (3..8 PIDs, some deliberately damaged: gaps, duplicates, garbage payloads, truncated units) merged in K random and extreme " +
			"order-preserving ways, all merges of micro streams (2 PIDs x 4 packets = 70, 3 PIDs x 3 packets = 1680), null / adaptation-only / transport-error packets inserted at every position, " +
			"and single-PID corruptions; every variant's per-PID delivered sequence is compared with a canonical merge; plus multiplexes of 255..8000 PIDs judged against what each PID's own packets carry (stage many-pids); distinct = hash of the merged byte stream; non-trivial = ≥2 PIDs delivered data",
		Assumptions: []string{"the PAT unit announcing a PMT PID is complete before that PID's first packet in every merge (the dependence the property allows)",
			"errors returned by NextData are not units and are ignored when comparing per-PID sequences", "corruptions never touch the sync byte or the PID field"},
		Shards: 32,
		Run:    runC07,
		Guards: func(m *mon.Merged, tier string) []string {
			var out []string
			need(m, &out, "merges_compared", 3000)
			need(m, &out, "micro_merges_2x4", 70)
			need(m, &out, "micro_merges_3x3", 1680)
			need(m, &out, "insertions_compared", 3000)
			need(m, &out, "corruptions_compared", 500)
			need(m, &out, "models_with_damaged_pid", 20)
			need(m, &out, "long_gap_merges", 8)
			need(m, &out, "many_pid_multiplexes", 8)
			needSet(m, &out, "interleaving_signatures", 2000)
			return out
		},
	})
}

func encodeAll(pk []*astits.Packet) []byte {
	var b []byte
	for _, p := range pk {
		e, err := refts.EncodePacket(p, nil)
		if err != nil {
			panic(err)
		}
		b = append(b, e...)
	}
	return b
}

// perPIDOut runs NextData over the packets and groups the delivered data per PID.
func perPIDOut(stream []byte) (map[uint16][]*astits.DemuxerData, *DemuxRun) {
	run := RunDemux(stream, baseCfg("data"))
	return perPID(run.Datas()), run
}

func comparePerPID(got, want map[uint16][]*astits.DemuxerData, skip map[uint16]bool) string {
	pids := map[uint16]bool{}
	for p := range got {
		pids[p] = true
	}
	for p := range want {
		pids[p] = true
	}
	var ps []int
	for p := range pids {
		ps = append(ps, int(p))
	}
	sort.Ints(ps)
	for _, pi := range ps {
		p := uint16(pi)
		if skip[p] {
			continue
		}
		if len(got[p]) != len(want[p]) {
			return fmt.Sprintf("pid %#x: %d data vs %d in the canonical merge", p, len(got[p]), len(want[p]))
		}
		for k := range got[p] {
			if d := mon.Diff(got[p][k], want[p][k], nil); d != "" {
				return fmt.Sprintf("pid %#x datum %d: %s", p, k, d)
			}
		}
	}
	return ""
}

// mergeOrders produces order-preserving merges of the per-PID sequences under the hold constraint.
func mergeByOrder(seq map[uint16][]*astits.Packet, order []uint16) []*astits.Packet {
	pos := map[uint16]int{}
	var out []*astits.Packet
	for _, p := range order {
		out = append(out, seq[p][pos[p]])
		pos[p]++
	}
	return out
}

func signature(order []uint16) string {
	return fmt.Sprintf("%016x", mon.HashStr(fmt.Sprint(order)))
}

func damage(r *rand.Rand, pk []*astits.Packet) []*astits.Packet {
	var out []*astits.Packet
	for _, p := range pk {
		switch r.IntN(10) {
		case 0: // loss
			continue
		case 1: // duplicate
			out = append(out, p, mon.Clone(p))
			continue
		case 2: // garbage payload
			q := mon.Clone(p)
			for i := range q.Payload {
				q.Payload[i] = byte(r.UintN(256))
			}
			out = append(out, q)
			continue
		case 3: // truncated unit: drop the payload_unit_start flag
			q := mon.Clone(p)
			q.Header.PayloadUnitStartIndicator = !q.Header.PayloadUnitStartIndicator
			out = append(out, q)
			continue
		}
		out = append(out, p)
	}
	return out
}

// beforePATCase: a capture joined just before the PAT: program map PIDs have already sent a whole table each. What such a PID
// delivers may depend on where the PAT falls among ITS packets (the property's exception) — but not on whether another PID's
// packets come before or after the PAT. Orders that keep every PID's own packets and the PAT in the same relative order must
// give every PID the same sequence.
func beforePATCase(c *mon.Ctx, idx int64, r *rand.Rand) {
	a, b := uint16(0x100+r.IntN(0x400)), uint16(0x600+r.IntN(0x400))
	mk := func(pid uint16, serial int) *astits.Packet {
		sec := gen.SimpleSection(r, refts.KindPMT, serial, r.IntN(30))
		return gen.BuildPacket(pid, uint8(serial), true, gen.NewPSIUnit(r, pid, serial, []*astits.PSISection{sec}, 0, false).Payload, nil, true)
	}
	pat := gen.SimpleSection(r, refts.KindPAT, 1, 0)
	pat.Syntax.Data.PAT.Programs = []*astits.PATProgram{{ProgramNumber: 1, ProgramMapID: a}, {ProgramNumber: 2, ProgramMapID: b}}
	if r.IntN(2) == 0 {
		pat.Syntax.Data.PAT.Programs[0], pat.Syntax.Data.PAT.Programs[1] = pat.Syntax.Data.PAT.Programs[1], pat.Syntax.Data.PAT.Programs[0]
	}
	pp := gen.BuildPacket(0, 0, true, gen.NewPSIUnit(r, 0, 1, []*astits.PSISection{pat}, 0, false).Payload, nil, true)
	a1, a2, a3, b1, b2, b3 := mk(a, 1), mk(a, 2), mk(a, 3), mk(b, 1), mk(b, 2), mk(b, 3)
	// A's packets and the PAT keep their order (a1, PAT, a2, a3); B's packets move across the PAT
	orders := map[string][]*astits.Packet{
		"b-after-pat":       {a1, pp, b1, a2, b2, a3, b3},
		"b-before-pat":      {a1, b1, pp, a2, b2, a3, b3},
		"b-first":           {b1, a1, pp, b2, a2, b3, a3},
		"b-wholly-after-a":  {a1, pp, a2, a3, b1, b2, b3},
		"b-two-before-pat":  {b1, a1, b2, pp, a2, a3, b3},
		"b-wholly-before-a": {b1, b2, b3, a1, pp, a2, a3},
	}
	var ref []*astits.DemuxerData
	refName := ""
	for _, name := range []string{"b-after-pat", "b-before-pat", "b-first", "b-wholly-after-a", "b-two-before-pat", "b-wholly-before-a"} {
		stream := encodeAll(orders[name])
		got, run := perPIDOut(stream)
		c.Count("orders_with_tables_sent_before_the_pat")
		if run.Panic != "" {
			c.Violate("C07/panic", "before-pat", idx, run.Panic, map[string]any{"stream": mon.Hex(stream, 1500)})
			return
		}
		if refName == "" {
			ref, refName = got[a], name
			continue
		}
		if d := comparePerPID(map[uint16][]*astits.DemuxerData{a: got[a]}, map[uint16][]*astits.DemuxerData{a: ref}, nil); d != "" {
			c.Violate("C07/merge-changes-output:tables-before-the-pat", "before-pat", idx, fmt.Sprintf("pid %#x with order %s vs %s: %s", a, name, refName, d), map[string]any{"stream": mon.Hex(stream, 1500)})
			return
		}
	}
}

// hoardCase: hours of stream pass and some PID never starts a unit — null packets whose counter runs and whose payload varies (the
// standard leaves both open), or a private PID nobody announced: tens of thousands of its packets sit in the pool. Whatever the
// library does about them, the other PIDs deliver what they deliver without them, wherever their packets fall among the hoard.
func hoardCase(c *mon.Ctx, idx int64, r *rand.Rand) {
	pid := uint16(0x100 + r.IntN(0x1000))
	hoardPID := []uint16{0x1fff, 0x1ffe, 0x30}[idx%3]
	var video []*astits.Packet
	for u := 0; u < 2+r.IntN(3); u++ {
		un := gen.NewPESUnit(r, pid, u+1, gen.PESOpts{DataLen: 20 + r.IntN(900), Unbounded: u%2 == 0, WithPTS: true})
		un.PlanChunks(gen.RandomChunks(r, len(un.Payload), 0, 0, false))
		off := 0
		for k, pl := range un.Plan {
			video = append(video, gen.BuildPacket(pid, uint8(len(video)), k == 0, un.Payload[off:off+pl.N], nil, false))
			off += pl.N
		}
	}
	vb := encodeAll(video)
	base, brun := perPIDOut(vb)
	if brun.Panic != "" || len(base[pid]) == 0 {
		return
	}
	n := []int{32768, 32766, 33000, 40000, 65536, 70000}[int(idx/3)%6]
	hoard := func(k int) []byte {
		b := make([]byte, 188)
		b[0], b[1], b[2], b[3] = 0x47, byte(hoardPID>>8), byte(hoardPID), 0x10|byte(k&15)
		for j := 4; j < 188; j++ {
			b[j] = byte(k>>uint(j%3*8)) ^ byte(j)
		}
		return b
	}
	// where the hoard falls: all of it before, all but one packet before the first video packet and one right after it, or spread
	split := []int{n, n - 2, n / 2}[r.IntN(3)]
	var stream []byte
	k := 0
	for ; k < split; k++ {
		stream = append(stream, hoard(k)...)
	}
	stream = append(stream, vb[:188]...)
	for ; k < n; k++ {
		stream = append(stream, hoard(k)...)
		if k == split {
			stream = append(stream, vb[188:376]...)
		}
	}
	if split < n {
		stream = append(stream, vb[376:]...)
	} else {
		stream = append(stream, vb[188:]...)
	}
	for q := 0; q < 17; q++ {
		stream = append(stream, hoard(n+q)...)
	}
	got, run := perPIDOut(stream)
	c.Count("streams_with_tens_of_thousands_of_packets_held_on_one_pid")
	if run.Panic != "" {
		c.Violate("C07/panic", "hoard", idx, run.Panic, nil)
		return
	}
	if d := comparePerPID(map[uint16][]*astits.DemuxerData{pid: got[pid]}, map[uint16][]*astits.DemuxerData{pid: base[pid]}, nil); d != "" {
		c.Violate("C07/inserted-packet-changes-output:hoard", "hoard", idx, fmt.Sprintf("%d packets of pid %#x without a unit start around the packets of pid %#x: %s", n, hoardPID, pid, d), map[string]any{"video": mon.Hex(vb, 800)})
	}
}

func runC07(c *mon.Ctx) {
	nh := c.Pick(6, 72)
	for i := int64(0); i < nh; i++ {
		if c.Mine("hoard", i) {
			hoardCase(c, i, c.Rng("hoard", i))
		}
	}
	nb := c.Pick(300, 20000)
	for i := int64(0); i < nb; i++ {
		if c.Mine("before-pat", i) {
			beforePATCase(c, i, c.Rng("before-pat", i))
		}
	}
	n := c.Pick(1600, 15000)
	for i := int64(0); i < n; i++ {
		if !c.Mine("models", i) {
			continue
		}
		r := c.Rng("models", i)
		m := gen.RandomModel(r, gen.ModelOpts{MaxPES: 3, MaxPMT: 2, MaxSI: 3, MaxUnits: 3, Salt: true, RichAF: true, Scrambled: i%3 == 1, SharedPMTPID: i%2 == 1})
		for len(m.PIDs) < 3 {
			m = gen.RandomModel(r, gen.ModelOpts{MaxPES: 3, MaxPMT: 2, MaxSI: 3, MaxUnits: 3, Salt: true, RichAF: true, Scrambled: i%3 == 1, SharedPMTPID: i%2 == 1})
		}
		canon := m.BuildOrder(m.CanonicalOrder())
		seq := map[uint16][]*astits.Packet{}
		for _, p := range canon.Packets {
			seq[p.Header.PID] = append(seq[p.Header.PID], p)
		}
		damaged := false
		if i%2 == 1 {
			for _, p := range m.PIDs {
				if p != 0 && r.IntN(3) == 0 {
					seq[p] = damage(r, seq[p])
					damaged = true
				}
			}
			if damaged {
				c.Count("models_with_damaged_pid")
			}
		}
		// a capture that starts in mid-stream: the first packet of some PIDs is the tail of a unit whose beginning is not in the
		// capture; such a packet may well come before the first PAT
		orphan := map[uint16]bool{}
		if i%4 >= 2 {
			for _, p := range m.PIDs {
				if p != 0 && len(seq[p]) > 0 && r.IntN(2) == 0 {
					first := seq[p][0]
					tail := &astits.Packet{Header: astits.PacketHeader{PID: p, HasPayload: true, ContinuityCounter: (first.Header.ContinuityCounter + 15) & 15}, Payload: gen.Bytes(r, 184)}
					if r.IntN(2) == 0 {
						for k := 20; k < 184; k++ {
							tail.Payload[k] = 0xff // the end of a section followed by stuffing
						}
					}
					seq[p] = append([]*astits.Packet{tail}, seq[p]...)
					orphan[p] = true
				}
			}
			if len(orphan) > 0 {
				c.Count("models_joined_in_mid_stream")
			}
		}
		counts := map[uint16]int{}
		var pids []uint16
		for _, p := range m.PIDs {
			if len(seq[p]) > 0 {
				counts[p] = len(seq[p])
				pids = append(pids, p)
			}
		}
		// canonical order over the (possibly damaged) sequences
		var canonOrder []uint16
		for _, p := range pids {
			for k := 0; k < counts[p]; k++ {
				canonOrder = append(canonOrder, p)
			}
		}
		base, brun := perPIDOut(encodeAll(mergeByOrder(seq, canonOrder)))
		if brun.Panic != "" {
			c.Violate("C07/panic", "models", i, brun.Panic, nil)
			continue
		}
		nt := 0
		for _, v := range base {
			if len(v) > 0 {
				nt++
			}
		}
		tryOrder := func(kind string, order []uint16) {
			// the orphaned first packet of a PID is not bound to come after the PAT: move it to a random earlier place
			for _, p := range pids {
				if !orphan[p] {
					continue
				}
				for k, q := range order {
					if q == p {
						if k > 0 && r.IntN(3) > 0 {
							to := r.IntN(k + 1)
							copy(order[to+1:k+1], order[to:k])
							order[to] = p
						}
						break
					}
				}
			}
			b := encodeAll(mergeByOrder(seq, order))
			got, run := perPIDOut(b)
			data := map[string]any{"merge": kind, "stream": mon.Hex(b, 2500), "damaged": damaged}
			c.Seen("interleaving_signatures", signature(order))
			c.Count("merges_compared")
			c.Case(mon.HashBytes("c07", b), nt >= 2)
			if run.Panic != "" {
				c.Violate("C07/panic", "models", i, run.Panic, data)
				return
			}
			if d := comparePerPID(got, base, nil); d != "" {
				cl := "clean"
				if damaged {
					cl = "damaged"
				}
				c.Violate("C07/merge-changes-output:"+kind+":"+cl, "models", i, d, data)
			}
		}
		K := int(c.Pick(24, 90))
		for k := 0; k < K; k++ {
			tryOrder("random", gen.RandomOrder(r, counts, pids, m.Hold))
		}
		// extremes: reverse PID priority (respecting hold), strict round robin, one packet of p between every two of q
		tryOrder("round-robin", roundRobin(counts, pids, m.Hold, false))
		tryOrder("reverse-priority", roundRobin(counts, pids, m.Hold, true))
		tryOrder("last-pid-first", priority(counts, pids, m.Hold, true))
		// (c) insertions into the canonical merge
		basePk := mergeByOrder(seq, canonOrder)
		lastCC := map[uint16]uint8{}
		stride := 1
		if len(basePk) > 40 && !c.Thorough() {
			stride = len(basePk) / 30
		}
		for pos := int(i) % stride; pos <= len(basePk); pos += stride {
			for k := 0; k < pos && k < len(basePk); k++ {
				if basePk[k].Header.HasPayload {
					lastCC[basePk[k].Header.PID] = basePk[k].Header.ContinuityCounter
				}
			}
			pid := pids[r.IntN(len(pids))]
			ins := []*astits.Packet{
				{Header: astits.PacketHeader{PID: 0x1fff, HasPayload: true, ContinuityCounter: uint8(r.UintN(16))}, Payload: filled(184, 0xff)},
				{Header: astits.PacketHeader{PID: pid, HasAdaptationField: true, ContinuityCounter: lastCC[pid]}, AdaptationField: &astits.PacketAdaptationField{StuffingLength: 182}},
				{Header: astits.PacketHeader{PID: pid, HasPayload: true, TransportErrorIndicator: true, PayloadUnitStartIndicator: r.IntN(2) == 0, ContinuityCounter: uint8(r.UintN(16))}, Payload: gen.Bytes(r, 184)},
			}
			for ki, ip := range ins {
				var v []*astits.Packet
				v = append(v, basePk[:pos]...)
				v = append(v, ip)
				v = append(v, basePk[pos:]...)
				b := encodeAll(v)
				got, run := perPIDOut(b)
				kind := []string{"null", "af-only", "tei"}[ki]
				c.Count("insertions_compared")
				c.Count("inserted_" + kind)
				if run.Panic != "" {
					c.Violate("C07/panic", "models", i, run.Panic, nil)
					continue
				}
				if d := comparePerPID(got, base, map[uint16]bool{0x1fff: true}); d != "" {
					c.Violate("C07/inserted-packet-changes-output:"+kind, "models", i, fmt.Sprintf("inserted at position %d: %s", pos, d), map[string]any{"stream": mon.Hex(b, 2500)})
				}
			}
		}
		// (d) corruption confined to one PID
		for k := 0; k < int(c.Pick(6, 20)); k++ {
			p := pids[r.IntN(len(pids))]
			v := make([]*astits.Packet, len(basePk))
			kind := []string{"payload", "cc", "flags", "af-length", "drop"}[r.IntN(5)]
			var raw [][]byte
			for j, pk := range basePk {
				v[j] = pk
				e, _ := refts.EncodePacket(pk, nil)
				if pk.Header.PID == p && r.IntN(3) == 0 {
					switch kind {
					case "payload":
						for x := 0; x < 1+r.IntN(20); x++ {
							e[4+r.IntN(184)] = byte(r.UintN(256))
						}
					case "cc":
						e[3] = e[3]&0xf0 | byte(r.UintN(16))
					case "flags":
						e[1] ^= byte(0xe0 & (1 << uint(5+r.IntN(3))))
						if r.IntN(2) == 0 {
							e[3] ^= byte(0x30 & (0x10 << uint(r.IntN(2))))
						}
					case "af-length":
						e[3] |= 0x20
						e[4] = byte(r.UintN(256))
					case "drop":
						e = nil
					}
				}
				raw = append(raw, e)
			}
			var b []byte
			for _, e := range raw {
				b = append(b, e...)
			}
			got, run := perPIDOut(b)
			c.Count("corruptions_compared")
			c.Count("corrupted_" + kind)
			if run.Panic != "" {
				c.Violate("C07/panic-on-corruption:"+kind, "models", i, run.Panic, map[string]any{"stream": mon.Hex(b, 2500)})
				continue
			}
			skip := map[uint16]bool{p: true}
			if p == 0 {
				for _, q := range m.PMTs {
					skip[q] = true
				}
			}
			if d := comparePerPID(got, base, skip); d != "" {
				c.Violate("C07/corruption-leaks-to-other-pid:"+kind, "models", i, fmt.Sprintf("corrupted pid %#x: %s", p, d), map[string]any{"stream": mon.Hex(b, 2500)})
			}
		}
		// (d') garbage that is well-formed: on a PID other than 0 that carries tables (a PMT PID, a DVB SI PID), packets are replaced by
		// one-packet units holding a correct section with table_id 0 — a "PAT" — that names the model's other PIDs as program map PIDs.
		// A PAT only exists on PID 0: whatever that PID delivers for it, the other PIDs deliver what they delivered
		for _, p := range pids {
			if p == 0 || !(m.Early[p] || (p >= 0x10 && p <= 0x14)) {
				continue
			}
			sec := gen.SimpleSection(r, refts.KindPAT, 1+r.IntN(200), 0)
			sec.Syntax.Data.PAT.Programs = nil
			for k, q := range pids {
				if q != 0 && q != p {
					sec.Syntax.Data.PAT.Programs = append(sec.Syntax.Data.PAT.Programs, &astits.PATProgram{ProgramNumber: uint16(k + 1), ProgramMapID: q})
				}
			}
			if len(sec.Syntax.Data.PAT.Programs) == 0 {
				continue
			}
			forged := gen.NewPSIUnit(r, p, 0, []*astits.PSISection{sec}, 0, false).Payload
			if len(forged) > 184 {
				continue
			}
			var b []byte
			n := 0
			for _, pk := range basePk {
				if pk.Header.PID == p && pk.Header.HasPayload && (n == 0 || r.IntN(2) == 0) {
					pk = gen.BuildPacket(p, pk.Header.ContinuityCounter, true, forged, nil, true)
					n++
				}
				e, _ := refts.EncodePacket(pk, nil)
				b = append(b, e...)
			}
			if n == 0 {
				continue
			}
			got, run := perPIDOut(b)
			c.Count("corruptions_compared")
			c.Count("corrupted_with_a_forged_pat_on_another_pid")
			if run.Panic != "" {
				c.Violate("C07/panic-on-corruption:forged-pat", "models", i, run.Panic, map[string]any{"stream": mon.Hex(b, 2500)})
				continue
			}
			if d := comparePerPID(got, base, map[uint16]bool{p: true}); d != "" {
				c.Violate("C07/corruption-leaks-to-other-pid:forged-pat", "models", i, fmt.Sprintf("forged PAT on pid %#x: %s", p, d), map[string]any{"stream": mon.Hex(b, 2500)})
			}
		}
		if i < 2 {
			c.Sample("models", map[string]any{"pids": pids, "packets": len(basePk), "damaged": damaged, "merges": K + 3})
		}
	}
	// (a') long gaps: a sparse PID whose packets are separated by more than a thousand packets of other PIDs / null packets
	nlong := c.Pick(8, 120)
	for li := int64(0); li < nlong; li++ {
		if !c.Mine("long-gap", li) {
			continue
		}
		r := c.Rng("long-gap", li)
		sparse, busy := uint16(0x101), uint16(0x102)
		var su, bu []*gen.Unit
		for k := 0; k < 3; k++ {
			u := gen.NewPESUnit(r, sparse, k, gen.PESOpts{DataLen: 20 + r.IntN(300), Unbounded: k%2 == 0, Salt: true})
			u.PlanChunks(gen.RandomChunks(r, len(u.Payload), 0, 0, true))
			su = append(su, u)
		}
		gap := 1030 + r.IntN(1200)
		for n := 0; n < 2*gap; {
			u := gen.NewPESUnit(r, busy, 100+n, gen.PESOpts{DataLen: 150 + r.IntN(3000), Unbounded: true, Salt: true})
			u.PlanChunks(gen.RandomChunks(r, len(u.Payload), 0, 0, true))
			bu = append(bu, u)
			n += len(u.Plan)
		}
		per := map[uint16][]*gen.Unit{sparse: su, busy: bu}
		nb := gen.NumPackets(bu)
		// canonical: sparse PID first; variant: its three units separated by long runs of the busy PID (and null packets)
		var canon, spread []uint16
		for _, u := range su {
			canon = append(canon, repeatPID(sparse, len(u.Plan))...)
		}
		canon = append(canon, repeatPID(busy, nb)...)
		left := nb
		for k, u := range su {
			spread = append(spread, repeatPID(sparse, len(u.Plan))...)
			take := gap
			if k == len(su)-1 || take > left {
				take = left
			}
			spread = append(spread, repeatPID(busy, take)...)
			left -= take
		}
		cs := gen.Mux(per, canon, nil)
		base, _ := perPIDOut(cs.Bytes)
		ss := gen.Mux(per, spread, nil)
		pk := ss.Packets
		if li%2 == 1 {
			// null packets inside the gaps as well
			var v []*astits.Packet
			for j, p := range pk {
				v = append(v, p)
				if j%3 == 0 {
					v = append(v, &astits.Packet{Header: astits.PacketHeader{PID: 0x1fff, HasPayload: true}, Payload: filled(184, 0xff)})
				}
			}
			pk = v
		}
		got, run := perPIDOut(encodeAll(pk))
		c.Count("long_gap_merges")
		c.Case(mon.HashStr("longgap", fmt.Sprint(li)), true)
		if run.Panic != "" {
			c.Violate("C07/panic", "long-gap", li, run.Panic, nil)
		} else if d := comparePerPID(got, base, map[uint16]bool{0x1fff: true}); d != "" {
			c.Violate("C07/merge-changes-output:long-gap", "long-gap", li, fmt.Sprintf("%d packets of other PIDs between the units of pid %#x: %s", gap, sparse, d), nil)
		}
	}
	// (a'') many PIDs: hundreds to thousands of PIDs in one multiplex (255, 256, 257 among the counts): what a PID delivers is what its
	// own packets carry, however many other PIDs there are and whenever they first appeared
	pidCounts := []int{255, 256, 257, 300, 1024, 1025, 4097, 8000}
	for mi := int64(0); mi < c.Pick(int64(len(pidCounts)), int64(6*len(pidCounts))); mi++ {
		if !c.Mine("many-pids", mi) {
			continue
		}
		r := c.Rng("many-pids", mi)
		np := pidCounts[int(mi)%len(pidCounts)]
		if int(mi) >= len(pidCounts) {
			np = 200 + r.IntN(7900)
		}
		s := manyPIDsStream(r, np)
		ds, errs, pn := drainData(s.b)
		c.Count("many_pid_multiplexes")
		c.Max("most_pids_in_one_multiplex", int64(np))
		c.Case(mon.HashStr("manypids", fmt.Sprint(mi, np)), true)
		data := map[string]any{"pids": np, "packets": s.n}
		if pn != "" {
			c.Violate("C07/panic", "many-pids", mi, pn, data)
		} else if len(errs) > 0 {
			c.Violate("C07/many-pids/error-on-wellformed-stream", "many-pids", mi, fmt.Sprint(errs[0]), data)
		} else if d := s.compare(ds); d != "" {
			c.Violate("C07/merge-changes-output:many-pids", "many-pids", mi, fmt.Sprintf("%d PIDs in one multiplex: %s", np, d), data)
		}
	}
	// (b) exhaustive merges of micro streams
	for mi := int64(0); mi < c.Pick(4, 24); mi++ {
		if !c.Mine("micro", mi) {
			continue
		}
		r := c.Rng("micro", mi)
		for _, shape := range [][2]int{{2, 4}, {3, 3}} {
			np, k := shape[0], shape[1]
			seq := map[uint16][]*astits.Packet{}
			var pids []uint16
			for a := 0; a < np; a++ {
				pid := uint16(0x100 + a*0x111)
				if a == 0 && mi%2 == 0 {
					pid = 0x11 // an SI PID in the mix
				}
				pids = append(pids, pid)
				seq[pid] = microSeq(r, pid, k, int(mi)*10+a)
			}
			var canonOrder []uint16
			for _, p := range pids {
				for j := 0; j < k; j++ {
					canonOrder = append(canonOrder, p)
				}
			}
			base, _ := perPIDOut(encodeAll(mergeByOrder(seq, canonOrder)))
			cnt := 0
			var rec func(order []uint16, left []int)
			rec = func(order []uint16, left []int) {
				done := true
				for a := range left {
					if left[a] > 0 {
						done = false
						left[a]--
						rec(append(order, pids[a]), left)
						left[a]++
					}
				}
				if done {
					cnt++
					b := encodeAll(mergeByOrder(seq, order))
					got, run := perPIDOut(b)
					c.Seen("interleaving_signatures", signature(order))
					c.Case(mon.HashBytes("c07m", b), true)
					if run.Panic != "" {
						c.Violate("C07/panic", "micro", mi, run.Panic, nil)
					} else if d := comparePerPID(got, base, nil); d != "" {
						c.Violate(fmt.Sprintf("C07/merge-changes-output:micro-%dx%d", np, k), "micro", mi, d, map[string]any{"stream": mon.Hex(b, 2500)})
					}
				}
			}
			left := make([]int, np)
			for a := range left {
				left[a] = k
			}
			rec(nil, left)
			c.Add(fmt.Sprintf("micro_merges_%dx%d", np, k), int64(cnt))
		}
	}
}

func filled(n int, b byte) []byte {
	out := make([]byte, n)
	for i := range out {
		out[i] = b
	}
	return out
}

// microSeq builds exactly k packets on a PID: a mix of single and multi packet units.
func microSeq(r *rand.Rand, pid uint16, k, serial int) []*astits.Packet {
	var units []*gen.Unit
	left := k
	for left > 0 {
		n := 1 + r.IntN(left)
		if n > 2 {
			n = 2
		}
		var u *gen.Unit
		if pid == 0x11 {
			u = gen.NewPSIUnit(r, pid, serial, []*astits.PSISection{gen.SimpleSection(r, refts.KindSDT, serial, (n-1)*170)}, 0, false)
			u.TailPad = true
		} else {
			u = gen.NewPESUnit(r, pid, serial, gen.PESOpts{DataLen: 20 + (n-1)*184, Unbounded: r.IntN(2) == 0, Salt: true})
		}
		sizes := gen.RandomChunks(r, len(u.Payload), 0, 0, true)
		for len(sizes) < n {
			// split the last chunk
			l := sizes[len(sizes)-1]
			if l < 2 {
				break
			}
			sizes[len(sizes)-1] = l / 2
			sizes = append(sizes, l-l/2)
		}
		if len(sizes) != n {
			continue
		}
		u.PlanChunks(sizes)
		units = append(units, u)
		left -= n
		serial += 100
	}
	s := gen.Mux(map[uint16][]*gen.Unit{pid: units}, repeatPID(pid, k), map[uint16]uint8{pid: uint8(r.UintN(16))})
	return s.Packets
}

func roundRobin(counts map[uint16]int, pids []uint16, hold map[uint16]int, reverse bool) []uint16 {
	left := map[uint16]int{}
	total := 0
	for _, p := range pids {
		left[p] = counts[p]
		total += counts[p]
	}
	ps := append([]uint16{}, pids...)
	if reverse {
		for a, b := 0, len(ps)-1; a < b; a, b = a+1, b-1 {
			ps[a], ps[b] = ps[b], ps[a]
		}
	}
	var out []uint16
	e0 := 0
	for len(out) < total {
		progressed := false
		for _, p := range ps {
			if left[p] > 0 && e0 >= hold[p] {
				out = append(out, p)
				left[p]--
				progressed = true
				if p == 0 {
					e0++
				}
			}
		}
		if !progressed {
			// only PID 0 can unblock
			out = append(out, 0)
			left[0]--
			e0++
		}
	}
	return out
}

func priority(counts map[uint16]int, pids []uint16, hold map[uint16]int, lastFirst bool) []uint16 {
	left := map[uint16]int{}
	total := 0
	for _, p := range pids {
		left[p] = counts[p]
		total += counts[p]
	}
	ps := append([]uint16{}, pids...)
	if lastFirst {
		for a, b := 0, len(ps)-1; a < b; a, b = a+1, b-1 {
			ps[a], ps[b] = ps[b], ps[a]
		}
	}
	var out []uint16
	e0 := 0
	for len(out) < total {
		emitted := false
		for _, p := range ps {
			if left[p] > 0 && e0 >= hold[p] {
				out = append(out, p)
				left[p]--
				if p == 0 {
					e0++
				}
				emitted = true
				break
			}
		}
		if !emitted {
			out = append(out, 0)
			left[0]--
			e0++
		}
	}
	return out
}
