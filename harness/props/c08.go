package props

import (
	"context"
	"errors"
	"fmt"
	"math/rand/v2"

	astits "github.com/asticode/go-astits"

	"verifharness/gen"
	"verifharness/mon"
	"verifharness/refts"
)

func init() {
	register(&Prop{
		ID:    "C08",
		Level: "exploration",
		Rule: "well-formed generated streams (≥3 packets) demultiplexed under read schedules (every fixed chunk size 1..400 in thorough / a boundary set in quick, random sizes, one cut at every offset of the " +
			"first 400 bytes, 1-byte reads, last bytes delivered together with io.EOF, reads returning (0, nil)) plus a read-only reader handed to a second Demuxer right after a call that returned a PAT/PMT, x reader kinds {seekable, bufio, plain} x {explicit, auto-detected} x packet sizes 188+k, each compared with the baseline (explicit 188, seekable, full reads); " +
			"plus streams of 0..187 bytes (the beginning of one packet) under every reader kind and both size modes: nothing delivered, ErrNoMorePackets itself from the first call on (stage short); distinct = hash of (stream, configuration); non-trivial = the tap observed at least one short read or a non-baseline reader/size configuration",
		Assumptions: []string{"auto-detection inputs respect the detector's documented assumption (\"bounded by 2 sync bytes\"): first byte is a sync byte and no 0x47 among the bytes 188..188+k-1 of the first packet / its k extra bytes — no detector that looks at a finite window can tell such a byte from the next sync byte",
			"bufio.Reader of any buffer size (16 bytes and up), with explicit and with detected packet size", "plain reader + auto-detection: the peeked packets are consumed by design, so the packet list must be a suffix of the baseline and independent of chunking"},
		Shards: 32,
		Run:    runC08,
		Guards: func(m *mon.Merged, tier string) []string {
			var out []string
			need(m, &out, "configurations_compared", 3000)
			need(m, &out, "auto_detections", 500)
			need(m, &out, "one_byte_read_runs", 30)
			need(m, &out, "larger_packet_runs", 200)
			need(m, &out, "eof_with_data_runs", 500)
			need(m, &out, "zero_read_runs", 500)
			need(m, &out, "shared_reader_runs", 150)
			need(m, &out, "small_bufio_runs", 400)
			need(m, &out, "short_stream_runs", 2500)
			needSet(m, &out, "reader_x_size", 6)
			return out
		},
	})
}

type c08base struct {
	data, packets []Item
}

func itemsEqual(a, b []Item) string {
	if len(a) != len(b) {
		return fmt.Sprintf("%d results vs %d in the baseline", len(a), len(b))
	}
	for i := range a {
		if (a[i].Err != nil) != (b[i].Err != nil) {
			return fmt.Sprintf("result %d: error %v vs %v", i, a[i].Err, b[i].Err)
		}
		// which error comes back is part of the result: the same stream under the other configuration fails in the same words
		if a[i].Err != nil && a[i].Err.Error() != b[i].Err.Error() {
			return fmt.Sprintf("result %d: error %q vs %q", i, a[i].Err.Error(), b[i].Err.Error())
		}
		if d := mon.Diff(a[i].Data, b[i].Data, nil); d != "" {
			return fmt.Sprintf("result %d: %s", i, d)
		}
		if d := mon.Diff(a[i].Packet, b[i].Packet, nil); d != "" {
			return fmt.Sprintf("result %d: %s", i, d)
		}
	}
	return ""
}

func runC08(c *mon.Ctx) {
	n := c.Pick(150, 2000)
	for i := int64(0); i < n; i++ {
		if !c.Mine("streams", i) {
			continue
		}
		r := c.Rng("streams", i)
		var s *gen.Stream
		for {
			m := gen.RandomModel(r, gen.ModelOpts{MaxPES: 2, MaxPMT: 2, MaxSI: 2, MaxUnits: 3, RichAF: true, Scrambled: i%4 == 1, SharedPMTPID: i%4 == 2})
			s = m.Build(r)
			if len(s.Packets) < 3 {
				continue
			}
			ok := true
			for _, b := range s.Bytes[184:188] {
				if b == 0x47 {
					ok = false
				}
			}
			if ok {
				break
			}
		}
		base := map[string][]Item{}
		for _, api := range []string{"data", "packet"} {
			run := RunDemux(s.Bytes, baseCfg(api))
			if run.Panic != "" || len(run.Errors()) > 0 {
				c.Violate("C08/baseline-failed", "streams", i, fmt.Sprintf("%s %v", run.Panic, run.Errors()), nil)
				continue
			}
			base[api] = run.Items
		}
		if len(base) != 2 {
			continue
		}
		try := func(name string, input []byte, cfg DemuxCfg, suffixOK bool, chunkCls string) {
			run := RunDemux(input, cfg)
			cls := fmt.Sprintf("%s/%s/%s", cfg.Reader, sizeCls(cfg.PacketSize), chunkCls)
			data := map[string]any{"config": cfg.String() + " " + name, "stream": mon.Hex(s.Bytes, 1200)}
			c.Count("configurations_compared")
			c.Seen("reader_x_size", cfg.Reader+"/"+sizeCls(cfg.PacketSize))
			if cfg.PacketSize == 0 {
				c.Count("auto_detections")
			}
			if run.Tap.MinGot < 1<<30 {
				c.Max("largest_read_returned", int64(run.Tap.MaxGot))
				if run.Tap.MinGot == 1 {
					c.Count("runs_with_a_1_byte_read")
				}
			}
			nt := chunkCls != "full" || cfg.Reader != "seek" || cfg.PacketSize != 188
			c.Case(mon.HashBytes("c08/"+cfg.String()+name, s.Bytes[:188]), nt)
			if run.Panic != "" {
				c.Violate("C08/panic:"+cls, "streams", i, run.Panic, data)
				return
			}
			b := base[cfg.API]
			got := run.Items
			if suffixOK {
				// packets consumed by the peek are lost by design: compare with the tail of the baseline
				if len(got) > len(b) {
					c.Violate("C08/more-results-than-baseline:"+cls, "streams", i, fmt.Sprintf("%d vs %d", len(got), len(b)), data)
					return
				}
				if cfg.API == "packet" {
					b = b[len(b)-len(got):]
					if len(b) < len(base["packet"])-2 {
						c.Violate("C08/plain-auto-lost-more-than-the-peeked-packets:"+cls, "streams", i, fmt.Sprintf("%d of %d packets returned", len(got), len(base["packet"])), data)
						return
					}
				} else {
					return // data path of plain+auto is judged only through the packet path and chunk independence below
				}
			}
			if d := itemsEqual(got, b); d != "" {
				c.Violate("C08/differs-from-baseline:"+cls, "streams", i, d, data)
			}
		}
		// (a) chunk schedules on the baseline reader kinds
		var fixed []int
		if c.Thorough() {
			for k := 1; k <= 400; k++ {
				fixed = append(fixed, k)
			}
		} else {
			fixed = []int{1, 2, 3, 5, 47, 187, 188, 189, 192, 193, 194, 204, 375, 376, 377, 400, 1 + r.IntN(400), 1 + r.IntN(400)}
		}
		readers := []string{"seek", "bufio", "plain"}
		for _, k := range fixed {
			k := k
			for _, api := range []string{"data", "packet"} {
				rd := readers[r.IntN(3)]
				if c.Thorough() || k < 4 {
					for _, rd2 := range readers {
						try(fmt.Sprintf("fixed=%d", k), s.Bytes, DemuxCfg{PacketSize: 188, Reader: rd2, API: api, Chunk: func(int) int { return k }}, false, "fixed")
					}
				} else {
					try(fmt.Sprintf("fixed=%d", k), s.Bytes, DemuxCfg{PacketSize: 188, Reader: rd, API: api, Chunk: func(int) int { return k }}, false, "fixed")
				}
				if k == 1 {
					c.Count("one_byte_read_runs")
				}
			}
		}
		for rep := 0; rep < int(c.Pick(4, 30)); rep++ {
			sd := r.Uint64()
			mk := func() func(int) int {
				rr := rand.New(rand.NewPCG(sd, 7))
				return func(int) int { return 1 + rr.IntN(400) }
			}
			for _, rd := range readers {
				for _, ps := range []int{188, 0} {
					suffix := rd == "plain" && ps == 0
					try("random-chunks", s.Bytes, DemuxCfg{PacketSize: ps, Reader: rd, API: "packet", Chunk: mk()}, suffix, "random")
					try("random-chunks", s.Bytes, DemuxCfg{PacketSize: ps, Reader: rd, API: "data", Chunk: mk()}, suffix, "random")
				}
			}
		}
		// (b) one cut at every offset of the first 400 bytes (the auto-detection window), explicit and auto
		step := int(c.Pick(7, 1))
		for off := 1 + int(i)%step; off <= 400; off += step {
			off := off
			cut := func(pos int) int {
				if pos < off {
					return off - pos
				}
				return 1 << 20
			}
			for _, rd := range readers {
				for _, ps := range []int{188, 0} {
					api := []string{"data", "packet"}[(off+ps)%2]
					if rd == "plain" && ps == 0 {
						api = "packet"
					}
					try(fmt.Sprintf("cut=%d", off), s.Bytes, DemuxCfg{PacketSize: ps, Reader: rd, API: api, Chunk: cut}, rd == "plain" && ps == 0, "cut")
				}
			}
		}
		// full reads, all reader kinds x explicit/auto
		for _, rd := range readers {
			for _, ps := range []int{188, 0} {
				for _, api := range []string{"data", "packet"} {
					try("full", s.Bytes, DemuxCfg{PacketSize: ps, Reader: rd, API: api}, rd == "plain" && ps == 0, "full")
				}
			}
		}
		// (b') the same bytes through readers that use other corners of the io.Reader contract: the last bytes delivered together
		// with io.EOF, and reads that return (0, nil) now and then
		for _, rd := range readers {
			for _, ps := range []int{188, 0} {
				for _, api := range []string{"data", "packet"} {
					suffix := rd == "plain" && ps == 0
					var ch func(int) int
					cc := "full"
					switch r.IntN(3) {
					case 1:
						k := 1 + r.IntN(400)
						ch = func(int) int { return k }
						cc = "fixed"
					case 2:
						rr := rand.New(rand.NewPCG(r.Uint64(), 11))
						ch = func(int) int { return 1 + rr.IntN(400) }
						cc = "random"
					}
					try("eof-with-data", s.Bytes, DemuxCfg{PacketSize: ps, Reader: rd, API: api, Chunk: ch, EOFWithData: true}, suffix, cc+"+eof-with-data")
					c.Count("eof_with_data_runs")
					try("zero-reads", s.Bytes, DemuxCfg{PacketSize: ps, Reader: rd, API: api, Chunk: ch, ZeroEvery: 2 + r.IntN(5), EOFWithData: r.IntN(2) == 0}, suffix, cc+"+zero-reads")
					c.Count("zero_read_runs")
				}
			}
		}
		// (b'') the bytes are consumed by more than one party: a read-only reader is handed to a second Demuxer right after a NextData
		// call that returned a PAT or PMT. Such a call consumes nothing beyond the table's final packet (C02), so the second Demuxer
		// (explicit size) starts at a packet boundary and must return exactly the remaining packets of the baseline
		for rep := 0; rep < 3; rep++ {
			var ch func(int) int
			cc := "full"
			if rep > 0 {
				rr := rand.New(rand.NewPCG(r.Uint64(), 13))
				big := rep == 2
				ch = func(int) int {
					if big {
						return 189 + rr.IntN(3000)
					}
					return 1 + rr.IntN(400)
				}
				cc = "random"
			}
			tap := mon.NewRTap(s.Bytes)
			tap.Chunk = ch
			rd := mon.Plain{T: tap}
			d1 := astits.NewDemuxer(context.Background(), rd, astits.DemuxerOptPacketSize(188))
			stopAfter := 1 + r.IntN(3) // hand over after the n-th table
			bad := ""
			handed := false
			for j := 0; j < len(s.Packets)+8 && bad == "" && !handed; j++ {
				var d *astits.DemuxerData
				var err error
				if pn, v, _ := mon.Guarded(func() { d, err = d1.NextData() }); pn {
					bad = fmt.Sprint("panic: ", v)
				} else if err != nil {
					break
				} else if d.PAT != nil || d.PMT != nil {
					stopAfter--
					handed = stopAfter == 0
				}
			}
			if !handed || bad != "" {
				continue // fewer tables than asked for (or C02's/C03's business)
			}
			if tap.Pos%188 != 0 {
				continue // read-ahead past the table's final packet: reported by C02
			}
			from := tap.Pos / 188
			d2 := astits.NewDemuxer(context.Background(), rd, astits.DemuxerOptPacketSize(188))
			var got []Item
			for j := 0; j < len(s.Packets)+8; j++ {
				var it Item
				if pn, v, _ := mon.Guarded(func() { it.Packet, it.Err = d2.NextPacket() }); pn {
					bad = fmt.Sprint("panic: ", v)
					break
				}
				if it.Err != nil {
					if !errors.Is(it.Err, astits.ErrNoMorePackets) {
						bad = "error: " + it.Err.Error()
					}
					break
				}
				got = append(got, it)
			}
			c.Count("configurations_compared")
			c.Count("shared_reader_runs")
			c.Case(mon.HashBytes("c08/handover"+cc+fmt.Sprint(from), s.Bytes[:188]), true)
			data := map[string]any{"config": fmt.Sprintf("handover after packet %d, reads %s", from, cc), "stream": mon.Hex(s.Bytes, 1200)}
			if bad != "" {
				c.Violate("C08/shared-reader:handover/"+cc, "streams", i, bad, data)
			} else if from <= len(base["packet"]) {
				if d := itemsEqual(got, base["packet"][from:]); d != "" {
					c.Violate("C08/differs-from-baseline:plain/188/handover/"+cc, "streams", i, d, data)
				}
			}
		}
		// (b3) a bufio.Reader smaller than a packet (explicit size: the Demuxer has no reason to need the packet inside the
		// reader's buffer), and packets larger than the default bufio buffer
		for _, bs := range []int{16, 64, 187, 188} {
			api := []string{"data", "packet"}[r.IntN(2)]
			try(fmt.Sprintf("bufio=%d", bs), s.Bytes, DemuxCfg{PacketSize: 188, Reader: "bufio", BufioSize: bs, API: api}, false, "full+small-bufio")
			c.Count("small_bufio_runs")
		}
		// (b5) a detection that fails first: 193 bytes that begin with a sync byte but show no second one where a packet could end,
		// then the stream. The first call reports the failure; the application calls again and gets every packet, whatever the
		// reader is and however it fragments the bytes (a failed detection consumes its 193 bytes, no more, no less)
		{
			leader := append([]byte{0x47}, gen.Bytes(r, 192)...)
			for k := 188; k < 193; k++ {
				if leader[k] == 0x47 {
					leader[k] = 0x48
				}
			}
			in := append(leader, s.Bytes...)
			api := []string{"data", "packet"}[r.IntN(2)]
			// (the input is not a well-formed stream, so reader kinds are not compared with each other here: a seekable reader
			// rewinds to the very start after the detection that succeeds. What is compared is the same kind of reader, a
			// bufio.Reader, across buffer sizes and read fragmentations)
			want := RunDemux(in, DemuxCfg{Reader: "bufio", BufioSize: 4096, API: api})
			k1 := 1 + r.IntN(400)
			for _, cf := range []DemuxCfg{{Reader: "bufio", BufioSize: 16}, {Reader: "bufio", BufioSize: 64}, {Reader: "bufio", BufioSize: 192}, {Reader: "bufio", BufioSize: 193},
				{Reader: "bufio", BufioSize: 4096}} {
				for _, ch := range []int{0, 1, 7, 188, k1} {
					cf.API = api
					cf.Chunk = nil
					if ch > 0 {
						n := ch
						cf.Chunk = func(int) int { return n }
					}
					run := RunDemux(in, cf)
					c.Count("retries_after_a_failed_detection")
					cls := fmt.Sprintf("%s/auto/after-failed-detection", cf.Reader)
					if run.Panic != "" {
						c.Violate("C08/panic:"+cls, "streams", i, run.Panic, nil)
					} else if d := itemsEqual(run.Items, want.Items); d != "" {
						c.Violate("C08/differs-from-baseline:"+cls, "streams", i, fmt.Sprintf("bufio size %d, reads of %d bytes: %s", cf.BufioSize, ch, d), map[string]any{"stream": mon.Hex(in, 800)})
					}
				}
			}
		}
		// (b4) a stream that ends inside the 193 bytes detection looks at: one whole packet and the first bytes of a truncated one
		// (a truncated final packet is the end of the stream, C03). The sync byte of the second packet is there, detection has what it
		// needs, and every reader kind must return the one packet
		for _, e := range []int{1, 3, 4} {
			short := s.Bytes[:188+e]
			want := RunDemux(short, DemuxCfg{PacketSize: 188, Reader: "seek", API: "packet"})
			for _, rd := range []string{"seek", "bufio"} {
				for _, bs := range []int{0, 64} {
					if rd == "seek" && bs != 0 {
						continue
					}
					run := RunDemux(short, DemuxCfg{Reader: rd, BufioSize: bs, API: "packet"})
					c.Count("short_stream_detections")
					if run.Panic != "" {
						c.Violate("C08/panic:"+rd+"/auto/short-stream", "streams", i, run.Panic, nil)
					} else if d := itemsEqual(run.Items, want.Items); d != "" {
						c.Violate(fmt.Sprintf("C08/differs-from-baseline:%s/auto/short-stream", rd), "streams", i, fmt.Sprintf("188+%d bytes, bufio size %d: %s", e, bs, d), map[string]any{"stream": mon.Hex(short, 200)})
					}
				}
			}
		}
		// ... and with the size detected: a bufio.Reader is a bufio.Reader whatever its buffer holds (one packet is a natural choice),
		// detection must not lose or alter a packet
		for _, bs := range []int{16, 64, 188, 192} {
			api := []string{"data", "packet"}[r.IntN(2)]
			try(fmt.Sprintf("bufio=%d/auto", bs), s.Bytes, DemuxCfg{Reader: "bufio", BufioSize: bs, API: api}, false, "full+small-bufio+auto")
			c.Count("small_bufio_auto_runs")
		}
		// sizes that stand in a relation to 188 (whole multiples: the datagram sizes 376 … 1316), to 184, to powers of two
		rel := []int{188, 2 * 188, 6 * 188, 187, 189, 184, 256 - 188, 512 - 188, 1024 - 188, 65536 - 188}
		for _, k := range []int{4096 - 188, 4097 - 188, 5000 - 188, rel[int(i)%len(rel)], rel[int(i/3+1)%len(rel)]} {
			ex := gen.Bytes(r, k)
			huge := refts.Reframe(s.Bytes, k, func(p, j int) byte { return ex[j] ^ byte(p) })
			for _, rd := range readers {
				api := []string{"data", "packet"}[r.IntN(2)]
				try(fmt.Sprintf("k=%d explicit", k), huge, DemuxCfg{PacketSize: 188 + k, Reader: rd, API: api}, false, "full+huge-packets")
				c.Count("larger_packet_runs")
			}
		}
		// (c) larger packets: explicit 188+k with arbitrary extra bytes; auto for k in 1..4 with extra bytes != 0x47
		ks := []int{1, 2, 3, 4, 16, 1 + r.IntN(64)}
		if c.Thorough() {
			ks = nil
			for k := 1; k <= 64; k++ {
				ks = append(ks, k)
			}
		}
		for _, k := range ks {
			ex := gen.Bytes(r, len(s.Packets)*k)
			big := refts.Reframe(s.Bytes, k, func(p, j int) byte { return ex[p*k+j] })
			for _, rd := range readers {
				api := []string{"data", "packet"}[r.IntN(2)]
				var ch func(int) int
				cc := "full"
				if r.IntN(2) == 0 {
					cc = "random"
					rr := rand.New(rand.NewPCG(r.Uint64(), 9))
					ch = func(int) int { return 1 + rr.IntN(300) }
				}
				try(fmt.Sprintf("k=%d explicit", k), big, DemuxCfg{PacketSize: 188 + k, Reader: rd, API: api, Chunk: ch}, false, cc)
				c.Count("larger_packet_runs")
			}
			if k <= 4 {
				clean := true
				for p := 0; p < len(s.Packets) && clean; p++ {
					// the detector only looks at the first 193 bytes: extra bytes of packet 0 and the tail of packet 0
					if p == 0 {
						for j := 0; j < k; j++ {
							if ex[j] == 0x47 {
								ex[j] = 0x48
							}
						}
					}
				}
				big = refts.Reframe(s.Bytes, k, func(p, j int) byte { return ex[p*k+j] })
				for _, rd := range []string{"seek", "bufio"} {
					for _, api := range []string{"data", "packet"} {
						try(fmt.Sprintf("k=%d auto", k), big, DemuxCfg{PacketSize: 0, Reader: rd, API: api}, false, "full")
						c.Count("larger_packet_runs")
					}
				}
				// a read-only reader loses the packets it peeked at, by design: what follows must be the rest of the baseline. With
				// 188+k framing the second packet must not start with a sync byte inside the peeked window either
				try(fmt.Sprintf("k=%d auto", k), big, DemuxCfg{PacketSize: 0, Reader: "plain", API: "packet"}, true, "full")
				c.Count("larger_packet_runs")
			}
		}
		if i < 2 {
			c.Sample("streams", map[string]any{"packets": len(s.Packets), "head": mon.Hex(s.Bytes, 32), "configurations": "fixed 1..400 | random | cut@offset | reader kinds x explicit/auto | 188+k"})
		}
	}
	// streams that are nothing but the beginning of a packet (0..187 bytes): the end of the stream under every reader kind, with a
	// given packet size and with a detected one alike - no packet, no data, and the error of the first call and of every later one is
	// ErrNoMorePackets itself (what a caller compares with), not something that wraps it
	for n := int64(0); n < 188; n++ {
		if !c.Mine("short", n) {
			continue
		}
		r := c.Rng("short", n)
		in := make([]byte, n)
		for k := range in {
			in[k] = byte(r.UintN(256))
		}
		if n > 0 {
			in[0] = 0x47
		}
		for _, rd := range []string{"seek", "bufio", "bufio16", "plain"} {
			for _, ps := range []int{188, 0} {
				for _, api := range []string{"packet", "data"} {
					cfg := DemuxCfg{PacketSize: ps, Reader: rd, API: api, ExtraAfterEOF: 2}
					if rd == "bufio16" {
						cfg.Reader, cfg.BufioSize = "bufio", 16
					}
					run := RunDemux(in, cfg)
					c.Count("short_stream_runs")
					c.Case(mon.HashStr("c08short", fmt.Sprint(n), rd, fmt.Sprint(ps), api), true)
					cls := fmt.Sprintf("%s/%s/%s", rd, sizeCls(ps), api)
					data := map[string]any{"config": cfg.String(), "stream": mon.Hex(in, 200)}
					switch {
					case run.Panic != "":
						c.Violate("C08/short/panic:"+cls, "short", n, run.Panic, data)
					case run.WrappedEOF != "":
						c.Violate("C08/short/end-of-stream-not-the-sentinel:"+cls, "short", n, run.WrappedEOF, data)
					case len(run.Items) > 0 || run.EOFAt != 0:
						c.Violate("C08/short/differs-from-explicit-size:"+cls, "short", n, fmt.Sprintf("%d items before the end of the stream (first error %v), end at call %d: a stream of %d bytes holds no packet", len(run.Items), run.Errors(), run.EOFAt, n), data)
					case run.PostEOFBad != "":
						c.Violate("C08/short/result-after-end-of-stream:"+cls, "short", n, run.PostEOFBad, data)
					}
				}
			}
		}
	}
	_ = astits.MpegTsPacketSize
}

func sizeCls(ps int) string {
	switch {
	case ps == 0:
		return "auto"
	case ps == 188:
		return "188"
	}
	return "188+k"
}
