package props

import (
	"bytes"
	"fmt"
	"math/rand/v2"

	astits "github.com/asticode/go-astits"

	"verifharness/gen"
	"verifharness/mon"
	"verifharness/refts"
)

func init() {
	register(&Prop{
		ID:    "C13",
		Level: "exploration",
		Rule: "random table models (all table_id variants, 0..max loop entries, descriptor loops from the C14 generator, boundary-biased identifiers, BCD times over the whole MJD range) " +
			"encoded by the reference with random reserved bits, carried in 1..n-section units over TS packets and decoded through NextData; generic section header fields through the " +
			"parsePSIData hook; PAT/PMT written by writePSIData and compared byte for byte; distinct = hash of the unit payload; non-trivial = at least one loop entry or descriptor",
		Assumptions: []string{"reference = refts/psi.go + refts/descriptors.go from ISO 13818-1 2.4.4 and EN 300 468 5.2, anchored on a well known PAT section in the self check",
			"units are packet aligned; on PAT/PMT PIDs no interior section boundary coincides with a packet boundary (ISO requires payload_unit_start there)",
			"pointer filler bytes are unconstrained (masked when comparing written bytes)"},
		Shards: 32,
		Run:    runC13,
		Guards: func(m *mon.Merged, tier string) []string {
			var out []string
			for _, k := range []string{"PAT", "PMT", "NIT", "SDT", "EIT", "TOT"} {
				need(m, &out, "sections_decoded_"+k, 2000)
			}
			need(m, &out, "sections_written_and_compared", 3000)
			need(m, &out, "mixed_unit_sections_decoded", 3000)
			need(m, &out, "generic_headers_compared", 10000)
			needSet(m, &out, "table_ids", 2+2+2+0x22+1)
			need(m, &out, "loopsize_0", 100)
			need(m, &out, "loopsize_many", 1000)
			need(m, &out, "sections_over_1000_bytes", 100)
			return out
		},
	})
}

var kindsAll = []refts.TableKind{refts.KindPAT, refts.KindPMT, refts.KindNIT, refts.KindSDT, refts.KindEIT, refts.KindTOT}

func loopSize(s *astits.PSISection) int {
	d := s.Syntax.Data
	switch {
	case d.PAT != nil:
		return len(d.PAT.Programs)
	case d.PMT != nil:
		return len(d.PMT.ElementaryStreams)
	case d.SDT != nil:
		return len(d.SDT.Services)
	case d.NIT != nil:
		return len(d.NIT.TransportStreams)
	case d.EIT != nil:
		return len(d.EIT.Events)
	case d.TOT != nil:
		return len(d.TOT.Descriptors)
	}
	return 0
}

func tableTypeName(k refts.TableKind) string { return k.String() }

func checkTables(c *mon.Ctx, stage string, idx int64, r *rand.Rand, kind refts.TableKind, nsec int, fill int) {
	pid := gen.PIDFor(kind)
	var secs []*astits.PSISection
	limit := 0
	for j := 0; j < nsec; j++ {
		if fill == 3 {
			// a section of exactly the largest length the table allows (or one / two bytes less)
			if s := gen.ExactSection(r, kind, gen.MaxSectionLength(kind)-r.IntN(3)); s != nil {
				secs = append(secs, s)
				c.Count("sections_of_maximal_length")
				continue
			}
			fill = 2
		}
		secs = append(secs, gen.RandomSection(r, kind, limit, fill))
	}
	ptr := 0
	if r.IntN(4) == 0 {
		ptr = 1 + r.IntN(30)
	}
	u := gen.NewPSIUnit(r, pid, int(idx), secs, ptr, true)
	early := kind == refts.KindPAT || kind == refts.KindPMT
	gen.ChunkPSI(r, u, early, true)
	per := map[uint16][]*gen.Unit{pid: {u}}
	order := repeatPID(pid, len(u.Plan))
	if kind == refts.KindPMT {
		pat := gen.PATFor(r, pid)
		per[0] = []*gen.Unit{pat}
		order = append([]uint16{0}, order...)
	}
	s := gen.Mux(per, order, nil)
	data := map[string]any{"unit_payload": mon.Hex(u.Payload, 1500), "kind": kind.String(), "sections": nsec}
	for _, sec := range u.Sections {
		c.Seen("table_ids", fmt.Sprintf("%02x", uint8(sec.Header.TableID)))
		n := loopSize(sec)
		switch {
		case n == 0:
			c.Count("loopsize_0")
		case n == 1:
			c.Count("loopsize_1")
		default:
			c.Count("loopsize_many")
		}
		c.Max("max_loop_entries_"+kind.String(), int64(n))
		c.Max("max_section_length_"+kind.String(), int64(sec.Header.SectionLength))
		if sec.Header.SectionLength > 1000 {
			c.Count("sections_over_1000_bytes")
		}
	}
	// (a) through the demuxer
	run := RunDemux(s.Bytes, baseCfg("data"))
	if run.Panic != "" {
		c.Violate("C13/decode/panic:"+kind.String(), stage, idx, run.Panic, data)
		return
	}
	if errs := run.Errors(); len(errs) > 0 {
		c.Violate("C13/decode/error-on-wellformed:"+kind.String(), stage, idx, errs[0].Error(), data)
	} else {
		got := perPID(run.Datas())[pid]
		want := u.Expected()
		if len(got) != len(want) {
			c.Violate("C13/decode/section-count:"+kind.String(), stage, idx, fmt.Sprintf("%d tables delivered, %d sections in the unit", len(got), len(want)), data)
		} else {
			for j := range got {
				g := *got[j]
				g.FirstPacket = nil
				if d := mon.Diff(&g, want[j], nil); d != "" {
					c.Violate("C13/decode/field-differs:"+kind.String()+":"+fieldOf(d), stage, idx, fmt.Sprintf("section %d: library vs reference: %s", j, d), data)
					break
				}
			}
		}
	}
	c.Add("sections_decoded_"+kind.String(), int64(nsec))
	// (b) generic header through the hook
	var psi *astits.PSIData
	var perr error
	in := append([]byte{}, u.Payload...) // a buffer of its own, overwritten below
	if idx%2 == 1 {
		in = reusedBuf("c13", u.Payload)
	}
	if p, v, st := mon.Guarded(func() { psi, perr = astits.VerifParsePSIData(in) }); p {
		c.Violate("C13/header/panic", stage, idx, fmt.Sprintf("%v\n%s", v, st), data)
	} else if perr != nil {
		c.Violate("C13/header/error:"+kind.String(), stage, idx, perr.Error(), data)
	} else if psi.PointerField != ptr || len(psi.Sections) < nsec {
		c.Violate("C13/header/pointer-or-count:"+kind.String(), stage, idx, fmt.Sprintf("pointer %d (want %d), %d sections (want %d)", psi.PointerField, ptr, len(psi.Sections), nsec), data)
	} else {
		for j, want := range u.Sections {
			g := psi.Sections[j]
			if d := mon.Diff(g, want, &mon.EqOpt{Ignore: map[string]bool{"PSISectionHeader.TableType": true}}); d != "" {
				c.Violate("C13/header/field-differs:"+kind.String()+":"+fieldOf(d), stage, idx, fmt.Sprintf("section %d: %s", j, d), data)
				break
			}
			if g.Header.TableType != tableTypeName(kind) {
				c.Violate("C13/header/table-type:"+kind.String(), stage, idx, fmt.Sprintf("TableType %q", g.Header.TableType), data)
			}
			c.Count("generic_headers_compared")
		}
		// the parsed sections must be values of their own: the Demuxer parses every unit from a pooled buffer that the next unit
		// overwrites, so nothing delivered may still point into the bytes it was parsed from
		for k := range in {
			in[k] ^= 0xA5
		}
		for j, want := range u.Sections {
			if d := mon.Diff(psi.Sections[j], want, &mon.EqOpt{Ignore: map[string]bool{"PSISectionHeader.TableType": true}}); d != "" {
				c.Violate("C13/decode/value-aliases-parse-buffer:"+kind.String()+":"+fieldOf(d), stage, idx, fmt.Sprintf("section %d, after the parse buffer was overwritten: %s", j, d), data)
				break
			}
		}
		c.Count("sections_rechecked_after_buffer_overwrite")
	}
	// (c) write PAT / PMT
	if kind == refts.KindPMT {
		for _, sec := range u.Sections {
			all := append([]*astits.Descriptor{}, sec.Syntax.Data.PMT.ProgramDescriptors...)
			for _, es := range sec.Syntax.Data.PMT.ElementaryStreams {
				all = append(all, es.ElementaryStreamDescriptors...)
			}
			if hasReservedVBIService(all) {
				// the library spends a reserved byte on VBI services without line entries: a different but equally conformant
				// encoding (judged semantically in C14); byte comparison is skipped for such sections
				c.Count("write_skipped_vbi_reserved_service")
				kind = refts.KindOther
			}
		}
	}
	if kind == refts.KindPAT || kind == refts.KindPMT {
		wp := ptr
		model := &astits.PSIData{PointerField: wp, Sections: mon.Clone(u.Sections)}
		if idx%2 == 1 {
			// section_length as found in the struct is whatever the section had where it came from (non-zero): the writer computes it
			for _, sec := range model.Sections {
				sec.Header.SectionLength = uint16(1 + r.UintN(4093))
			}
			c.Count("sections_written_with_a_stale_section_length")
		}
		var want []byte
		want = append(want, byte(wp))
		want = append(want, make([]byte, wp)...)
		for _, sec := range u.Sections {
			b, _ := refts.EncodeSection(sec, nil)
			want = append(want, b...)
		}
		var out []byte
		var n int
		var werr error
		if p, v, st := mon.Guarded(func() { out, n, werr = astits.VerifWritePSIData(model) }); p {
			c.Violate("C13/write/panic:"+kind.String(), stage, idx, fmt.Sprintf("%v\n%s", v, st), data)
		} else if werr != nil {
			c.Violate("C13/write/error:"+kind.String(), stage, idx, werr.Error(), data)
		} else {
			cmp := append([]byte{}, out...)
			for k := 1; k <= wp && k < len(cmp); k++ {
				cmp[k] = 0 // filler is unconstrained
			}
			if n != len(out) {
				c.Violate("C13/write/returned-count:"+kind.String(), stage, idx, fmt.Sprintf("returned %d, emitted %d", n, len(out)), data)
			}
			if !bytes.Equal(cmp, want) {
				fd := firstDiff(cmp, want)
				c.Violate("C13/write/bytes-differ:"+kind.String()+":"+writeRegion(u, fd), stage, idx, fmt.Sprintf("first difference at byte %d\nlibrary   %s\nreference %s", fd, mon.Hex(out, 300), mon.Hex(want, 300)), data)
			}
		}
		c.Add("sections_written_and_compared", int64(nsec))
	}
	nontrivial := false
	for _, sec := range u.Sections {
		if loopSize(sec) > 0 {
			nontrivial = true
		}
	}
	c.Case(mon.HashBytes("c13", u.Payload), nontrivial)
	_ = kind
}

// writeRegion names the part of the unit a byte offset falls in (header / body / crc of section k).
func writeRegion(u *gen.Unit, off int) string {
	if off < 0 {
		return "length"
	}
	o := 1 + int(u.Payload[0])
	if off < o {
		return "pointer"
	}
	for o+3 <= len(u.Payload) {
		l := int(u.Payload[o+1]&0xf)<<8 | int(u.Payload[o+2])
		switch {
		case off < o+3:
			return "section-header"
		case off < o+8 && off < o+3+l-4:
			return "syntax-header"
		case off < o+3+l-4:
			return "body"
		case off < o+3+l:
			return "crc"
		}
		o += 3 + l
	}
	return "past-end"
}

func runC13(c *mon.Ctx) {
	per := c.Pick(8000, 300000)
	for ki, kind := range kindsAll {
		for k := int64(0); k < per; k++ {
			idx := int64(ki)*per + k
			if !c.Mine("tables", idx) {
				continue
			}
			r := c.Rng("tables", idx)
			nsec := 1
			if k%5 == 0 {
				nsec = 2 + r.IntN(3)
			}
			fill := int(k % 3)
			if nsec > 1 && fill == 2 {
				fill = 1
			}
			if k%40 == 7 {
				nsec, fill = 1, 3
			}
			checkTables(c, "tables", idx, r, kind, nsec, fill)
			if k == 0 {
				sec := gen.RandomSection(r, kind, 0, 0)
				b, _ := refts.EncodeSection(sec, nil)
				c.Sample("tables", map[string]any{"kind": kind.String(), "section": mon.Hex(b, 64)})
			}
		}
	}
	// units mixing sections of different SI table types on one PID
	nmix := c.Pick(1500, 60000)
	for i := int64(0); i < nmix; i++ {
		if !c.Mine("mixed", i) {
			continue
		}
		r := c.Rng("mixed", i)
		siKinds := []refts.TableKind{refts.KindNIT, refts.KindSDT, refts.KindEIT, refts.KindTOT}
		pid := []uint16{0x10, 0x11, 0x12, 0x14}[r.IntN(4)]
		var secs []*astits.PSISection
		for j := 0; j < 2+r.IntN(4); j++ {
			secs = append(secs, gen.RandomSection(r, siKinds[r.IntN(4)], 40+r.IntN(500), r.IntN(2)))
		}
		u := gen.NewPSIUnit(r, pid, int(i), secs, r.IntN(3), true)
		if i%2 == 1 {
			// sections of tables the library knows but does not decode (TDT, BAT, RST, ST, DIT, SIT) between the others: they must
			// be skipped by their section_length, the sections after them are still delivered
			ptr := int(u.Payload[0])
			pl := append([]byte{}, u.Payload[:1+ptr]...)
			off := 1 + ptr
			for k := range secs {
				if r.IntN(2) == 0 || k == 0 {
					id := []byte{0x70, 0x4a, 0x71, 0x72, 0x7e, 0x7f}[r.IntN(6)]
					n := 5
					if id != 0x70 {
						n = 1 + r.IntN(60)
					}
					raw := append([]byte{id, 0x70 | byte(n>>8), byte(n)}, gen.Bytes(r, n)...)
					pl = append(pl, raw...)
					c.Count("undecoded_table_sections_interleaved")
				}
				l := int(u.Payload[off+1]&0xf)<<8 | int(u.Payload[off+2])
				pl = append(pl, u.Payload[off:off+3+l]...)
				off += 3 + l
			}
			u.Payload = pl
		}
		gen.ChunkPSI(r, u, false, false)
		st := gen.Mux(map[uint16][]*gen.Unit{pid: {u}}, repeatPID(pid, len(u.Plan)), nil)
		run := RunDemux(st.Bytes, baseCfg("data"))
		data := map[string]any{"unit_payload": mon.Hex(u.Payload, 1500)}
		if run.Panic != "" || len(run.Errors()) > 0 {
			c.Violate("C13/decode/mixed-unit-error", "mixed", i, fmt.Sprintf("%s %v", run.Panic, run.Errors()), data)
			continue
		}
		got, want := run.Datas(), u.Expected()
		if len(got) != len(want) {
			c.Violate("C13/decode/mixed-unit-section-count", "mixed", i, fmt.Sprintf("%d tables delivered, %d sections in the unit", len(got), len(want)), data)
			continue
		}
		for j := range got {
			g := *got[j]
			g.FirstPacket = nil
			if d := mon.Diff(&g, want[j], nil); d != "" {
				c.Violate("C13/decode/mixed-unit-field-differs:"+fieldOf(d), "mixed", i, fmt.Sprintf("section %d: %s", j, d), data)
				break
			}
		}
		c.Add("mixed_unit_sections_decoded", int64(len(secs)))
		c.Case(mon.HashBytes("c13mix", u.Payload), true)
	}
	// every EIT table id and both variants of NIT/SDT explicitly
	for id := int64(0x4e); id <= 0x6f; id++ {
		if !c.Mine("eit-ids", id) {
			continue
		}
		r := c.Rng("eit-ids", id)
		for k := 0; k < 10; k++ {
			sec := gen.RandomSection(r, refts.KindEIT, 0, k%3)
			sec.Header.TableID = astits.PSITableID(id)
			u := gen.NewPSIUnit(r, 0x12, int(id), []*astits.PSISection{sec}, 0, true)
			gen.ChunkPSI(r, u, false, false)
			s := gen.Mux(map[uint16][]*gen.Unit{0x12: {u}}, repeatPID(0x12, len(u.Plan)), nil)
			run := RunDemux(s.Bytes, baseCfg("data"))
			ds := run.Datas()
			c.Seen("table_ids", fmt.Sprintf("%02x", id))
			if run.Panic != "" || len(run.Errors()) > 0 || len(ds) != 1 || ds[0].EIT == nil {
				c.Violate("C13/decode/eit-table-id", "eit-ids", id, fmt.Sprintf("table_id %#x: %d data, errors %v %s", id, len(ds), run.Errors(), run.Panic), map[string]any{"unit_payload": mon.Hex(u.Payload, 400)})
			} else if d := mon.Diff(ds[0].EIT, u.Sections[0].Syntax.Data.EIT, nil); d != "" {
				c.Violate("C13/decode/field-differs:EIT:"+fieldOf(d), "eit-ids", id, d, nil)
			}
			c.Add("sections_decoded_EIT", 1)
			c.Case(mon.HashBytes("c13-eit", u.Payload), true)
		}
	}
}
