package props

import (
	"bytes"
	"fmt"
	"math/rand/v2"

	astits "github.com/asticode/go-astits"

	"verifharness/gen"
	"verifharness/mon"
	"verifharness/refts"
)

func init() {
	register(&Prop{
		ID:    "C06",
		Level: "fault_enumeration",
		Rule: "reference-multiplexed streams (2..4 PIDs, PES bounded/unbounded salted with start codes, PAT/PMT, SI) under packet-level fault plans: every single-packet duplication (directly after the original " +
			"and after intervening packets of other PIDs) and every single-packet deletion of every stream; random multi-fault plans (deletion bursts 1..15, duplicates, transport_error_indicator, " +
			"discontinuity_indicator, adaptation-only insertions); all fault words of length 7 over {none,dup,delete,TEI,AF-only,DI} on a 2-PID micro stream; the output is compared with the fault-free " +
			"output using the model's knowledge of which units each fault touched; plus units of 257..3500 packets behind and around gaps and duplicates (stage giant), duplicates with re-stamped clocks that must be invisible — everything delivered compared, first packets included — and 21 kinds of look-alikes (same counter and payload, another header / adaptation field flag or value) as a receiver sees them after 15 lost packets (stage near-dup), sessions that restart in the middle of a unit under discontinuity_indicator (alone or next to PCR / OPCR / random access / splice / private data / extension) with 1..4 packets lost in front such that the counters line up (stage flagged), a damaged copy marked with transport_error_indicator next to the good copy of every packet in either order and marked packets without payload (nothing is lost: nothing may be missing), true duplicates also compared through an observing PacketsParser; distinct = hash of the faulted stream; non-trivial = at least one fault applied",
		Assumptions: []string{"loss plans satisfy the property's precondition: < 16 packets lost in a row on a PID and a later payload packet of that PID survives (plans that do not are skipped and counted)",
			"a packet with discontinuity_indicator is treated as preceded by a gap", "errors returned by NextData are not units", "on PSI PIDs a duplicate may cause a repeated delivery equal to its neighbour"},
		Shards: 32,
		Run:    runC06,
		Guards: func(m *mon.Merged, tier string) []string {
			var out []string
			need(m, &out, "single_duplications", 1500)
			need(m, &out, "single_deletions", 1000)
			need(m, &out, "random_plans", 1000)
			need(m, &out, "micro_words", 200000)
			need(m, &out, "gap_burst_15", 5)
			need(m, &out, "giant_unit_plans", 200)
			need(m, &out, "near_duplicate_cases", 250)
			need(m, &out, "marked_copies", 3000)
			need(m, &out, "flagged_discontinuity_cases", 250)
			need(m, &out, "dup_position_first", 100)
			need(m, &out, "dup_position_middle", 100)
			need(m, &out, "dup_position_last", 100)
			need(m, &out, "dup_position_single-packet-unit", 100)
			return out
		},
		Exhaustive: func(tier string) bool { return true },
	})
}

type fkind uint8

const (
	fNone fkind = iota
	fDup
	fDel
	fTEI
	fAFOnly
	fDI
	fDupTEI1   // the packet arrives twice, the FIRST copy damaged and marked with transport_error_indicator: nothing is lost
	fDupTEI2   // ... the SECOND copy damaged and marked
	fAFOnlyTEI // a packet without payload, marked with transport_error_indicator, in front of the packet: nothing is lost
	fDelAFOnly // the packet is lost; a packet without payload that the sender emitted in front of it (a PCR on its own) arrives
)

var fnames = [...]string{"none", "dup", "del", "tei", "afonly", "di", "dup-first-copy-tei", "dup-second-copy-tei", "afonly-tei", "del-after-afonly"}

// applyFaults returns the faulted packet list. dupDelay[k] > 0 places the duplicate after that many packets of other PIDs.
func applyFaults(pk []*astits.Packet, f []fkind, dupDelay []int) []*astits.Packet {
	var out []*astits.Packet
	type pend struct {
		p    *astits.Packet
		left int
	}
	var pending []pend
	lastCC := map[uint16]uint8{}
	for k, p := range pk {
		// release delayed duplicates: before the next packet of the same PID at the latest
		var keep []pend
		for _, d := range pending {
			if d.p.Header.PID == p.Header.PID || d.left <= 0 {
				out = append(out, d.p)
			} else {
				d.left--
				keep = append(keep, d)
			}
		}
		pending = keep
		// the sender numbers its packets before anything is lost: a packet without payload repeats the counter of the packet the
		// sender emitted before it, whether or not that one arrives
		prevCC := lastCC[p.Header.PID]
		lastCC[p.Header.PID] = p.Header.ContinuityCounter
		switch f[k] {
		case fDel:
			continue
		case fTEI:
			q := mon.Clone(p)
			q.Header.TransportErrorIndicator = true
			out = append(out, q)
			continue
		case fAFOnly:
			out = append(out, &astits.Packet{Header: astits.PacketHeader{PID: p.Header.PID, HasAdaptationField: true, ContinuityCounter: prevCC},
				AdaptationField: &astits.PacketAdaptationField{StuffingLength: 182}})
			out = append(out, p)
		case fDupTEI1, fDupTEI2:
			q := mon.Clone(p)
			q.Header.TransportErrorIndicator = true
			if len(q.Payload) > 0 {
				q.Payload[len(q.Payload)/2] ^= 0x5a
			}
			if f[k] == fDupTEI1 {
				out = append(out, q, p)
			} else {
				out = append(out, p, q)
			}
		case fDelAFOnly:
			out = append(out, &astits.Packet{Header: astits.PacketHeader{PID: p.Header.PID, HasAdaptationField: true, ContinuityCounter: prevCC},
				AdaptationField: &astits.PacketAdaptationField{StuffingLength: 182}})
			continue
		case fAFOnlyTEI:
			out = append(out, &astits.Packet{Header: astits.PacketHeader{PID: p.Header.PID, HasAdaptationField: true, ContinuityCounter: prevCC, TransportErrorIndicator: true},
				AdaptationField: &astits.PacketAdaptationField{StuffingLength: 182}})
			out = append(out, p)
		case fDI:
			q := mon.Clone(p)
			if q.AdaptationField != nil && !q.AdaptationField.IsOneByteStuffing {
				q.AdaptationField.DiscontinuityIndicator = true
				out = append(out, q)
			} else {
				out = append(out, p) // no room for the flag: fault not applicable
			}
		case fDup:
			out = append(out, p)
			if dupDelay != nil && dupDelay[k] > 0 {
				pending = append(pending, pend{mon.Clone(p), dupDelay[k]})
			} else {
				out = append(out, mon.Clone(p))
			}
		default:
			out = append(out, p)
		}
	}
	for _, d := range pending {
		out = append(out, d.p)
	}
	return out
}

type cleanRef struct {
	s     *gen.Stream
	items map[uint16][]*astits.DemuxerData
	units map[uint16][]*gen.Unit // unit of each item
	psi   map[uint16]bool
	pmt   map[uint16]bool
}

func stripFirst(ds []*astits.DemuxerData) []*astits.DemuxerData {
	out := make([]*astits.DemuxerData, len(ds))
	for i, d := range ds {
		cp := *d
		cp.FirstPacket = nil
		out[i] = &cp
	}
	return out
}

func newCleanRef(c *mon.Ctx, stage string, idx int64, s *gen.Stream, m *gen.Model) *cleanRef {
	run := RunDemux(s.Bytes, baseCfg("data"))
	if !checkStreamDelivery(c, "C06/clean", stage, idx, s, m, run, false) {
		return nil
	}
	cr := &cleanRef{s: s, items: perPID(stripFirst(run.Datas())), units: map[uint16][]*gen.Unit{}, psi: map[uint16]bool{}, pmt: map[uint16]bool{}}
	for _, p := range m.PMTs {
		cr.pmt[p] = true
	}
	for _, u := range s.Units {
		for range u.Expected() {
			cr.units[u.PID] = append(cr.units[u.PID], u)
		}
		if u.Kind == gen.UnitPSI {
			cr.psi[u.PID] = true
		}
	}
	return cr
}

// judge compares the output of a faulted stream with the clean output. lostOrDI describes the loss-type faults; dupOnly
// tells that no loss-type fault was applied (then PES PIDs must be identical).
func (cr *cleanRef) judge(c *mon.Ctx, stage string, idx int64, f []fkind, faulted []*astits.Packet, cls string) {
	b := encodeAll(faulted)
	data := map[string]any{"stream": mon.Hex(b, 3000), "faults": faultString(f)}
	run := RunDemux(b, baseCfg("data"))
	if run.Panic != "" {
		c.Violate("C06/panic", stage, idx, run.Panic, data)
		return
	}
	got := perPID(stripFirst(run.Datas()))
	s := cr.s
	// a loss-type fault on the PAT PID may leave PMT PIDs unknown: the dependence the properties allow
	patHit := false
	for k, x := range f {
		if x != fNone && x != fDup && x != fAFOnly && x != fDupTEI1 && x != fDupTEI2 && x != fAFOnlyTEI && s.Packets[k].Header.PID == 0 {
			patHit = true
		}
	}
	// per PID analysis of the fault plan
	seq := map[uint16][]int{}
	for k, p := range s.Packets {
		seq[p.Header.PID] = append(seq[p.Header.PID], k)
	}
	for pid, idxs := range seq {
		if patHit && cr.pmt[pid] {
			continue
		}
		allowed := map[*gen.Unit]bool{}
		lossy := false
		for j, k := range idxs {
			lost := f[k] == fDel || f[k] == fTEI || f[k] == fDelAFOnly
			di := f[k] == fDI && s.Packets[k].AdaptationField != nil && !s.Packets[k].AdaptationField.IsOneByteStuffing
			if lost {
				lossy = true
				allowed[s.Owner[k]] = true
				if j > 0 {
					pk := idxs[j-1]
					if !(f[pk] == fDel || f[pk] == fTEI || f[pk] == fDelAFOnly) {
						allowed[s.Owner[pk]] = true
					}
				}
			}
			if di {
				lossy = true
				if j > 0 {
					allowed[s.Owner[idxs[j-1]]] = true
				}
				if s.Owner[k].FirstPkt != k {
					allowed[s.Owner[k]] = true
				}
			}
		}
		want := cr.items[pid]
		have := got[pid]
		kind := "pes"
		if cr.psi[pid] {
			kind = "psi"
		}
		// order preserving match
		wi := 0
		last := -1
		for gi, g := range have {
			matched := false
			j := wi
			for j < len(want) {
				if mon.Diff(g, want[j], nil) == "" {
					matched = true
					break
				}
				// skipped expected item: must be allowed missing
				if !allowed[cr.units[pid][j]] {
					break
				}
				j++
			}
			if matched {
				last = j
				wi = j + 1
				continue
			}
			if kind == "psi" && last >= 0 {
				// a duplicate may cause a repeated delivery: equal to a section of the unit delivered last
				rep := false
				for b := 0; b < len(want); b++ {
					if cr.units[pid][b] == cr.units[pid][last] && mon.Diff(g, want[b], nil) == "" {
						rep = true
					}
				}
				if rep {
					c.Count("psi_repeated_deliveries")
					continue
				}
			}
			foreign := true
			for _, w := range want {
				if mon.Diff(g, w, nil) == "" {
					foreign = false
				}
			}
			if foreign {
				c.Violate("C06/"+cls+"/foreign-or-spliced-unit:"+kind, stage, idx, fmt.Sprintf("pid %#x: delivered datum %d (%s) equals no unit of the fault-free output", pid, gi, dataKind(g)), data)
			} else if wi < len(want) && !allowed[cr.units[pid][wi]] {
				c.Violate("C06/"+cls+"/unit-missing-without-cause:"+kind, stage, idx, fmt.Sprintf("pid %#x: unit serial %d neither lost a packet nor precedes a gap, yet it is not delivered (datum %d arrived instead)", pid, cr.units[pid][wi].Serial, gi), data)
			} else {
				c.Violate("C06/"+cls+"/out-of-order-or-duplicated:"+kind, stage, idx, fmt.Sprintf("pid %#x: delivered datum %d breaks the order of the fault-free output", pid, gi), data)
			}
			return
		}
		for ; wi < len(want); wi++ {
			if !allowed[cr.units[pid][wi]] {
				pos := unitFaultPos(s, f, cr.units[pid][wi])
				c.Violate("C06/"+cls+"/unit-missing-without-cause:"+kind+":"+pos, stage, idx, fmt.Sprintf("pid %#x: unit serial %d (packets %v) neither lost a packet nor precedes a gap, yet it is not delivered", pid, cr.units[pid][wi].Serial, cr.units[pid][wi].Pkts), data)
				return
			}
		}
		if !lossy && kind == "pes" && len(have) != len(want) {
			c.Violate("C06/"+cls+"/pes-output-changed-by-duplicate", stage, idx, fmt.Sprintf("pid %#x: %d data vs %d", pid, len(have), len(want)), data)
			return
		}
	}
	for pid := range got {
		if _, ok := seq[pid]; !ok {
			c.Violate("C06/"+cls+"/data-on-unknown-pid", stage, idx, fmt.Sprintf("pid %#x", pid), data)
		}
	}
}

// nearDuplicateCase: after a packet of a four-packet unit comes a packet with the same continuity counter and the same payload.
// Kind "dup": a duplicate in the sense of ISO 13818-1 2.4.3.3 — every byte repeated except, possibly, the values of the clock
// references (the PCR / OPCR of a duplicate may be re-stamped: later, or earlier across the wrap of the 33 bit base): it must be
// invisible, the output is that of the stream without it. Kind "near": the same counter and payload but another header or adaptation
// field (priority, scrambling, a flag, a PCR or an extension where the first packet has stuffing, or the other way round): not a
// duplicate but what a receiver sees after the loss of 15 packets; whatever is delivered then is a unit the stream carries.
func nearDuplicateCase(c *mon.Ctx, idx int64, r *rand.Rand) {
	pcr := func(base uint64, ext uint16) []byte {
		v := base<<15 | 0x3f<<9 | uint64(ext)
		return []byte{byte(v >> 40), byte(v >> 32), byte(v >> 24), byte(v >> 16), byte(v >> 8), byte(v)}
	}
	stuff := func(b []byte) []byte { // adaptation field content of 16 bytes
		for len(b) < 16 {
			b = append(b, 0xff)
		}
		return b
	}
	base := uint64(r.Uint64N(1 << 33))
	if idx%3 == 0 {
		base = 1<<33 - 1 - uint64(r.IntN(3))
	}
	type variant struct {
		name       string
		dup        bool
		prio       bool
		tsc        uint8
		first, rep []byte // adaptation field content of the packet and of the packet that follows it
	}
	withPCR := stuff(append([]byte{0x10}, pcr(base, 17)...))
	withBoth := stuff(append(append([]byte{0x18}, pcr(base, 17)...), pcr(base/2, 3)...))
	vs := []variant{
		{"identical", true, false, 0, withPCR, withPCR},
		{"pcr-later", true, false, 0, withPCR, stuff(append([]byte{0x10}, pcr((base+uint64(1+r.IntN(5000)))&(1<<33-1), 200)...))},
		{"pcr-earlier-across-the-wrap", true, false, 0, withPCR, stuff(append([]byte{0x10}, pcr(uint64(r.IntN(4)), 0)...))},
		{"opcr-other", true, false, 0, withBoth, stuff(append(append([]byte{0x18}, pcr(base+1, 18)...), pcr(base/2+9, 4)...))},
		{"no-clock", true, false, 0, stuff([]byte{0x40}), stuff([]byte{0x40})},
		// true duplicates whose adaptation field carries an extension (seamless splice with DTS_next_AU; legal time window and
		// piecewise rate) and private data: the comparison that recognises them must leave the packet it is compared with as it was
		{"identical-with-seamless-splice", true, false, 0, stuff([]byte{0x01, 0x06, 0x3f, 0x11, 0x00, 0x01, 0x00, 0x01}), stuff([]byte{0x01, 0x06, 0x3f, 0x11, 0x00, 0x01, 0x00, 0x01})},
		{"identical-with-ltw-piecewise-private", true, false, 0, stuff([]byte{0x03, 0x02, 0x5a, 0x02, 0x06, 0xdf, 0x81, 0x02, 0xc0, 0x10, 0x00}), stuff([]byte{0x03, 0x02, 0x5a, 0x02, 0x06, 0xdf, 0x81, 0x02, 0xc0, 0x10, 0x00})},
		{"priority", false, true, 0, withPCR, withPCR},
		{"scrambling", false, false, 2, withPCR, withPCR},
		{"random-access", false, false, 0, stuff([]byte{0x00}), stuff([]byte{0x40})},
		{"es-priority", false, false, 0, stuff([]byte{0x20}), stuff([]byte{0x00})},
		{"pcr-versus-stuffing", false, false, 0, stuff([]byte{0x00}), withPCR},
		{"stuffing-versus-pcr", false, false, 0, withPCR, stuff([]byte{0x00})},
		{"extension-versus-stuffing", false, false, 0, stuff([]byte{0x01, 0x01, 0x1f}), stuff([]byte{0x00})},
		{"stuffing-versus-extension", false, false, 0, stuff([]byte{0x00}), stuff([]byte{0x01, 0x01, 0x1f})},
		{"private-data-versus-stuffing", false, false, 0, stuff([]byte{0x02, 0x03, 1, 2, 3}), stuff([]byte{0x00})},
		{"splice-versus-stuffing", false, false, 0, stuff([]byte{0x04, 0x05}), stuff([]byte{0x00})},
		// the same flags and lengths, other VALUES (only the clock references of a duplicate may differ): a splice countdown that
		// has moved on, private data that numbers the packets, a legal time window offset, a piecewise rate, a splice type / DTS
		{"splice-countdown-value", false, false, 0, stuff([]byte{0x04, 0x64}), stuff([]byte{0x04, 0x54})},
		{"private-data-value", false, false, 0, stuff([]byte{0x02, 0x02, 0x5a, 0x02}), stuff([]byte{0x02, 0x02, 0x5a, 0x12})},
		{"ltw-offset-value", false, false, 0, stuff([]byte{0x01, 0x03, 0x9f, 0x81, 0x02}), stuff([]byte{0x01, 0x03, 0x9f, 0x81, 0x12})},
		{"piecewise-rate-value", false, false, 0, stuff([]byte{0x01, 0x04, 0x5f, 0xc0, 0x10, 0x00}), stuff([]byte{0x01, 0x04, 0x5f, 0xc0, 0x20, 0x00})},
		{"splice-type-dts-value", false, false, 0, stuff([]byte{0x01, 0x06, 0x3f, 0x11, 0x00, 0x01, 0x00, 0x01}), stuff([]byte{0x01, 0x06, 0x3f, 0x11, 0x00, 0x01, 0x00, 0x21})},
		{"reserved-bytes-count", false, false, 0, stuff([]byte{0x01, 0x03, 0x1f, 0xff, 0xff}), stuff([]byte{0x01, 0x02, 0x1f, 0xff, 0xff})},
	}
	v := vs[int(idx)%len(vs)]
	build := func(withRepeat bool) *longStream {
		s := newLongStream()
		s.cc[0x100] = uint8(idx) & 15
		s.pes(0x100, 0xe0, 1, longData(0x100, 1, 60+int(idx)%100), false)
		if !v.dup {
			// what a receiver sees after the loss of 15 packets: a unit of 20 packets of constant filler, packets 2..16 missing,
			// packet 17 with the counter and the payload of packet 1 and the other adaptation field
			d := bytes.Repeat([]byte{0x55}, 184-14+18*167+50)
			p := append(pesHeaderPTS(0xe0, 2, len(d), false), d...)
			s.packet(0x100, true, p[:184])
			s.afPacket(0x100, false, false, 0, v.first, p[184:184+167], false)
			s.cc[0x100] = (s.cc[0x100] + 15) & 0xf // 15 packets that never arrive
			s.afPacket(0x100, false, v.prio, v.tsc, v.rep, p[184+16*167:184+17*167], false)
			s.afPacket(0x100, false, false, 0, v.first, p[184+17*167:184+18*167], false)
			s.packet(0x100, false, p[184+18*167:])
			s.want[0x100] = append(s.want[0x100], longUnit{pes: true, pts: 2, data: d, packets: 20})
			s.pes(0x100, 0xe0, 3, longData(0x100, 3, 300), false)
			s.pes(0x100, 0xe0, 4, longData(0x100, 4, 20), false)
			return s
		}
		d := longData(0x100, 2, 184-14+167+184+90)
		p := append(pesHeaderPTS(0xe0, 2, len(d), false), d...)
		if idx%2 == 1 {
			// the duplicated packet is the one that starts the unit: its adaptation field is what DemuxerData.FirstPacket shows
			s.afPacket(0x100, true, false, 0, v.first, p[:167], false)
			if withRepeat {
				s.afPacket(0x100, true, v.prio, v.tsc, v.rep, p[:167], true)
			}
			s.packet(0x100, false, p[167:167+184])
		} else {
			s.packet(0x100, true, p[:184])
			s.afPacket(0x100, false, false, 0, v.first, p[184:184+167], false)
			if withRepeat {
				s.afPacket(0x100, false, v.prio, v.tsc, v.rep, p[184:184+167], true)
			}
		}
		s.packet(0x100, false, p[351:351+184])
		s.packet(0x100, false, p[535:])
		s.want[0x100] = append(s.want[0x100], longUnit{pes: true, pts: 2, data: d, packets: 4})
		s.pes(0x100, 0xe0, 3, longData(0x100, 3, 300), false)
		s.pes(0x100, 0xe0, 4, longData(0x100, 4, 20), false)
		return s
	}
	s := build(true)
	ds, errs, pn := drainData(s.b)
	c.Count("near_duplicate_cases")
	c.Seen("near_duplicate_variants", v.name)
	c.Case(mon.HashStr("neardup", fmt.Sprint(idx)), true)
	data := map[string]any{"variant": v.name, "stream": mon.Hex(s.b, 1500)}
	if pn != "" {
		c.Violate("C06/near-duplicate/panic:"+v.name, "near-dup", idx, pn, data)
		return
	}
	if v.dup {
		if d := s.compare(ds); d != "" || len(errs) > 0 {
			c.Violate("C06/dup/duplicate-with-restamped-clock-changes-output:"+v.name, "near-dup", idx, fmt.Sprintf("%s %v", d, errs), data)
			return
		}
		// "identical to that of the stream without the duplicate": everything that is delivered, the first packet of every unit
		// (header, adaptation field, clocks) included
		clean, _, _ := drainData(build(false).b)
		if len(clean) != len(ds) {
			c.Violate("C06/dup/pes-output-changed-by-duplicate:"+v.name, "near-dup", idx, fmt.Sprintf("%d data with the duplicate, %d without", len(ds), len(clean)), data)
			return
		}
		for k := range ds {
			if df := mon.Diff(ds[k], clean[k], nil); df != "" {
				c.Violate("C06/dup/pes-output-changed-by-duplicate:"+v.name, "near-dup", idx, fmt.Sprintf("datum %d with the duplicate vs without: %s", k, df), data)
				return
			}
		}
		c.Count("duplicates_compared_with_first_packet")
		// ... and what a PacketsParser is handed: the packets of each unit - header, adaptation field with its clock values,
		// payload - are those of the stream without the duplicate (the copy that arrived first stays, the second one is dropped)
		groups := func(b []byte) ([]string, string) {
			var gs []string
			prs := func(ps []*astits.Packet) ([]*astits.DemuxerData, bool, error) {
				g := ""
				for _, p := range ps {
					g += mon.DumpString(p) + "\n"
				}
				gs = append(gs, g)
				return nil, false, nil
			}
			run := RunDemux(b, DemuxCfg{PacketSize: 188, Reader: "seek", API: "data", Parser: prs, MaxCalls: len(b)/188 + 64})
			return gs, run.Panic
		}
		gd, pd := groups(s.b)
		gc, _ := groups(build(false).b)
		switch {
		case pd != "":
			c.Violate("C06/near-duplicate/panic:"+v.name, "near-dup", idx, pd, data)
		case len(gd) != len(gc):
			c.Violate("C06/dup/packets-handed-to-parser-changed-by-duplicate:"+v.name, "near-dup", idx, fmt.Sprintf("%d groups with the duplicate, %d without", len(gd), len(gc)), data)
		default:
			for k := range gd {
				if gd[k] != gc[k] {
					c.Violate("C06/dup/packets-handed-to-parser-changed-by-duplicate:"+v.name, "near-dup", idx, fmt.Sprintf("group %d with the duplicate:\n%s\nwithout:\n%s", k, gd[k], gc[k]), data)
					break
				}
			}
		}
		c.Count("duplicates_compared_through_a_packets_parser")
		return
	}
	// not a duplicate: the unit it sits in may be missing, everything delivered is a unit of the stream, the others are all there
	judgeSurvivors(c, "near-duplicate", "near-dup", idx, v.name, s, ds, []int64{1, 3, 4}, data)
}

// flaggedDiscontinuityCase: a new session starts in the middle of a unit (a splice, an encoder restart, two recordings concatenated):
// its first packet carries discontinuity_indicator - alone or next to a PCR, an OPCR, a random access indicator, a splice countdown,
// private data, an extension - and a continuity counter that has nothing to do with the one before, which the indicator makes legal.
// The stream is what a receiver sees after the last j packets of the interrupted unit were lost, with j such that the counters LINE UP:
// the counter shows no gap, the indicator is all that tells. The survivors must not be joined to what follows.
func flaggedDiscontinuityCase(c *mon.Ctx, idx int64, r *rand.Rand) {
	stuff := func(b []byte, n int) []byte {
		for len(b) < n {
			b = append(b, 0xff)
		}
		return b
	}
	clock := func(base uint64, ext uint16) []byte {
		v := base<<15 | 0x3f<<9 | uint64(ext)
		return []byte{byte(v >> 40), byte(v >> 32), byte(v >> 24), byte(v >> 16), byte(v >> 8), byte(v)}
	}
	base := r.Uint64N(1 << 33)
	afs := []struct {
		name string
		af   []byte
	}{
		{"indicator-alone", []byte{0x80}},
		{"with-pcr", append([]byte{0x90}, clock(base, 5)...)},
		{"with-pcr-and-opcr", append(append([]byte{0x98}, clock(base, 5)...), clock(base/3, 1)...)},
		{"with-random-access", []byte{0xc0}},
		{"with-pcr-and-random-access", append([]byte{0xd0}, clock(base, 299)...)},
		{"with-splice-countdown", []byte{0x84, 0x00}},
		{"with-private-data", []byte{0x82, 0x02, 0xaa, 0xbb}},
		{"with-extension", []byte{0x81, 0x01, 0x1f}},
	}
	v := afs[int(idx)%len(afs)]
	startsUnit := idx/int64(len(afs))%2 == 1 // the new session starts with the start of a unit / in the middle of one
	lost := 1 + int(idx/int64(2*len(afs)))%4
	s := newLongStream()
	s.cc[0x100] = uint8(r.IntN(16))
	s.pes(0x100, 0xe0, 1, longData(0x100, 1, 60+r.IntN(400)), false)
	// the interrupted unit: lost+2..lost+5 packets of which the last `lost` never arrive
	na := lost + 2 + r.IntN(4)
	da := longData(0x100, 2, 184*na-14-r.IntN(100))
	pa := append(pesHeaderPTS(0xe0, 2, len(da), false), da...)
	for k := 0; k < na-lost; k++ {
		s.packet(0x100, k == 0, pa[184*k:184*k+184])
	}
	// the next counter is the one the first packet of the new session happens to carry
	af := stuff(append([]byte{}, v.af...), 16)
	if startsUnit {
		d := longData(0x100, 3, 167-14+184+r.IntN(150))
		p := append(pesHeaderPTS(0xe0, 3, len(d), false), d...)
		s.afPacket(0x100, true, false, 0, af, p[:167], false)
		s.unit0(0x100, p[167:])
		s.want[0x100] = append(s.want[0x100], longUnit{pes: true, pts: 3, data: d, packets: 3})
	} else {
		foreign := bytes.Repeat([]byte{0xd0}, 167+184+r.IntN(100))
		s.afPacket(0x100, false, false, 0, af, foreign[:167], false)
		s.unit0(0x100, foreign[167:])
		s.pes(0x100, 0xe0, 3, longData(0x100, 3, 100+r.IntN(500)), false)
	}
	s.pes(0x100, 0xe0, 4, longData(0x100, 4, 300), false)
	s.pes(0x100, 0xe0, 5, longData(0x100, 5, 20), false)
	ds, _, pn := drainData(s.b)
	c.Count("flagged_discontinuity_cases")
	c.Seen("flagged_discontinuity_variants", fmt.Sprintf("%s/starts-unit=%v/lost=%d", v.name, startsUnit, lost))
	c.Case(mon.HashStr("flagged", fmt.Sprint(idx)), true)
	data := map[string]any{"variant": v.name, "new_session_starts_a_unit": startsUnit, "packets_lost": lost, "stream": mon.Hex(s.b, 3000)}
	if pn != "" {
		c.Violate("C06/flagged-discontinuity/panic:"+v.name, "flagged", idx, pn, data)
		return
	}
	judgeSurvivors(c, "flagged-discontinuity", "flagged", idx, v.name, s, ds, []int64{1, 3, 4, 5}, data)
}

// judgeSurvivors: everything delivered on PID 0x100 is a unit of the stream (never something else), and the units named are all there.
func judgeSurvivors(c *mon.Ctx, cls, stage string, idx int64, name string, s *longStream, ds []*astits.DemuxerData, must []int64, data map[string]any) {
	byPTS := map[int64]longUnit{}
	for _, u := range s.want[0x100] {
		byPTS[u.pts] = u
	}
	seen := map[int64]bool{}
	for _, d := range ds {
		if d.PES == nil || d.PES.Header.OptionalHeader == nil || d.PES.Header.OptionalHeader.PTS == nil {
			c.Violate("C06/"+cls+"/foreign-or-spliced-unit:"+name, stage, idx, "a datum that is no PES with a PTS", data)
			return
		}
		u, ok := byPTS[d.PES.Header.OptionalHeader.PTS.Base]
		if !ok || !bytes.Equal(u.data, d.PES.Data) {
			c.Violate("C06/"+cls+"/foreign-or-spliced-unit:"+name, stage, idx, fmt.Sprintf("delivered unit with PTS %d and %d bytes equals no unit of the stream", d.PES.Header.OptionalHeader.PTS.Base, len(d.PES.Data)), data)
			return
		}
		if seen[u.pts] {
			c.Violate("C06/"+cls+"/out-of-order-or-duplicated:"+name, stage, idx, fmt.Sprintf("the unit with PTS %d is delivered twice", u.pts), data)
			return
		}
		seen[u.pts] = true
	}
	for _, pts := range must {
		if !seen[pts] {
			c.Violate("C06/"+cls+"/unit-missing-without-cause:"+name, stage, idx, fmt.Sprintf("the unit with PTS %d lost no packet and does not precede the gap, yet it is not delivered", pts), data)
			return
		}
	}
}

// giantFaultCase: one PID carries small units and units of hundreds to thousands of packets; whole small units in front of a giant
// one are lost (the first packet that survives starts the giant unit), packets inside are lost or duplicated at the positions where
// counts of 256 and 1024 packets are reached.
func giantFaultCase(c *mon.Ctx, idx int64, r *rand.Rand) {
	bigN := []int{1024, 1100, 257, 2048 + r.IntN(1500), 1023, 1025, 300}[int(idx)%7]
	big2 := []int{257, 1030, 600}[int(idx/7)%3]
	mk := func(serial, n int) *gen.Unit {
		return gen.NewPESUnit(r, 0x100, serial, gen.PESOpts{DataLen: n, Unbounded: true, WithPTS: true})
	}
	us := []*gen.Unit{mk(1, 300+r.IntN(300)), mk(2, 20+r.IntN(140)), mk(3, bigN*184-14-r.IntN(150)), mk(4, 200+r.IntN(200)), mk(5, 10+r.IntN(150)),
		mk(6, big2*184-14-r.IntN(150)), mk(7, 30+r.IntN(100)), mk(8, 400)}
	var small []*gen.Unit
	for k := 0; k < 6; k++ {
		small = append(small, gen.NewPESUnit(r, 0x101, 20+k, gen.PESOpts{DataLen: 50 + r.IntN(900), WithPTS: k%2 == 0}))
	}
	if idx%2 == 0 {
		// constant filler: packets 16 apart inside the giant unit are equal byte for byte, counter included
		hl := len(us[2].Payload) - len(us[2].PES.Data)
		for q := 8; q < len(us[2].PES.Data); q++ {
			us[2].PES.Data[q], us[2].Payload[hl+q] = 0x55, 0x55
		}
	}
	counts := map[uint16]int{}
	for _, u := range append(append([]*gen.Unit{}, us...), small...) {
		u.PlanChunks(gen.RandomChunks(r, len(u.Payload), 0, 0, true))
		counts[u.PID] += len(u.Plan)
	}
	s := gen.Mux(map[uint16][]*gen.Unit{0x100: us, 0x101: small}, gen.RandomOrder(r, counts, []uint16{0x100, 0x101}, nil), nil)
	if idx%2 == 0 && len(us[2].Pkts) > 120 {
		// packet 116 of the filler unit equals packet 100 in counter and payload but not in its header (transport_priority): a
		// different packet, not a duplicate (ISO 13818-1 2.4.3.3: a duplicate repeats every byte but the PCR)
		s.Packets[us[2].Pkts[116]].Header.TransportPriority = true
		s.Encode()
	}
	cr := newCleanRef(c, "giant", idx, s, &gen.Model{})
	if cr == nil {
		return
	}
	N := len(s.Packets)
	var plans [][]fkind
	plan := func(set func(f []fkind)) {
		f := make([]fkind, N)
		set(f)
		plans = append(plans, f)
	}
	whole := func(f []fkind, u *gen.Unit) {
		for _, k := range u.Pkts {
			f[k] = fDel
		}
	}
	at := func(u *gen.Unit, j int) int {
		if j >= len(u.Pkts) {
			j = len(u.Pkts) - 1
		}
		return u.Pkts[j]
	}
	plan(func(f []fkind) { whole(f, us[1]) })                  // the first survivor starts the giant unit
	plan(func(f []fkind) { whole(f, us[1]); whole(f, us[4]) }) // ... both giant units
	plan(func(f []fkind) { f[us[0].LastPkt] = fDel })          // the end of a unit is lost, the next one is small, the giant one follows
	plan(func(f []fkind) { f[us[3].LastPkt] = fDel; whole(f, us[4]) })
	plan(func(f []fkind) { whole(f, us[1]); f[at(us[2], 1023)] = fDup; f[at(us[2], 255)] = fDup })
	plan(func(f []fkind) { whole(f, us[6]) })
	for _, j := range []int{1, 255, 256, 257, 1023, 1024, 1 << 20} {
		plan(func(f []fkind) { f[at(us[2], j)] = fDel })
		plan(func(f []fkind) { f[at(us[2], j)] = fDup })
		plan(func(f []fkind) { f[at(us[5], j)] = fDup; f[at(us[2], 0)] = fDup })
	}
	// a duplicate, then 15 packets lost: the survivor carries the counter of the duplicated packet (and, in constant filler, its
	// bytes): a third packet with one counter is no duplicate (ISO 13818-1 2.4.3.3: two, and only two), the counter reveals the gap
	for _, j := range []int{100, 200 + r.IntN(50)} {
		plan(func(f []fkind) {
			f[at(us[2], j)] = fDup
			for q := 1; q <= 15; q++ {
				f[at(us[2], j+q)] = fDel
			}
		})
	}
	// ... and between the duplicate and the gap a packet without payload arrives (a PCR on its own, sent in front of the first
	// packet that is lost): it does not make the survivor a second copy either
	plan(func(f []fkind) {
		f[at(us[2], 130)] = fDup
		f[at(us[2], 131)] = fDelAFOnly
		for q := 2; q <= 15; q++ {
			f[at(us[2], 130+q)] = fDel
		}
	})
	// 15 packets lost, the survivor carries the counter and the payload of the last packet before the gap, but another header
	plan(func(f []fkind) {
		for q := 1; q <= 15; q++ {
			f[at(us[2], 100+q)] = fDel
		}
	})
	plan(func(f []fkind) { f[at(us[2], 0)] = fTEI })
	plan(func(f []fkind) { f[at(us[2], 0)] = fAFOnly; whole(f, us[1]) })
	for q := 0; q < 6; q++ {
		plan(func(f []fkind) {
			for x := 0; x < 1+r.IntN(3); x++ {
				f[r.IntN(N)] = []fkind{fDel, fDup, fDel, fTEI}[r.IntN(4)]
			}
		})
	}
	for q, f := range plans {
		if !planOK(s, f) {
			c.Count("plans_skipped_precondition")
			continue
		}
		cr.judge(c, "giant", idx, f, applyFaults(s.Packets, f, nil), "giant")
		c.Count("giant_unit_plans")
		c.Case(mon.HashStr("giant", fmt.Sprint(idx, q)), true)
	}
	c.Max("largest_unit_behind_a_gap_packets", int64(len(us[2].Pkts)))
}

// unitFaultPos describes where (if anywhere) a duplicate sits inside the unit.
func unitFaultPos(s *gen.Stream, f []fkind, u *gen.Unit) string {
	for j, k := range u.Pkts {
		if f[k] == fDup {
			switch {
			case len(u.Pkts) == 1:
				return "dup-of-single-packet-unit"
			case j == 0:
				return "dup-of-first-packet"
			case j == len(u.Pkts)-1:
				return "dup-of-last-packet"
			}
			return "dup-of-middle-packet"
		}
	}
	return "untouched"
}

func faultString(f []fkind) string {
	s := ""
	for k, x := range f {
		if x != fNone {
			s += fmt.Sprintf("%d:%s ", k, fnames[x])
		}
	}
	return s
}

// planOK checks the property's precondition for loss plans.
func planOK(s *gen.Stream, f []fkind) bool {
	seq := map[uint16][]int{}
	for k, p := range s.Packets {
		seq[p.Header.PID] = append(seq[p.Header.PID], k)
	}
	for _, idxs := range seq {
		run := 0
		for j, k := range idxs {
			if f[k] == fDel || f[k] == fTEI {
				run++
				if run > 15 {
					return false
				}
				if j == len(idxs)-1 {
					return false // no later payload packet reveals the gap
				}
			} else {
				run = 0
			}
		}
	}
	return true
}

func runC06(c *mon.Ctx) {
	n := c.Pick(160, 12000)
	for i := int64(0); i < n; i++ {
		if !c.Mine("streams", i) {
			continue
		}
		r := c.Rng("streams", i)
		var m *gen.Model
		var s *gen.Stream
		for {
			m = gen.RandomModel(r, gen.ModelOpts{MaxPES: 2, MaxPMT: 1, MaxSI: 1, MaxUnits: 4, Salt: true, MaxPESLen: 700, RichAF: true, Scrambled: i%4 == 1, SharedPMTPID: i%4 == 2})
			if len(m.PIDs) < 2 || len(m.PIDs) > 4 {
				continue
			}
			s = m.Build(r)
			if len(s.Packets) >= 6 && len(s.Packets) <= 70 {
				break
			}
		}
		cr := newCleanRef(c, "streams", i, s, m)
		if cr == nil {
			continue
		}
		N := len(s.Packets)
		// a copy of a packet that arrives damaged and marked (transport_error_indicator) next to the good one, in either order, and a
		// marked packet without payload: the receiver has every byte, nothing may go missing
		for k := 0; k < N; k++ {
			for _, x := range []fkind{fDupTEI1, fDupTEI2, fAFOnlyTEI} {
				f := make([]fkind, N)
				f[k] = x
				cr.judge(c, "streams", i, f, applyFaults(s.Packets, f, nil), "marked-copy")
				c.Count("marked_copies")
			}
		}
		// every single duplication, immediate and delayed
		for k := 0; k < N; k++ {
			for _, delay := range []int{0, 1 + r.IntN(3)} {
				f := make([]fkind, N)
				f[k] = fDup
				dd := make([]int, N)
				dd[k] = delay
				cr.judge(c, "streams", i, f, applyFaults(s.Packets, f, dd), "dup")
				c.Count("single_duplications")
				u := s.Owner[k]
				pos := "middle"
				switch {
				case len(u.Pkts) == 1:
					pos = "single-packet-unit"
				case u.FirstPkt == k:
					pos = "first"
				case u.LastPkt == k:
					pos = "last"
				}
				c.Count("dup_position_" + pos)
				kd := "pes"
				if u.Kind == gen.UnitPSI {
					kd = "psi"
				}
				c.Count("dup_on_" + kd)
				c.Case(mon.HashStr("dup", fmt.Sprint(i, k, delay)), true)
			}
		}
		// every single deletion
		for k := 0; k < N; k++ {
			f := make([]fkind, N)
			f[k] = fDel
			if !planOK(s, f) {
				c.Count("plans_skipped_precondition")
				continue
			}
			cr.judge(c, "streams", i, f, applyFaults(s.Packets, f, nil), "loss")
			c.Count("single_deletions")
			c.Case(mon.HashStr("del", fmt.Sprint(i, k)), true)
			// the same loss with a packet without payload (a PCR-only packet) as the first survivor of the PID: it carries the counter
			// of the lost packet and must not hide the gap
			for j := k + 1; j < N; j++ {
				if s.Packets[j].Header.PID == s.Packets[k].Header.PID {
					f2 := append([]fkind{}, f...)
					f2[j] = fAFOnly
					if planOK(s, f2) {
						cr.judge(c, "streams", i, f2, applyFaults(s.Packets, f2, nil), "loss")
						c.Count("deletions_followed_by_a_payloadless_packet")
					}
					break
				}
			}
		}
		// random multi-fault plans
		np := int(c.Pick(40, 150))
		for q := 0; q < np; q++ {
			f := make([]fkind, N)
			dd := make([]int, N)
			nf := 1 + r.IntN(5)
			for x := 0; x < nf; x++ {
				k := r.IntN(N)
				switch r.IntN(6) {
				case 0, 1:
					// burst of deletions on the PID of packet k
					burst := 1 + r.IntN(15)
					if r.IntN(6) == 0 {
						burst = 15
					}
					pid := s.Packets[k].Header.PID
					cnt := 0
					for j := k; j < N && cnt < burst; j++ {
						if s.Packets[j].Header.PID == pid {
							f[j] = fDel
							cnt++
						}
					}
					c.Count(fmt.Sprintf("gap_burst_%d", cnt))
				case 2:
					f[k] = fDup
					dd[k] = r.IntN(3)
				case 3:
					f[k] = fTEI
				case 4:
					f[k] = fDI
				case 5:
					f[k] = fAFOnly
				}
			}
			if !planOK(s, f) {
				c.Count("plans_skipped_precondition")
				continue
			}
			cr.judge(c, "streams", i, f, applyFaults(s.Packets, f, dd), "multi")
			c.Count("random_plans")
			c.Case(mon.HashStr("multi", fmt.Sprint(i, q)), true)
		}
		if i < 2 {
			c.Sample("streams", map[string]any{"packets": N, "pids": m.PIDs, "plans": "all single dups (immediate+delayed), all single deletions, random multi-fault plans"})
		}
	}
	// duplicates with re-stamped clocks, and packets that only look like duplicates
	for i := int64(0); i < c.Pick(300, 6000); i++ {
		if c.Mine("near-dup", i) {
			nearDuplicateCase(c, i, c.Rng("near-dup", i))
		}
	}
	// a session that restarts in the middle of a unit, flagged by discontinuity_indicator, where the counters happen to line up
	for i := int64(0); i < c.Pick(256, 4096); i++ {
		if c.Mine("flagged", i) {
			flaggedDiscontinuityCase(c, i, c.Rng("flagged", i))
		}
	}
	// giant units: units of 257, 1023 .. 3500 packets behind a gap, with a gap or a duplicate inside, and before one
	for i := int64(0); i < c.Pick(12, 240); i++ {
		if c.Mine("giant", i) {
			giantFaultCase(c, i, c.Rng("giant", i))
		}
	}
	// long streams with bursts up to 15 (needs ≥17 packets on one PID)
	nl := c.Pick(40, 5000)
	for i := int64(0); i < nl; i++ {
		if !c.Mine("bursts", i) {
			continue
		}
		r := c.Rng("bursts", i)
		m := gen.RandomModel(r, gen.ModelOpts{MaxPES: 2, MaxPMT: 0, MaxSI: 1, MaxUnits: 10, Salt: true, MaxPESLen: 900, NoPAT: true})
		s := m.Build(r)
		cr := newCleanRef(c, "bursts", i, s, m)
		if cr == nil {
			continue
		}
		N := len(s.Packets)
		for q := 0; q < 30; q++ {
			f := make([]fkind, N)
			k := r.IntN(N)
			burst := 12 + r.IntN(4)
			pid := s.Packets[k].Header.PID
			cnt := 0
			for j := k; j < N && cnt < burst; j++ {
				if s.Packets[j].Header.PID == pid {
					f[j] = fDel
					cnt++
				}
			}
			if !planOK(s, f) {
				c.Count("plans_skipped_precondition")
				continue
			}
			c.Count(fmt.Sprintf("gap_burst_%d", cnt))
			cr.judge(c, "bursts", i, f, applyFaults(s.Packets, f, nil), "loss")
			c.Count("random_plans")
			c.Case(mon.HashStr("burst", fmt.Sprint(i, q)), true)
		}
	}
	// bounded exhaustive: all fault words of length 7 over 6 letters on a 2-PID micro stream of 7 packets
	nm := c.Pick(1, 24)
	for mi := int64(0); mi < nm; mi++ {
		r := c.Rng("micro", mi)
		s, m := microStream(r)
		var cr *cleanRef
		total := 1
		for k := 0; k < 7; k++ {
			total *= 6
		}
		for w := 0; w < total; w++ {
			if !c.Mine("micro", mi*int64(total)+int64(w)) {
				continue
			}
			if cr == nil {
				cr = newCleanRef(c, "micro", mi, s, m)
				if cr == nil {
					break
				}
			}
			f := make([]fkind, 7)
			x := w
			for k := 0; k < 7; k++ {
				f[k] = fkind(x % 6)
				x /= 6
			}
			if !planOK(s, f) {
				c.Count("micro_words_skipped_precondition")
				c.Count("micro_words")
				continue
			}
			cr.judge(c, "micro", mi*int64(total)+int64(w), f, applyFaults(s.Packets, f, nil), "word")
			c.Count("micro_words")
			c.CaseN(1)
		}
	}
}

// microStream builds 7 packets on 2 PIDs: PID A (PES) units of 2+1+1 packets, PID B (SI) units of 2+1 packets; every packet
// has an adaptation field with a flags byte so that discontinuity_indicator can be set without moving bytes.
func microStream(r *rand.Rand) (*gen.Stream, *gen.Model) {
	a, b := uint16(0x100), uint16(0x11)
	mk := func(pid uint16, npk int, serial int) *gen.Unit {
		var u *gen.Unit
		if pid == b {
			u = gen.NewPSIUnit(r, pid, serial, []*astits.PSISection{gen.SimpleSection(r, refts.KindSDT, serial, (npk-1)*150)}, 0, false)
		} else {
			u = gen.NewPESUnit(r, pid, serial, gen.PESOpts{DataLen: 30 + (npk-1)*150, Unbounded: serial%2 == 0, Salt: true})
		}
		sizes := []int{len(u.Payload)}
		if npk == 2 {
			sizes = []int{len(u.Payload) / 2, len(u.Payload) - len(u.Payload)/2}
		}
		u.PlanChunks(sizes)
		return u
	}
	per := map[uint16][]*gen.Unit{a: {mk(a, 2, 1), mk(a, 1, 2), mk(a, 1, 3)}, b: {mk(b, 2, 4), mk(b, 1, 5)}}
	m := &gen.Model{PerPID: per, PIDs: []uint16{b, a}, Hold: map[uint16]int{}, CC0: map[uint16]uint8{a: 14, b: 3}, Early: map[uint16]bool{}}
	order := []uint16{a, b, a, b, a, b, a}
	return m.BuildOrder(order), m
}
