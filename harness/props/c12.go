package props

import (
	"bytes"
	"context"
	"errors"
	"fmt"
	"math/big"
	"math/rand/v2"

	astits "github.com/asticode/go-astits"

	"verifharness/gen"
	"verifharness/mon"
	"verifharness/refts"
)

func init() {
	register(&Prop{
		ID:    "C12",
		Level: "exploration",
		Rule: "(the write direction also with values behind flags that are not set and with bits above the width of every narrow field: the flags / the bits that are written decide) PES packets encoded by the reference codec from random/swept header models (all 256 flag bytes x 32 extension subsets incl. pack_header_field, single-bit clock values, all trick mode bytes, " +
			"CRC values, header stuffing, four PES_packet_length modes) and decoded by the library (NextData through TS packets and the parsePESData hook); writer-supported headers " +
			"written with WriteData and compared byte for byte after independent reassembly; units of 65 500 bytes .. 1 MiB + 1 through NextData (stage big); PES_header_data_length rewritten to every value below what the flags need: payload boundaries (stage short-header); ClockReference.Duration against big.Int; distinct = hash of the PES bytes; " +
			"non-trivial = optional header with at least one optional field, or a non-exact length mode",
		Assumptions: []string{"reference = refts/pes.go from ISO 13818-1 2.4.3.6-7 (anchored by a hand-assembled PTS vector in the self check)",
			"pack_header_field: the struct keeps pack_field_length only; the pack_header() bytes must be stepped over so that the listed fields after it decode correctly",
			"writer policy as documented: marker '10', exact header_data_length, no header stuffing, PES_packet_length 0 for stream ids 0xE0/0xFD or above 65535, CRC and pack header flags not writable",
			"Duration: truncating each term or the sum are both accepted"},
		Shards: 32,
		Run:    runC12,
		Guards: func(m *mon.Merged, tier string) []string {
			var out []string
			need(m, &out, "pes_decoded_and_compared", 80000)
			need(m, &out, "pes_decoded_through_ts", 10000)
			need(m, &out, "pes_written_and_compared", 20000)
			need(m, &out, "durations_checked", 500000)
			need(m, &out, "big_units_decoded", 15)
			need(m, &out, "short_header_length_cases", 10000)
			needSet(m, &out, "flag_bytes", 256)
			needSet(m, &out, "ext_subsets", 32)
			needSet(m, &out, "trick_bytes", 256)
			needSet(m, &out, "length_modes", 4)
			return out
		},
	})
}

type pesCase struct {
	h    *astits.PESHeader
	data []byte
	enc  refts.PESEnc
	mode string
}

func pesNontrivial(pc *pesCase) bool {
	o := pc.h.OptionalHeader
	return pc.mode != "exact" || (o != nil && (o.PTSDTSIndicator != 0 || o.HasESCR || o.HasESRate || o.HasDSMTrickMode || o.HasAdditionalCopyInfo || o.HasCRC || o.HasExtension))
}

// checkPESDecode encodes the case with the reference and compares the library's decoding.
func checkPESDecode(c *mon.Ctx, stage string, idx int64, r *rand.Rand, pc *pesCase, viaTS bool) {
	w := &refts.W{Rnd: r}
	b, err := refts.EncodePES(pc.h, pc.data, pc.enc, w)
	if err != nil {
		c.Note("unencodable PES model: " + err.Error())
		return
	}
	want, werr := refts.DecodePES(b)
	data := map[string]any{"pes": mon.Hex(b, 600), "mode": pc.mode}
	idClass := ""
	if gen.IsNoHeaderID(pc.h.StreamID) && pc.h.StreamID != 0xBE && pc.h.StreamID != 0xBF {
		idClass = "/stream-id-without-optional-header"
	}
	judge := func(path string, got *astits.PESData, gerr error, nothing bool) {
		if idClass != "" {
			// Table 2-21 stream ids the library parses with an optional header: one class whatever the random content makes of it
			bad := false
			switch {
			case werr != nil:
				bad = gerr == nil && !nothing
			case gerr != nil || nothing:
				bad = true
			default:
				bad = mon.Diff(got, want, nil) != ""
			}
			if bad {
				c.Violate("C12/decode/stream-id-without-optional-header-misparsed", stage, idx, fmt.Sprintf("%s: stream_id %#02x carries PES_packet_data_bytes directly after PES_packet_length (ISO 13818-1 Table 2-21); library result: err=%v nothing=%v diff=%s", path, pc.h.StreamID, gerr, nothing, mon.Diff(got, want, nil)), data)
			}
			return
		}
		switch {
		case werr != nil:
			if gerr == nil && !nothing {
				c.Violate("C12/decode/undecodable-accepted:"+pc.mode+idClass, stage, idx, fmt.Sprintf("%s: reference rejects (%v) but the library delivered %d data bytes", path, werr, len(got.Data)), data)
			}
		case gerr != nil || nothing:
			c.Violate("C12/decode/valid-rejected:"+pc.mode+idClass, stage, idx, fmt.Sprintf("%s: err=%v nothing=%v", path, gerr, nothing), data)
		default:
			if d := mon.Diff(got, want, nil); d != "" {
				c.Violate("C12/decode/field-differs:"+fieldOf(d)+idClass, stage, idx, path+": library vs reference: "+d, data)
			}
		}
	}
	var got *astits.PESData
	var gerr error
	pin := b
	if idx%2 == 1 {
		pin = reusedBuf("c12", b)
	}
	if p, v, st := mon.Guarded(func() { got, gerr = astits.VerifParsePESData(pin) }); p {
		c.Violate("C12/decode/panic", stage, idx, fmt.Sprintf("%v\n%s", v, st), data)
		return
	}
	judge("parsePESData", got, gerr, false)
	if gerr == nil && werr == nil && got != nil && idClass == "" {
		// the decoded value must not alias the buffer it was parsed from
		scr := append([]byte{}, b...)
		g2, e2 := astits.VerifParsePESData(scr)
		for k := range scr {
			scr[k] ^= 0x5A
		}
		if e2 == nil {
			if d := mon.Diff(g2, want, nil); d != "" {
				c.Violate("C12/decode/value-aliases-parse-buffer:"+fieldOf(d), stage, idx, "after the parse buffer was overwritten: "+d, data)
			}
		}
	}
	c.Count("pes_decoded_and_compared")
	if viaTS {
		u := &gen.Unit{PID: 0x100, Kind: gen.UnitPES, Payload: b}
		u.PlanChunks(gen.RandomChunks(r, len(b), 0, 0, r.IntN(2) == 0))
		s := gen.Mux(map[uint16][]*gen.Unit{0x100: {u}}, repeatPID(0x100, len(u.Plan)), nil)
		run := RunDemux(s.Bytes, baseCfg("data"))
		if run.Panic != "" {
			c.Violate("C12/decode/panic", stage, idx, run.Panic, data)
			return
		}
		ds := run.Datas()
		errs := run.Errors()
		switch {
		case len(ds) == 1 && ds[0].PES != nil && len(errs) == 0:
			judge("NextData", ds[0].PES, nil, false)
		case len(ds) == 0 && len(errs) > 0:
			judge("NextData", nil, errs[0], false)
		case len(ds) == 0:
			// the end-of-stream flush logs parse errors instead of returning them
			judge("NextData", nil, nil, true)
		default:
			c.Violate("C12/decode/ts-path-result-count", stage, idx, fmt.Sprintf("%d data, %d errors for one PES unit", len(ds), len(errs)), data)
		}
		c.Count("pes_decoded_through_ts")
	}
	if o := pc.h.OptionalHeader; o != nil {
		fb := int(o.PTSDTSIndicator) << 6
		for k, v := range []bool{o.HasESCR, o.HasESRate, o.HasDSMTrickMode, o.HasAdditionalCopyInfo, o.HasCRC, o.HasExtension} {
			if v {
				fb |= 0x20 >> uint(k)
			}
		}
		c.Seen("flag_bytes", fmt.Sprint(fb))
		if o.HasExtension {
			e := 0
			for k, v := range []bool{o.HasPackHeaderField, o.HasPrivateData, o.HasProgramPacketSequenceCounter, o.HasPSTDBuffer, o.HasExtension2} {
				if v {
					e |= 16 >> uint(k)
				}
			}
			c.Seen("ext_subsets", fmt.Sprint(e))
		}
	}
	c.Seen("length_modes", pc.mode)
	c.Seen("stream_ids", fmt.Sprintf("%02x", pc.h.StreamID))
	c.Case(mon.HashBytes("pes-dec", b), pesNontrivial(pc))
}

func newPESCase(r *rand.Rand, flags, ext int) *pesCase {
	pc := &pesCase{mode: "exact"}
	withHeader := r.IntN(8) != 0
	id := gen.StreamID(r, withHeader)
	if !withHeader && r.IntN(2) == 0 {
		id = []uint8{0xBE, 0xBF}[r.IntN(2)]
	}
	pc.h = &astits.PESHeader{StreamID: id}
	if withHeader {
		pc.h.OptionalHeader = gen.OptionalHeader(r, flags, ext, false)
		if r.IntN(3) == 0 {
			pc.enc.HeaderStuffing = r.IntN(33)
		}
	}
	var n int
	switch r.IntN(5) {
	case 0:
		n = r.IntN(4)
	case 1:
		n = 150 + r.IntN(60)
	default:
		n = r.IntN(1200)
	}
	pc.data = gen.Bytes(r, n)
	return pc
}

func setLenMode(r *rand.Rand, pc *pesCase) {
	hdr := 0
	if pc.h.OptionalHeader != nil {
		b, _ := refts.EncodePES(pc.h, nil, pc.enc, nil)
		hdr = len(b) - 6
	}
	real := hdr + len(pc.data)
	switch r.IntN(6) {
	case 0:
		pc.mode = "zero"
		pc.enc.LengthZero = true
	case 1:
		if len(pc.data) > 0 && real > 1 {
			pc.mode = "shorter"
			pc.enc.LengthOverride = hdr + r.IntN(len(pc.data))
			if pc.enc.LengthOverride == 0 {
				pc.enc.LengthOverride = 1
				if hdr > 1 {
					pc.mode = "exact"
					pc.enc.LengthOverride = 0
				}
			}
		}
	case 2:
		pc.mode = "longer"
		pc.enc.LengthOverride = real + 1 + r.IntN(300)
		if pc.enc.LengthOverride > 0xffff {
			pc.enc.LengthOverride = 0xffff
		}
	}
}

// shortHeaderCase: PES_header_data_length smaller than what the flags announce (a malformed header: its fields are whatever the
// bytes give). Where the payload starts and ends is still said by the two length fields: whenever the library delivers data for such a
// unit, they are the bytes from 9 + PES_header_data_length up to the end PES_packet_length gives (the end of the unit when it is 0) —
// never bytes from behind that end, never a payload that has lost its first bytes.
func shortHeaderCase(c *mon.Ctx, idx int64, r *rand.Rand) {
	pc := newPESCase(r, -1, -1)
	for pc.h.OptionalHeader == nil || gen.IsNoHeaderID(pc.h.StreamID) {
		pc = newPESCase(r, -1, -1)
	}
	pc.enc = refts.PESEnc{LengthZero: idx%3 == 0}
	if len(pc.data) < 4 {
		pc.data = gen.Bytes(r, 4+r.IntN(40))
	}
	b, err := refts.EncodePES(pc.h, pc.data, pc.enc, nil)
	if err != nil || len(b) < 10 || int(b[8]) == 0 {
		return
	}
	need := int(b[8])
	h := r.IntN(need)
	if idx%4 == 0 {
		h = []int{0, need - 1, need / 2}[r.IntN(3)]
	}
	b = append([]byte{}, b...)
	b[8] = byte(h)
	end := len(b)
	if l := int(b[4])<<8 | int(b[5]); l != 0 {
		end = 6 + l
	}
	pad := 0
	if idx%2 == 0 {
		pad = 1 + r.IntN(30) // bytes that follow the PES packet in its unit
	}
	in := append(append([]byte{}, b...), bytes.Repeat([]byte{0xff}, pad)...)
	if pc.enc.LengthZero {
		end = len(in)
	}
	want := in[9+h : end]
	data := map[string]any{"pes": mon.Hex(in, 400), "header_data_length": h, "needed_by_the_flags": need}
	check := func(path string, got *astits.PESData, gerr error) {
		c.Count("short_header_length_cases")
		if gerr != nil || got == nil {
			c.Count("short_header_length_rejected")
			return
		}
		if !bytes.Equal(got.Data, want) {
			c.Violate("C12/decode/payload-boundaries-with-short-header-length", "short-header", idx, fmt.Sprintf("%s: PES_header_data_length %d (the flags need %d), PES_packet_length gives the end %d of %d bytes: data delivered %x (%d bytes), the bytes between the two boundaries are %x (%d bytes)",
				path, h, need, end, len(in), clipBytes(got.Data, 24), len(got.Data), clipBytes(want, 24), len(want)), data)
		}
	}
	var got *astits.PESData
	var gerr error
	if p, v, st := mon.Guarded(func() { got, gerr = astits.VerifParsePESData(append([]byte{}, in...)) }); p {
		c.Violate("C12/decode/panic", "short-header", idx, fmt.Sprintf("%v\n%s", v, st), data)
		return
	}
	check("parsePESData", got, gerr)
	if idx%2 == 0 {
		// through the Demuxer: the unit is the PES packet followed by 0xff bytes up to the end of its last packet
		ls := newLongStream()
		ls.unit(0x100, in)
		ds, errs, pn := drainData(ls.b)
		if pn != "" {
			c.Violate("C12/decode/panic", "short-header", idx, pn, data)
			return
		}
		if len(ds) == 1 && ds[0].PES != nil && len(errs) == 0 {
			check("NextData", ds[0].PES, nil)
		} else {
			check("NextData", nil, errors.New("nothing delivered"))
		}
	}
	c.Case(mon.HashBytes("pes-shorthdr", in), true)
}

func runC12(c *mon.Ctx) {
	for i := int64(0); i < c.Pick(20000, 1000000); i++ {
		if c.Mine("short-header", i) {
			shortHeaderCase(c, i, c.Rng("short-header", i))
		}
	}
	// stage flags: every flag byte x every extension subset
	for f := int64(0); f < 256*32; f++ {
		if !c.Mine("flags", f) {
			continue
		}
		r := c.Rng("flags", f)
		reps := int(c.Pick(12, 400))
		for k := 0; k < reps; k++ {
			pc := newPESCase(r, int(f)&255, int(f)>>8)
			if pc.h.OptionalHeader == nil {
				pc.h.StreamID = gen.StreamID(r, true)
				pc.h.OptionalHeader = gen.OptionalHeader(r, int(f)&255, int(f)>>8, false)
			}
			if k%3 == 2 {
				setLenMode(r, pc)
			}
			checkPESDecode(c, "flags", f, r, pc, k%6 == 0)
		}
	}
	// stage clockbits: every single-bit value of PTS, DTS, ESCR base/extension
	for bit := int64(0); bit < 44; bit++ {
		if !c.Mine("clockbits", bit) {
			continue
		}
		r := c.Rng("clockbits", bit)
		var base, ext int64
		switch {
		case bit < 33:
			base = 1 << uint(bit)
		case bit < 42:
			ext = 1 << uint(bit-33)
		case bit == 42:
			base, ext = 1<<33-1, 511
		}
		for which := 0; which < 3; which++ {
			o := &astits.PESOptionalHeader{MarkerBits: 2}
			switch which {
			case 0:
				o.PTSDTSIndicator, o.PTS = 2, &astits.ClockReference{Base: base}
			case 1:
				o.PTSDTSIndicator, o.PTS, o.DTS = 3, &astits.ClockReference{Base: gen.Clock33(r)}, &astits.ClockReference{Base: base}
			case 2:
				o.HasESCR, o.ESCR = true, &astits.ClockReference{Base: base, Extension: ext}
			}
			pc := &pesCase{mode: "exact", h: &astits.PESHeader{StreamID: 0xE0, OptionalHeader: o}, data: gen.Bytes(r, 20)}
			checkPESDecode(c, "clockbits", bit, r, pc, true)
			c.Seen("clock_bits", fmt.Sprintf("%d/%d", which, bit))
		}
	}
	// stage trick: all 256 trick mode bytes; stage crc: every single-bit value + random
	for b := int64(0); b < 256; b++ {
		if !c.Mine("trick", b) {
			continue
		}
		r := c.Rng("trick", b)
		o := &astits.PESOptionalHeader{MarkerBits: 2, HasDSMTrickMode: true, DSMTrickMode: gen.TrickMode(byte(b))}
		pc := &pesCase{mode: "exact", h: &astits.PESHeader{StreamID: 0xE0, OptionalHeader: o}, data: gen.Bytes(r, 10)}
		// encode the raw byte itself (reserved bits as given) by patching the reference encoding
		w := &refts.W{}
		enc, _ := refts.EncodePES(pc.h, pc.data, pc.enc, w)
		enc[9] = byte(b)
		want, _ := refts.DecodePES(enc)
		got, err := astits.VerifParsePESData(enc)
		if err != nil {
			c.Violate("C12/decode/valid-rejected:trick", "trick", b, err.Error(), nil)
		} else if d := mon.Diff(got, want, nil); d != "" {
			c.Violate("C12/decode/field-differs:"+fieldOf(d), "trick", b, fmt.Sprintf("trick mode byte %#02x: %s", b, d), map[string]any{"pes": mon.Hex(enc, 40)})
		}
		c.Seen("trick_bytes", fmt.Sprint(b))
		c.Case(mon.HashBytes("trick", enc), true)
		for k := 0; k < 20; k++ {
			var crc uint16
			if k < 16 {
				crc = 1 << uint(k)
			} else {
				crc = uint16(b)<<8 | uint16(r.UintN(256))
			}
			o := &astits.PESOptionalHeader{MarkerBits: 2, HasCRC: true, CRC: crc}
			pc := &pesCase{mode: "exact", h: &astits.PESHeader{StreamID: 0xC0, OptionalHeader: o}, data: gen.Bytes(r, 10)}
			checkPESDecode(c, "trick", b, r, pc, false)
			c.Count("crc_values_checked")
		}
	}
	// stage ids: every stream id 0xBC..0xFF with / without optional header as Table 2-21 prescribes
	for id := int64(0xBC); id <= 0xFF; id++ {
		if !c.Mine("ids", id) {
			continue
		}
		r := c.Rng("ids", id)
		for k := 0; k < int(c.Pick(10, 200)); k++ {
			pc := &pesCase{mode: "exact", h: &astits.PESHeader{StreamID: uint8(id)}, data: gen.Bytes(r, 4+r.IntN(300))}
			if !gen.IsNoHeaderID(uint8(id)) {
				pc.h.OptionalHeader = gen.OptionalHeader(r, -1, -1, false)
			}
			if k%2 == 1 {
				setLenMode(r, pc)
			}
			checkPESDecode(c, "ids", id, r, pc, k%4 == 0)
		}
	}
	// stage random decode
	n := c.Pick(300000, 15000000)
	for i := int64(0); i < n; i++ {
		if !c.Mine("random", i) {
			continue
		}
		r := c.Rng("random", i)
		pc := newPESCase(r, -1, -1)
		// keep the six Table 2-21 ids the library is known to mis-classify in the dedicated "ids" stage
		if gen.IsNoHeaderID(pc.h.StreamID) && pc.h.StreamID != 0xBE && pc.h.StreamID != 0xBF {
			pc.h.StreamID = 0xBF
		}
		setLenMode(r, pc)
		checkPESDecode(c, "random", i, r, pc, i%5 == 0)
		if i < 2 {
			b, _ := refts.EncodePES(pc.h, pc.data, pc.enc, nil)
			c.Sample("random", map[string]any{"pes_head": mon.Hex(b, 40), "mode": pc.mode, "data_len": len(pc.data)})
		}
	}
	// stage big: units around and far above what a 16 bit length can describe (PES_packet_length 0: everything up to the next unit),
	// decoded directly and through the Demuxer
	bigSizes := []int{65500, 65520, 65527, 65528, 65529, 65535, 65536, 65541, 65542, 70000, 131071, 131072, 200000, 1 << 20, 1<<20 + 1}
	for i := int64(0); i < c.Pick(int64(len(bigSizes)), int64(8*len(bigSizes))); i++ {
		if !c.Mine("big", i) {
			continue
		}
		r := c.Rng("big", i)
		pc := newPESCase(r, -1, -1)
		if gen.IsNoHeaderID(pc.h.StreamID) {
			pc.h.StreamID = 0xE0 + uint8(i%16)
		}
		n := bigSizes[int(i)%len(bigSizes)]
		if int(i) >= len(bigSizes) {
			n += r.IntN(200) - 100
		}
		pc.data = gen.Bytes(r, n)
		pc.mode, pc.enc.LengthZero = "zero", true
		if hb, _ := refts.EncodePES(pc.h, nil, refts.PESEnc{HeaderStuffing: pc.enc.HeaderStuffing}, nil); len(hb)-6+n <= 0xffff && i%2 == 0 {
			pc.mode, pc.enc.LengthZero = "exact", false
		}
		checkPESDecode(c, "big", i, r, pc, true)
		c.Count("big_units_decoded")
		c.Max("largest_unit_decoded_bytes", int64(n))
	}
	// stage encode: WriteData vs reference encoding
	ne := c.Pick(120000, 6000000)
	for i := int64(0); i < ne; i++ {
		if !c.Mine("encode", i) {
			continue
		}
		r := c.Rng("encode", i)
		checkPESEncode(c, "encode", i, r, int(i)&255, int(i>>8)&15)
	}
	// stage duration
	for blk := int64(0); blk < 512; blk++ {
		if !c.Mine("duration", blk) {
			continue
		}
		r := c.Rng("duration", blk)
		ext := blk
		bases := []int64{0, 1<<33 - 1, 1<<33 - 2, 90000, 89999, 1}
		for b := 0; b < 33; b++ {
			bases = append(bases, 1<<uint(b))
		}
		nrand := int(c.Pick(2000, 40000))
		for k := 0; k < nrand; k++ {
			bases = append(bases, int64(r.Uint64N(1<<33)))
		}
		for _, base := range bases {
			cr := astits.ClockReference{Base: base, Extension: ext}
			got := cr.Duration().Nanoseconds()
			t1 := new(big.Int).Div(new(big.Int).Mul(big.NewInt(base), big.NewInt(1e9)), big.NewInt(90000))
			t2 := new(big.Int).Div(new(big.Int).Mul(big.NewInt(ext), big.NewInt(1e9)), big.NewInt(27000000))
			perTerm := new(big.Int).Add(t1, t2)
			// exact sum: (base*300 + ext) * 1e9 / 27e6
			sum := new(big.Int).Div(new(big.Int).Mul(new(big.Int).Add(new(big.Int).Mul(big.NewInt(base), big.NewInt(300)), big.NewInt(ext)), big.NewInt(1e9)), big.NewInt(27000000))
			if !(perTerm.IsInt64() && perTerm.Int64() == got) && !(sum.IsInt64() && sum.Int64() == got) {
				c.Violate("C12/duration/wrong", "duration", blk, fmt.Sprintf("base=%d ext=%d: Duration()=%dns, exact %s (per term) / %s (sum)", base, ext, got, perTerm, sum), nil)
			}
			c.Count("durations_checked")
		}
		c.CaseN(int64(len(bases)))
	}
}

// checkPESEncode writes one PES through a Muxer and compares the reassembled PES bytes with the reference encoding.
func checkPESEncode(c *mon.Ctx, stage string, idx int64, r *rand.Rand, flags, ext int) {
	withHeader := r.IntN(10) != 0
	h := &astits.PESHeader{}
	if withHeader {
		h.StreamID = gen.StreamID(r, true)
		h.OptionalHeader = gen.OptionalHeader(r, flags, ext, true)
	} else {
		h.StreamID = []uint8{0xBE, 0xBF}[r.IntN(2)]
		if r.IntN(2) == 0 {
			// an application may fill the same optional header for all its streams: these stream ids carry none, it is ignored
			h.OptionalHeader = gen.OptionalHeader(r, flags, ext, true)
		}
	}
	var n int
	switch r.IntN(6) {
	case 0:
		n = 1 + r.IntN(3)
	case 1:
		n = 184*(1+r.IntN(4)) - 30 + r.IntN(35)
	case 2:
		if idx%50 == 0 {
			n = 65500 + r.IntN(100)
		} else {
			n = 1 + r.IntN(400)
		}
	default:
		n = 1 + r.IntN(700)
	}
	data := gen.Bytes(r, n)
	model := mon.Clone(h)
	if gen.IsNoHeaderID(model.StreamID) {
		model.OptionalHeader = nil
	}
	if idx%2 == 1 {
		// the struct fields a parser fills in as a by-product (lengths) hold whatever the unit had where it came from: a remultiplexer
		// hands such headers to WriteData. What is written is determined by the content, not by these fields
		h.PacketLength = uint16(r.UintN(1 << 16))
		if h.OptionalHeader != nil {
			h.OptionalHeader.HeaderLength = uint8(r.UintN(256))
		}
		c.Count("headers_written_with_stale_length_fields")
	}
	if oh := h.OptionalHeader; oh != nil && idx%3 == 0 {
		// values behind flags that are NOT set (a header struct reused from another unit, a caller that always fills both time
		// stamps and announces the DTS only when it differs): the flags decide what is written, and how
		if oh.PTSDTSIndicator != astits.PTSDTSIndicatorBothPresent {
			oh.DTS = &astits.ClockReference{Base: int64(r.Uint64N(1 << 33))}
		}
		if oh.PTSDTSIndicator == astits.PTSDTSIndicatorNoPTSOrDTS {
			oh.PTS = &astits.ClockReference{Base: int64(r.Uint64N(1 << 33))}
		}
		if !oh.HasESCR {
			oh.ESCR = &astits.ClockReference{Base: int64(r.Uint64N(1 << 33)), Extension: int64(r.IntN(300))}
		}
		if !oh.HasDSMTrickMode {
			oh.DSMTrickMode = &astits.DSMTrickMode{TrickModeControl: uint8(r.IntN(8))}
		}
		if !oh.HasESRate {
			oh.ESRate = uint32(r.UintN(1 << 22))
		}
		if !oh.HasPrivateData {
			oh.PrivateData = gen.Bytes(r, 16)
		}
		if !oh.HasExtension2 {
			oh.Extension2Data = gen.Bytes(r, 1+r.IntN(20))
		}
		c.Count("headers_written_with_values_behind_unset_flags")
	}
	if oh := h.OptionalHeader; oh != nil && idx%3 == 1 {
		// bits above the width of a field (the structs keep 1 .. 22 bit fields in uint8 / uint16 / uint32): cut off when the field
		// is written - and what follows a field goes by the bits that are written
		oh.PTSDTSIndicator |= 4 << uint(r.IntN(6))
		oh.ScramblingControl |= 4 << uint(r.IntN(6))
		oh.ESRate |= 1 << uint(22+r.IntN(10))
		oh.AdditionalCopyInfo |= 0x80
		oh.PacketSequenceCounter |= 0x80
		oh.MPEG1OrMPEG2ID |= 2 << uint(r.IntN(7))
		oh.OriginalStuffingLength |= 0x40 << uint(r.IntN(2))
		oh.PSTDBufferScale |= 2 << uint(r.IntN(7))
		oh.PSTDBufferSize |= 1 << uint(13+r.IntN(3))
		if tm := oh.DSMTrickMode; tm != nil {
			tm.TrickModeControl |= 8 << uint(r.IntN(5))
			tm.FieldID |= 4 << uint(r.IntN(6))
			tm.IntraSliceRefresh |= 2 << uint(r.IntN(7))
			tm.FrequencyTruncation |= 4 << uint(r.IntN(6))
			tm.RepeatControl |= 32 << uint(r.IntN(3))
		}
		c.Count("headers_written_with_bits_above_the_field_widths")
	}
	enc := refts.PESEnc{LengthZero: h.StreamID == 0xE0 || h.StreamID == 0xFD}
	want, err := refts.EncodePES(model, data, enc, nil)
	if err != nil {
		c.Note("unencodable: " + err.Error())
		return
	}
	out := &bytes.Buffer{}
	m := astits.NewMuxer(context.Background(), out)
	m.AddElementaryStream(astits.PMTElementaryStream{ElementaryPID: 0x100, StreamType: astits.StreamTypePrivateData})
	m.SetPCRPID(0x100)
	var werr error
	if p, v, st := mon.Guarded(func() {
		_, werr = m.WriteData(&astits.MuxerData{PID: 0x100, PES: &astits.PESData{Header: h, Data: append([]byte{}, data...)}})
	}); p {
		c.Violate("C12/encode/panic", stage, idx, fmt.Sprintf("%v\n%s", v, st), nil)
		return
	}
	info := map[string]any{"reference": mon.Hex(want, 300), "data_len": n}
	if werr != nil {
		c.Violate("C12/encode/error", stage, idx, werr.Error(), info)
		return
	}
	log, tail := refts.DecodeLog(out.Bytes())
	if tail != 0 {
		c.Violate("C12/encode/partial-packet", stage, idx, fmt.Sprintf("%d trailing bytes", tail), info)
		return
	}
	for k, e := range log.Errs {
		if e != nil {
			c.Violate("C12/encode/nonconformant-packet", stage, idx, fmt.Sprintf("packet %d: %v", k, e), info)
			return
		}
	}
	units, _ := refts.Reassemble(log.Packets)
	var got []byte
	cnt := 0
	for _, u := range units {
		if u.PID == 0x100 {
			got = u.Payload
			cnt++
		}
	}
	if cnt != 1 {
		c.Violate("C12/encode/unit-count", stage, idx, fmt.Sprintf("%d units on the elementary PID", cnt), info)
		return
	}
	if !bytes.Equal(got, want) {
		fd := firstDiff(got, want)
		region := "payload"
		if fd < len(want)-len(data) {
			region = "header"
		}
		if fd >= 4 && fd < 6 {
			region = "PES_packet_length"
		}
		info["library"] = mon.Hex(got, 300)
		c.Violate("C12/encode/bytes-differ:"+region, stage, idx, fmt.Sprintf("first difference at byte %d (library %d bytes, reference %d bytes)", fd, len(got), len(want)), info)
	}
	c.Count("pes_written_and_compared")
	c.Case(mon.HashBytes("pes-enc", want), true)
}
