package props

import (
	"context"
	"fmt"
	"math/rand/v2"

	astits "github.com/asticode/go-astits"

	"verifharness/gen"
	"verifharness/mon"
	"verifharness/refts"
)

// HOp is one operation of a Muxer history.
type HOp struct {
	Kind string // add, remove, pcr, tables, data, packet
	PID  uint16 // add: requested PID (0 = auto); remove / pcr / data: the PID
	ES   *astits.PMTElementaryStream
	Data *astits.MuxerData
	Pkt  *astits.Packet
	Slot int // add(auto)/data on an auto stream: index of the auto stream (PID learnt at run time)
	Auto bool
	// SharedAF > 0: the caller keeps ONE PacketAdaptationField object (number SharedAF) and passes the same pointer to every
	// such WriteData call, as the doc comment of WriteData anticipates (content = the adaptation field of the first such op)
	SharedAF int
	// SharedEdit (with SharedAF > 0): before this call the caller edits its adaptation field object — the content becomes SharedEdit —
	// but leaves StuffingLength as the previous call left it (the documented by-product WriteData manages)
	SharedEdit *astits.PacketAdaptationField
	// Edge: the PES optional header of this data op sits at the edge of the write contract (see edgeHeaders): the Muxer may accept
	// or refuse it; when it accepts, the unit must be delivered but its header is not compared with the reference encoding
	Edge bool
}

// HCall is what was observed for one operation.
type HCall struct {
	Op         HOp
	N          int
	Err        error
	Start, End int // byte offsets of the writer output delivered during the call
	Panic      string
	PID        uint16 // effective PID (auto streams resolved)
	// model state right after the call
	Streams []*hStream
	PCRPID  uint16
	Changed bool // the call changed the PMT content (successful add/remove, any SetPCRPID)
}

type hStream struct {
	PID   uint16
	Known bool // false while an auto-assigned PID has not been learnt yet
	ES    *astits.PMTElementaryStream
	Slot  int
}

// HistRun is an executed history.
type HistRun struct {
	Calls  []*HCall
	Out    []byte
	Period int
	Tap    *mon.WTap
}

// runHistory executes ops on a fresh Muxer. Auto-assigned PIDs are learnt from the next PMT the muxer emits.
func runHistory(ops []HOp, period int) *HistRun {
	st := newHistStepper(ops, period)
	for !st.Done() {
		st.Step()
	}
	return st.Run()
}

// histStepper executes a history one operation at a time (so that several Muxers can be driven in turns).
type histStepper struct {
	ops           []HOp
	k             int
	stopped       bool
	tap           *mon.WTap
	hr            *HistRun
	m             *astits.Muxer
	streams       []*hStream
	pcr           uint16
	auto          map[int]*hStream
	shared        map[int]*astits.PacketAdaptationField
	sharedContent map[int]*astits.PacketAdaptationField
}

func newHistStepper(ops []HOp, period int) *histStepper {
	tap := mon.NewWTap()
	return &histStepper{ops: ops, tap: tap, hr: &HistRun{Period: period, Tap: tap},
		m:    astits.NewMuxer(context.Background(), tap, astits.MuxerOptTablesRetransmitPeriod(period)),
		auto: map[int]*hStream{}, shared: map[int]*astits.PacketAdaptationField{}, sharedContent: map[int]*astits.PacketAdaptationField{}}
}

func (h *histStepper) Done() bool { return h.stopped || h.k >= len(h.ops) }

// Run returns the history executed so far.
func (h *histStepper) Run() *HistRun {
	h.hr.Out = h.tap.Buf
	return h.hr
}

func (h *histStepper) Step() {
	if h.Done() {
		return
	}
	k, op := h.k, h.ops[h.k]
	h.k++
	tap, m, ops, shared, sharedContent, auto := h.tap, h.m, h.ops, h.shared, h.sharedContent, h.auto
	{
		if op.Kind == "data" && op.SharedAF > 0 && op.Data.AdaptationField != nil {
			if shared[op.SharedAF] == nil {
				shared[op.SharedAF] = mon.Clone(op.Data.AdaptationField)
				sharedContent[op.SharedAF] = mon.Clone(op.Data.AdaptationField)
			}
			if op.SharedEdit != nil {
				// the caller edits the content of its objects: what the library left in the by-product fields (stuffing length, the
				// Length of the field and of its extension) stays as it is, and the extension is the same object as before
				sh := shared[op.SharedAF]
				keep, keepLen, oldExt := sh.StuffingLength, sh.Length, sh.AdaptationExtensionField
				*sh = *mon.Clone(op.SharedEdit)
				sh.StuffingLength, sh.Length = keep, keepLen
				if oldExt != nil && sh.AdaptationExtensionField != nil {
					l := oldExt.Length
					*oldExt = *sh.AdaptationExtensionField
					oldExt.Length = l
					sh.AdaptationExtensionField = oldExt
				}
				sharedContent[op.SharedAF] = mon.Clone(op.SharedEdit)
			}
			// the oracle must compare with the content really passed
			nd := *op.Data
			nd.AdaptationField = mon.Clone(sharedContent[op.SharedAF])
			op.Data = &nd
			ops[k] = op
		}
		call := &HCall{Op: op, Start: len(tap.Buf)}
		tap.Call = k
		pid := op.PID
		if (op.Kind == "data" || op.Kind == "remove" || op.Kind == "pcr") && op.Auto {
			if s := auto[op.Slot]; s != nil && s.Known {
				pid = s.PID
			} else {
				pid = 0x1ffd // unknown yet: behaves as an unknown PID
			}
		}
		call.PID = pid
		p, v, st := mon.Guarded(func() {
			switch op.Kind {
			case "add":
				es := mon.Clone(*op.ES)
				es.ElementaryPID = op.PID
				call.Err = m.AddElementaryStream(es)
				if call.Err == nil {
					s := &hStream{PID: op.PID, Known: op.PID != 0, ES: op.ES, Slot: op.Slot}
					if op.PID == 0 {
						auto[op.Slot] = s
					}
					h.streams = append(h.streams, s)
					call.Changed = true
				}
			case "remove":
				call.Err = m.RemoveElementaryStream(pid)
				if call.Err == nil {
					for i, s := range h.streams {
						if s.Known && s.PID == pid {
							h.streams = append(append([]*hStream{}, h.streams[:i]...), h.streams[i+1:]...)
							break
						}
					}
					call.Changed = true
				}
			case "pcr":
				m.SetPCRPID(pid)
				h.pcr = pid
				call.Changed = true
			case "tables":
				call.N, call.Err = m.WriteTables()
			case "data":
				d := mon.Clone(op.Data)
				d.PID = pid
				if op.SharedAF > 0 && op.Data.AdaptationField != nil {
					d.AdaptationField = shared[op.SharedAF] // the very same object as in earlier calls
				}
				call.N, call.Err = m.WriteData(d)
			case "packet":
				call.N, call.Err = m.WritePacket(mon.Clone(op.Pkt))
			}
		})
		if p {
			call.Panic = fmt.Sprintf("%v\n%s", v, st)
		}
		call.End = len(tap.Buf)
		// learn auto PIDs from a PMT emitted during this call
		if call.End-call.Start >= 376 {
			learnAutoPIDs(tap.Buf[call.Start:call.End], h.streams)
		}
		call.Streams = append([]*hStream{}, h.streams...)
		call.PCRPID = h.pcr
		h.hr.Calls = append(h.hr.Calls, call)
		if p {
			h.stopped = true
		}
	}
}

// learnAutoPIDs decodes the first PMT (PID 0x1000) in out and assigns the PIDs of not yet known streams by position.
func learnAutoPIDs(out []byte, streams []*hStream) {
	for o := 0; o+188 <= len(out); o += 188 {
		p, err := refts.DecodePacket(out[o : o+188])
		if err != nil || p.Header.PID != 0x1000 || !p.Header.PayloadUnitStartIndicator {
			continue
		}
		_, secs, err := refts.DecodeUnit(p.Payload)
		if err != nil || len(secs) == 0 || secs[0].Err != nil || secs[0].Section.Syntax == nil || secs[0].Section.Syntax.Data.PMT == nil {
			return
		}
		es := secs[0].Section.Syntax.Data.PMT.ElementaryStreams
		if len(es) != len(streams) {
			return
		}
		for i, s := range streams {
			if !s.Known {
				s.PID = es[i].ElementaryPID
				s.Known = true
			}
		}
		return
	}
}

// ---- history generators ----

// HistOpts tunes RandomHistory.
type HistOpts struct {
	MaxOps       int
	AllowPacket  bool
	AllowInvalid bool
	AutoPIDs     bool
	BigAF        bool // adaptation fields that leave no room for the PES header
	LongPayloads bool
	OversizePMT  bool
	ManyPackets  bool // ≥40 packets per PID (continuity counter wrap)
	RichHeaders  bool
	FewPIDs      bool
	WritePktPIDs []uint16
	ReuseAF      bool // the caller reuses one adaptation field object per PID across WriteData calls
	// PES_private_data handed over with another length than the 16 bytes of the field (the writer pads or cuts it): only for
	// histories whose oracle looks at the packets and the counters, not at the header values
	OddPrivateData bool
}

var esPIDPool = []uint16{0x20, 0x21, 0x40, 0x41, 0x42, 0x2fa, 0x1ffe, 0x0fff, 0x1001, 0x0800} // disjoint from the automatic range 0x100.. so that the model can attribute PIDs before it has seen a PMT

func randomES(r *rand.Rand, rich bool) *astits.PMTElementaryStream {
	types := []astits.StreamType{astits.StreamTypeMPEG1Video, astits.StreamTypeMPEG2Video, astits.StreamTypeMPEG1Audio, astits.StreamTypeMPEG2Audio, astits.StreamTypePrivateSection,
		astits.StreamTypePrivateData, astits.StreamTypeAACAudio, astits.StreamTypeMPEG4Video, astits.StreamTypeAACLATMAudio, astits.StreamTypeMetadata, astits.StreamTypeH264Video,
		astits.StreamTypeH265Video, astits.StreamTypeCAVSVideo, astits.StreamTypeVC1Video, astits.StreamTypeDIRACVideo, astits.StreamTypeAC3Audio, astits.StreamTypeDTSAudio,
		astits.StreamTypeTRUEHDAudio, astits.StreamTypeSCTE35, astits.StreamTypeEAC3Audio}
	es := &astits.PMTElementaryStream{StreamType: types[r.IntN(len(types))]}
	if r.IntN(4) == 0 {
		es.StreamType = astits.StreamType(r.UintN(256))
	}
	if rich && r.IntN(2) == 0 {
		es.ElementaryStreamDescriptors = gen.Descriptors(r, r.IntN(36))
		// keep what the library can encode without its reserved VBI byte overflowing small budgets
		if hasReservedVBIService(es.ElementaryStreamDescriptors) {
			es.ElementaryStreamDescriptors = nil
		}
	}
	return es
}

// PESPayloadLen draws a payload length around the packet arithmetic edges.
func muxPayloadLen(r *rand.Rand, long bool) int {
	switch r.IntN(8) {
	case 0:
		return 1 + r.IntN(4)
	case 1, 2, 3:
		k := 1 + r.IntN(5)
		n := k*184 - 40 + r.IntN(44)
		if n < 1 {
			n = 1
		}
		return n
	case 4:
		if long {
			return 65480 + r.IntN(120)
		}
	case 5:
		if long && r.IntN(4) == 0 {
			return 70000 + r.IntN(5000)
		}
	}
	return 1 + r.IntN(900)
}

// firstPacketAF draws the optional first-packet adaptation field of a WriteData call. fit tells whether it must leave room
// for a PES header of hdrLen bytes.
func firstPacketAF(r *rand.Rand, hdrLen int, big bool) *astits.PacketAdaptationField {
	max := 183 - hdrLen - 1
	if max < 1 {
		return nil
	}
	body := 1 + r.IntN(max)
	switch r.IntN(6) {
	case 2:
		body = max + 1 // leaves exactly the header: the first packet carries no payload byte at all
	case 0:
		body = max // leaves exactly the header + 1 byte
	case 1:
		if max > 2 {
			body = max - 1 - r.IntN(2)
		}
	}
	if big {
		body = 183 - r.IntN(hdrLen) // leaves < hdrLen bytes: too big to share the packet with the PES header
	}
	a := gen.RandomAF(r, body, -1, -1)
	a.DiscontinuityIndicator = false
	a.StuffingLength = 0
	if big {
		// reach the size with private data
		size := gen.AFBodySize(a)
		if a.HasTransportPrivateData {
			extra := body - size
			a.TransportPrivateData = append(a.TransportPrivateData, gen.Bytes(r, extra)...)
			a.TransportPrivateDataLength = len(a.TransportPrivateData)
		} else if size+1 <= body {
			a.HasTransportPrivateData = true
			a.TransportPrivateData = gen.Bytes(r, body-size-1)
			a.TransportPrivateDataLength = len(a.TransportPrivateData)
		} else {
			a.StuffingLength = 0
		}
	}
	if big && r.IntN(6) == 1 {
		// more reserved bytes in the adaptation extension than any packet holds, also more than its 8 bit length can say
		a.HasAdaptationExtensionField = true
		if a.AdaptationExtensionField == nil {
			a.AdaptationExtensionField = &astits.PacketAdaptationExtensionField{}
		}
		a.AdaptationExtensionField.ReservedLength = []int{184, 245, 250, 255, 256, 300, 512}[r.IntN(7)]
		return a
	}
	if big && r.IntN(6) == 0 {
		// more private data than any packet holds, also more than the 8 bit length can say: the call has to fail as a whole
		a.HasTransportPrivateData = true
		a.TransportPrivateData = gen.Bytes(r, 184+r.IntN(260))
		a.TransportPrivateDataLength = len(a.TransportPrivateData)
		return a
	}
	if r.IntN(12) == 0 {
		// a splice countdown wider than its 8 bits (what a parse that read the byte as unsigned left behind)
		if v := []int{128, 200, 255, -129, 300}[r.IntN(5)]; a.HasSplicingCountdown || (!big && gen.AFBodySize(a)+1 <= body) {
			a.HasSplicingCountdown = true
			a.SpliceCountdown = v
		}
	}
	// requested stuffing: the adaptation field of a packet that was parsed and is handed back to WriteData still says how much
	// stuffing it carried (a remultiplexer). However much of it the library honours, what comes out are whole conformant packets
	// and the unit survives the round trip
	if r.IntN(4) == 0 {
		size := gen.AFBodySize(a)
		room := body - size // what still leaves the PES header its place
		switch k := r.IntN(8); {
		case big || k == 0:
			a.StuffingLength = r.IntN(183 - size + 1) // up to filling the packet on its own
		case room > 0 && k < 6:
			a.StuffingLength = 1 + r.IntN(room)
		case k == 6:
			a.StuffingLength = room + 1 + r.IntN(183-size-room) // content fits next to the header, content + stuffing does not
		default:
			a.StuffingLength = 184 - size + r.IntN(100) // more than a packet holds
		}
	}
	return a
}

// RandomHistory draws a history. The returned explicit PID list tells which PIDs the elementary streams may use.
func RandomHistory(r *rand.Rand, o HistOpts) (ops []HOp, period int) {
	period = 1 + r.IntN(50)
	if r.IntN(3) == 0 {
		period = 1 + r.IntN(4)
	}
	pool := esPIDPool
	if o.FewPIDs {
		pool = pool[:3]
	}
	type st struct {
		pid  uint16
		auto bool
		slot int
	}
	var live []st
	slot := 0
	n := 4 + r.IntN(o.MaxOps)
	havePCR := false
	addOne := func() {
		es := randomES(r, o.RichHeaders)
		op := HOp{Kind: "add", ES: es}
		if o.AutoPIDs && r.IntN(3) == 0 {
			op.PID = 0
			op.Auto = true
			op.Slot = slot
			live = append(live, st{auto: true, slot: slot})
			slot++
			ops = append(ops, op, HOp{Kind: "tables"}) // learn the PID
			return
		}
		op.PID = pool[r.IntN(len(pool))]
		dup := false
		for _, l := range live {
			if !l.auto && l.pid == op.PID {
				dup = true
			}
		}
		if dup && !o.AllowInvalid {
			return
		}
		if !dup {
			live = append(live, st{pid: op.PID})
		}
		ops = append(ops, op)
	}
	pick := func() (st, bool) {
		if len(live) == 0 {
			return st{}, false
		}
		return live[r.IntN(len(live))], true
	}
	addOne()
	for len(ops) < n {
		switch x := r.IntN(20); {
		case x < 2:
			addOne()
		case x == 2 && len(live) > 1:
			i := r.IntN(len(live))
			l := live[i]
			ops = append(ops, HOp{Kind: "remove", PID: l.pid, Auto: l.auto, Slot: l.slot})
			live = append(live[:i], live[i+1:]...)
		case x == 3:
			if l, ok := pick(); ok {
				ops = append(ops, HOp{Kind: "pcr", PID: l.pid, Auto: l.auto, Slot: l.slot})
				havePCR = true
			}
		case x == 4:
			ops = append(ops, HOp{Kind: "tables"})
		case x == 5 && o.AllowInvalid:
			switch r.IntN(4) {
			case 0:
				ops = append(ops, HOp{Kind: "remove", PID: 0x1abc})
			case 1:
				ops = append(ops, HOp{Kind: "data", PID: 0x1abc, Data: &astits.MuxerData{PES: &astits.PESData{Header: &astits.PESHeader{OptionalHeader: &astits.PESOptionalHeader{MarkerBits: 2}}, Data: gen.Bytes(r, 10)}}})
			case 2:
				ops = append(ops, HOp{Kind: "pcr", PID: 0x1abd}) // invalid PCR PID: table emission fails until set again
				havePCR = false
			case 3:
				if o.OversizePMT {
					// streams with long descriptors until the PMT no longer fits one packet; removed again later
					for q := 0; q < 6; q++ {
						es := &astits.PMTElementaryStream{StreamType: astits.StreamTypePrivateData, ElementaryStreamDescriptors: []*astits.Descriptor{{Tag: 0x80, Length: 40, UserDefined: gen.Bytes(r, 40)}}}
						ops = append(ops, HOp{Kind: "add", PID: uint16(0x300 + q), ES: es})
					}
					ops = append(ops, HOp{Kind: "tables"})
					for q := 0; q < 6; q++ {
						ops = append(ops, HOp{Kind: "remove", PID: uint16(0x300 + q)})
					}
				}
			}
		case x == 7 && len(live) > 0 && r.IntN(2) == 0:
			// a stream is written, removed and added again straight away, written again with nothing else in between, then another
			// stream is written, then this one again (any piece may be missing)
			l, _ := pick()
			if l.auto {
				continue
			}
			run := func(pid uint16, auto bool, sl int, k int) {
				for q := 0; q < k; q++ {
					ops = append(ops, randomDataOp(r, pid, auto, sl, o))
				}
			}
			if !havePCR {
				ops = append(ops, HOp{Kind: "pcr", PID: l.pid})
				havePCR = true
			}
			run(l.pid, false, 0, r.IntN(3))
			ops = append(ops, HOp{Kind: "remove", PID: l.pid})
			if r.IntN(3) == 0 {
				ops = append(ops, HOp{Kind: "tables"})
			}
			ops = append(ops, HOp{Kind: "add", PID: l.pid, ES: randomES(r, o.RichHeaders)})
			run(l.pid, false, 0, r.IntN(4))
			if o2, ok := pick(); ok && (o2.auto || o2.pid != l.pid) && r.IntN(4) > 0 {
				run(o2.pid, o2.auto, o2.slot, 1+r.IntN(2))
			}
			run(l.pid, false, 0, 1+r.IntN(3))
		case x == 6 && o.AllowPacket:
			p := gen.RandomPacket(r)
			p.Header.PID = o.WritePktPIDs[r.IntN(len(o.WritePktPIDs))]
			if o.AllowInvalid && r.IntN(3) == 0 {
				// oversize: payload too large by 1..N bytes, or an adaptation field that alone exceeds the packet
				if r.IntN(2) == 0 {
					p.Payload = append(p.Payload, gen.Bytes(r, 1+r.IntN(40))...)
					p.Header.HasPayload = true
				} else {
					p.Header.HasAdaptationField = true
					p.AdaptationField = &astits.PacketAdaptationField{StuffingLength: 190 + r.IntN(60)}
				}
			}
			ops = append(ops, HOp{Kind: "packet", Pkt: p})
		default:
			l, ok := pick()
			if !ok {
				addOne()
				continue
			}
			if !havePCR {
				ops = append(ops, HOp{Kind: "pcr", PID: l.pid, Auto: l.auto, Slot: l.slot})
				havePCR = true
			}
			reps := 1
			if o.ManyPackets && r.IntN(3) == 0 {
				reps = 3 + r.IntN(4)
			}
			for q := 0; q < reps; q++ {
				ops = append(ops, randomDataOp(r, l.pid, l.auto, l.slot, o))
			}
		}
	}
	return ops, period
}

func randomDataOp(r *rand.Rand, pid uint16, auto bool, slot int, o HistOpts) HOp {
	h := &astits.PESHeader{}
	switch r.IntN(6) {
	case 0:
		h.StreamID = 0 // derive from the stream type
		h.OptionalHeader = &astits.PESOptionalHeader{MarkerBits: 2}
	case 1:
		h.StreamID = []uint8{0xBE, 0xBF}[r.IntN(2)]
		if r.IntN(2) == 0 {
			h.OptionalHeader = gen.OptionalHeader(r, -1, -1, true) // ignored for these stream ids
		}
	default:
		h.StreamID = []uint8{0xC0, 0xE0, 0xFD, 0xBD, 0xE1, 0xDF}[r.IntN(6)]
		h.OptionalHeader = &astits.PESOptionalHeader{MarkerBits: 2}
	}
	if h.OptionalHeader != nil && (o.RichHeaders || r.IntN(2) == 0) {
		h.OptionalHeader = gen.OptionalHeader(r, -1, -1, true)
	}
	d := &astits.MuxerData{PES: &astits.PESData{Header: h, Data: gen.Bytes(r, muxPayloadLen(r, o.LongPayloads))}}
	copy(d.PES.Data, gen.Tag(pid, r.IntN(1<<20)))
	hdrLen := 6
	if h.OptionalHeader != nil && h.StreamID != 0xBE && h.StreamID != 0xBF {
		b, err := refts.EncodePES(&astits.PESHeader{StreamID: 0xC0, OptionalHeader: h.OptionalHeader}, nil, refts.PESEnc{}, nil)
		if err == nil {
			hdrLen = len(b)
		}
	}
	if oh := h.OptionalHeader; o.OddPrivateData && oh != nil && oh.HasExtension && oh.HasPrivateData && r.IntN(2) == 0 {
		oh.PrivateData = gen.Bytes(r, []int{0, 1, 15, 17, 20, 40, 200}[r.IntN(7)])
	}
	if oh := h.OptionalHeader; o.OddPrivateData && oh != nil && r.IntN(6) == 0 {
		// PTS_DTS_flags is a two bit field kept in a uint8: bits above it (a caller that ORs flags together, a value copied from
		// a wider field) are cut off when it is written, like the bits above any other field - and what follows the flags goes by
		// the two bits that are written
		oh.PTSDTSIndicator |= uint8(4 << uint(r.IntN(6)))
	}
	shared := 0
	if o.ReuseAF && r.IntN(2) == 0 {
		// a small adaptation field object (PCR / flags) kept by the caller for this PID and passed again and again
		shared = 1 + int(pid)%7
		d.AdaptationField = &astits.PacketAdaptationField{HasPCR: true, PCR: &astits.ClockReference{Base: int64(pid) * 1000, Extension: int64(pid % 300)}, RandomAccessIndicator: pid%2 == 0}
		if r.IntN(2) == 0 {
			// short units: the packet that carries the field needs stuffing
			d.PES.Data = gen.Bytes(r, 1+r.IntN(160))
		}
	} else if r.IntN(3) == 0 {
		d.AdaptationField = firstPacketAF(r, hdrLen, o.BigAF && r.IntN(4) == 0)
	} else if r.IntN(3) == 0 && h.StreamID != 0xBE && h.StreamID != 0xBF {
		// aim at the stuffing arithmetic: the last packet has exactly 0, 1, 2 or 3 bytes free
		n := (1+r.IntN(4))*184 - hdrLen - r.IntN(4)
		if n >= 8 {
			d.PES.Data = gen.Bytes(r, n)
			copy(d.PES.Data, gen.Tag(pid, r.IntN(1<<20)))
		}
	}
	if af := d.AdaptationField; o.OddPrivateData && af != nil && !af.IsOneByteStuffing && shared == 0 && r.IntN(5) == 0 {
		// a unit that announces a discontinuity (of the time base, say): the Muxer numbers its packets like any others. Only for
		// the histories that are judged on the wire (a Demuxer drops the unit in front of such a packet: known finding D38)
		af.DiscontinuityIndicator = true
	}
	return HOp{Kind: "data", PID: pid, Auto: auto, Slot: slot, Data: d, SharedAF: shared}
}

// readdAutoScenario: an explicit PID in the automatic range is written, removed, and handed out again by automatic assignment.
func readdAutoScenario(r *rand.Rand) []HOp {
	mk := func(pid uint16, auto bool, slot int) HOp {
		return HOp{Kind: "data", PID: pid, Auto: auto, Slot: slot, Data: &astits.MuxerData{PES: &astits.PESData{Header: &astits.PESHeader{StreamID: 0xC0, OptionalHeader: &astits.PESOptionalHeader{MarkerBits: 2}}, Data: gen.Bytes(r, 1+r.IntN(900))}}}
	}
	first := uint16(0x100) // the first candidate of the automatic range
	nAutoBefore := r.IntN(3)
	var ops []HOp
	for k := 0; k < nAutoBefore; k++ {
		ops = append(ops, HOp{Kind: "add", PID: 0, Auto: true, Slot: k, ES: &astits.PMTElementaryStream{StreamType: astits.StreamTypeMPEG2Audio}})
		first++
	}
	ops = append(ops, HOp{Kind: "add", PID: first, ES: &astits.PMTElementaryStream{StreamType: astits.StreamTypeAACAudio}, Slot: -1},
		HOp{Kind: "add", PID: 0x40, ES: &astits.PMTElementaryStream{StreamType: astits.StreamTypeH264Video}, Slot: -1}, HOp{Kind: "pcr", PID: 0x40}, HOp{Kind: "tables"})
	for k := 0; k < 1+r.IntN(4); k++ {
		ops = append(ops, mk(first, false, 0))
	}
	ops = append(ops, HOp{Kind: "remove", PID: first}, HOp{Kind: "add", PID: 0, Auto: true, Slot: 10, ES: &astits.PMTElementaryStream{StreamType: astits.StreamTypeMPEG1Audio}}, HOp{Kind: "tables"})
	for k := 0; k < 1+r.IntN(4); k++ {
		ops = append(ops, mk(0, true, 10))
	}
	return ops
}

// autoCollisionScenario: explicit PIDs inside the automatic range, added in an order that is not ascending (a high one first, then the
// very PID automatic assignment would hand out next), followed by automatic additions: every stream must end up on a PID of its
// own, in insertion order in the PMT, and every unit written must come back.
func autoCollisionScenario(r *rand.Rand) []HOp {
	mk := func(pid uint16, auto bool, slot int) HOp {
		return HOp{Kind: "data", PID: pid, Auto: auto, Slot: slot, Data: &astits.MuxerData{PES: &astits.PESData{Header: &astits.PESHeader{StreamID: 0xC0, OptionalHeader: &astits.PESOptionalHeader{MarkerBits: 2}}, Data: gen.Bytes(r, 1+r.IntN(700))}}}
	}
	high := []uint16{0x1234, 0x1ffe, 0x0fff, 0x0400}[r.IntN(4)]
	next := uint16(0x100)
	var ops []HOp
	nAutoBefore := r.IntN(3)
	for k := 0; k < nAutoBefore; k++ {
		ops = append(ops, HOp{Kind: "add", PID: 0, Auto: true, Slot: k, ES: &astits.PMTElementaryStream{StreamType: astits.StreamTypeMPEG2Audio}})
		next++
	}
	ops = append(ops, HOp{Kind: "add", PID: high, ES: &astits.PMTElementaryStream{StreamType: astits.StreamTypeH264Video}, Slot: -1})
	taken := []uint16{next}
	if r.IntN(2) == 0 {
		taken = append(taken, next+1+uint16(r.IntN(2)))
	}
	if r.IntN(2) == 0 { // not ascending among themselves either
		taken[0], taken[len(taken)-1] = taken[len(taken)-1], taken[0]
	}
	for _, p := range taken {
		ops = append(ops, HOp{Kind: "add", PID: p, ES: &astits.PMTElementaryStream{StreamType: astits.StreamTypeAACAudio}, Slot: -1})
	}
	nAutoAfter := 1 + r.IntN(3)
	for k := 0; k < nAutoAfter; k++ {
		ops = append(ops, HOp{Kind: "add", PID: 0, Auto: true, Slot: 10 + k, ES: &astits.PMTElementaryStream{StreamType: astits.StreamTypePrivateData}})
	}
	ops = append(ops, HOp{Kind: "pcr", PID: high}, HOp{Kind: "tables"})
	for q := 0; q < 2; q++ {
		ops = append(ops, mk(high, false, 0))
		for _, p := range taken {
			ops = append(ops, mk(p, false, 0))
		}
		for k := 0; k < nAutoAfter; k++ {
			ops = append(ops, mk(0, true, 10+k))
		}
		for k := 0; k < nAutoBefore; k++ {
			ops = append(ops, mk(0, true, k))
		}
	}
	ops = append(ops, HOp{Kind: "tables"})
	return ops
}

// exactPMTScenario: the stream set makes the PMT section exactly 183 bytes, so that pointer_field + section fill the packet with no
// 0xFF after the CRC; the next emissions carry other (shorter) PMTs. Every emission must come back.
func exactPMTScenario(r *rand.Rand) []HOp {
	n := 1 + r.IntN(3)
	pad := 167 - 5*n - 2 // body of one user-defined descriptor that makes the section 183 bytes long
	short := r.IntN(3)   // 0: exactly full, 1 / 2: one or two bytes of 0xFF remain
	var ops []HOp
	for k := 0; k < n; k++ {
		es := &astits.PMTElementaryStream{StreamType: astits.StreamTypeAACAudio}
		if k == 0 {
			es.ElementaryStreamDescriptors = []*astits.Descriptor{{Tag: 0x90, Length: uint8(pad - short), UserDefined: gen.Bytes(r, pad-short)}}
		}
		ops = append(ops, HOp{Kind: "add", PID: uint16(0x40 + k), ES: es, Slot: -1})
	}
	mk := func(pid uint16) HOp {
		return HOp{Kind: "data", PID: pid, Data: &astits.MuxerData{PES: &astits.PESData{Header: &astits.PESHeader{StreamID: 0xC0, OptionalHeader: &astits.PESOptionalHeader{MarkerBits: 2}}, Data: gen.Bytes(r, 1+r.IntN(400))}}}
	}
	ops = append(ops, HOp{Kind: "pcr", PID: 0x40}, HOp{Kind: "tables"}, mk(0x40))
	if n > 1 {
		ops = append(ops, HOp{Kind: "remove", PID: uint16(0x40 + n - 1)})
	} else {
		ops = append(ops, HOp{Kind: "add", PID: 0x60, ES: &astits.PMTElementaryStream{StreamType: astits.StreamTypeMPEG2Video}, Slot: -1}) // now too large: refused emissions
		ops = append(ops, HOp{Kind: "tables"}, HOp{Kind: "remove", PID: 0x60})
	}
	ops = append(ops, HOp{Kind: "tables"}, mk(0x40), HOp{Kind: "tables"}, mk(0x40))
	return ops
}

// churnScenario: a long-running Muxer with stream churn: dozens of temporary streams on PIDs of their own come and go (none of them
// returns), then a permanent stream is removed and added again: it must go on counting where it stopped.
func churnScenario(r *rand.Rand) []HOp {
	mk := func(pid uint16) HOp {
		return HOp{Kind: "data", PID: pid, Data: &astits.MuxerData{PES: &astits.PESData{Header: &astits.PESHeader{StreamID: 0xC0, OptionalHeader: &astits.PESOptionalHeader{MarkerBits: 2}}, Data: gen.Bytes(r, 1+r.IntN(500))}}}
	}
	ops := []HOp{{Kind: "add", PID: 0x40, ES: &astits.PMTElementaryStream{StreamType: astits.StreamTypeH264Video}, Slot: -1},
		{Kind: "add", PID: 0x41, ES: &astits.PMTElementaryStream{StreamType: astits.StreamTypeAACAudio}, Slot: -1}, {Kind: "pcr", PID: 0x40}, {Kind: "tables"}}
	for q := 0; q < 1+r.IntN(5); q++ {
		ops = append(ops, mk(0x41), mk(0x40))
	}
	n := 30 + r.IntN(40)
	for k := 0; k < n; k++ {
		pid := uint16(0x300 + k)
		ops = append(ops, HOp{Kind: "add", PID: pid, ES: &astits.PMTElementaryStream{StreamType: astits.StreamTypePrivateData}, Slot: -1})
		for q := 0; q < r.IntN(3); q++ {
			ops = append(ops, mk(pid))
		}
		if r.IntN(4) == 0 {
			ops = append(ops, mk(0x41))
		}
		ops = append(ops, HOp{Kind: "remove", PID: pid})
	}
	ops = append(ops, HOp{Kind: "remove", PID: 0x41}, mk(0x40), HOp{Kind: "add", PID: 0x41, ES: &astits.PMTElementaryStream{StreamType: astits.StreamTypeAACAudio}, Slot: -1}, mk(0x41), mk(0x41), HOp{Kind: "tables"})
	return ops
}

// remuxScenario is what a remultiplexer does: a stream (a generated one with adaptation fields on any packet, or one the Muxer
// wrote in a random history) is demultiplexed and every PES that comes out is handed to a new Muxer as it is — the parsed PESData
// with its by-product fields (PES_packet_length, header length) and the first packet's parsed adaptation field (length, stuffing
// length and one-byte-stuffing flag included). units is the number of units handed over, parsedEntries the
// number of streams announced with the PMT entry the demuxer returned (descriptors included).
func remuxScenario(r *rand.Rand, fromMuxer bool) (ops []HOp, units int, parsedEntries int) {
	var src []byte
	types := map[uint16]astits.StreamType{}
	if fromMuxer {
		ops, period := RandomHistory(r, HistOpts{MaxOps: 40, AutoPIDs: true, BigAF: true, RichHeaders: true, LongPayloads: r.IntN(4) == 0})
		hr := runHistory(ops, period)
		src = hr.Out
		for _, cl := range hr.Calls {
			for _, s := range cl.Streams {
				if s.Known {
					types[s.PID] = s.ES.StreamType
				}
			}
		}
	} else {
		m := gen.RandomModel(r, gen.ModelOpts{MaxPES: 3, MaxPMT: 1, MaxSI: 1, MaxUnits: 14, MaxPESLen: 2500, RichAF: true, NoPtrOnlyFirstChunk: true})
		src = m.Build(r).Bytes
	}
	run := RunDemux(src, baseCfg("data"))
	var pids []uint16
	var data []HOp
	parsedES := map[uint16]*astits.PMTElementaryStream{}
	for _, d := range run.Datas() {
		if d.PMT != nil {
			// the stream is announced as the source announced it: the parsed PMT entry, descriptors included
			for _, es := range d.PMT.ElementaryStreams {
				parsedES[es.ElementaryPID] = es
			}
		}
		if d.PES == nil || d.FirstPacket == nil || d.PID < 0x20 || d.PID == 0x1000 || d.PID == 0x1fff || len(d.PES.Data) == 0 {
			continue
		}
		if _, ok := types[d.PID]; !ok {
			types[d.PID] = astits.StreamTypeAACAudio
			if d.PES.Header.IsVideoStream() {
				types[d.PID] = astits.StreamTypeH264Video
			}
		}
		known := false
		for _, p := range pids {
			known = known || p == d.PID
		}
		if !known {
			pids = append(pids, d.PID)
		}
		af := d.FirstPacket.AdaptationField
		if af != nil && r.IntN(3) == 0 {
			// what astits-es-split does with the parsed field: flags are cleared, the values they announced are left where they are
			// (it sets HasPCR again only when it has a new clock to put there). A cleared flag wins: the part is not written
			af = mon.Clone(af)
			if r.IntN(2) == 0 {
				af.HasPCR = false
			}
			switch r.IntN(4) {
			case 0:
				af.HasOPCR = false
			case 1:
				af.HasTransportPrivateData = false
			case 2:
				af.HasAdaptationExtensionField = false
			}
		}
		data = append(data, HOp{Kind: "data", PID: d.PID, Data: &astits.MuxerData{PID: d.PID, AdaptationField: af, PES: d.PES}})
	}
	for _, p := range pids {
		es := &astits.PMTElementaryStream{StreamType: types[p]}
		if pe := parsedES[p]; pe != nil && r.IntN(4) != 0 {
			es = mon.Clone(pe)
			es.ElementaryPID = 0 // set by the add operation
			parsedEntries++
		}
		ops = append(ops, HOp{Kind: "add", PID: p, ES: es, Slot: -1})
	}
	if len(pids) > 0 {
		ops = append(ops, HOp{Kind: "pcr", PID: pids[0]})
	}
	return append(ops, data...), len(data), parsedEntries
}

// extensionEditScenario: the caller keeps one adaptation field object with an extension for its stream and changes what the
// extension carries from unit to unit (a legal time window here, a seamless splice point there, reserved bytes): every length byte
// written follows the content of the call, not what an earlier call or a parse left in the structure.
func extensionEditScenario(r *rand.Rand) []HOp {
	ext := func() *astits.PacketAdaptationExtensionField {
		e := &astits.PacketAdaptationExtensionField{}
		if r.IntN(2) == 0 {
			e.HasLegalTimeWindow, e.LegalTimeWindowIsValid, e.LegalTimeWindowOffset = true, r.IntN(2) == 0, uint16(r.IntN(1<<15))
		}
		if r.IntN(2) == 0 {
			e.HasPiecewiseRate, e.PiecewiseRate = true, uint32(r.IntN(1<<22))
		}
		if r.IntN(2) == 0 {
			e.HasSeamlessSplice, e.SpliceType, e.DTSNextAccessUnit = true, uint8(r.IntN(16)), &astits.ClockReference{Base: int64(r.Uint64N(1 << 33))}
		}
		if r.IntN(3) == 0 {
			e.ReservedLength = r.IntN(6)
		}
		return e
	}
	af := func() *astits.PacketAdaptationField {
		a := &astits.PacketAdaptationField{HasAdaptationExtensionField: true, AdaptationExtensionField: ext(), RandomAccessIndicator: r.IntN(2) == 0}
		if r.IntN(2) == 0 {
			a.HasPCR, a.PCR = true, &astits.ClockReference{Base: int64(r.Uint64N(1 << 33)), Extension: int64(r.IntN(300))}
		}
		return a
	}
	mk := func(first, edit *astits.PacketAdaptationField) HOp {
		return HOp{Kind: "data", PID: 0x41, SharedAF: 2, SharedEdit: edit, Data: &astits.MuxerData{AdaptationField: first,
			PES: &astits.PESData{Header: &astits.PESHeader{StreamID: 0xC0, OptionalHeader: &astits.PESOptionalHeader{MarkerBits: 2}}, Data: gen.Bytes(r, 1+r.IntN(500))}}}
	}
	ops := []HOp{{Kind: "add", PID: 0x41, ES: &astits.PMTElementaryStream{StreamType: astits.StreamTypeAACAudio}, Slot: -1}, {Kind: "pcr", PID: 0x41}}
	first := af()
	ops = append(ops, mk(first, nil))
	for k := 0; k < 3+r.IntN(6); k++ {
		var e *astits.PacketAdaptationField
		if r.IntN(4) != 0 {
			e = af()
		}
		ops = append(ops, mk(first, e))
	}
	return ops
}

// retryScenario: a WriteData call is rejected because its adaptation field (private data) is larger than a packet; the caller
// repairs exactly that on the same object — shorter private data — and calls again, and goes on using the object.
func retryScenario(r *rand.Rand) []HOp {
	mk := func(af *astits.PacketAdaptationField, edit *astits.PacketAdaptationField, n int) HOp {
		return HOp{Kind: "data", PID: 0x40, SharedAF: 1, SharedEdit: edit, Data: &astits.MuxerData{AdaptationField: af,
			PES: &astits.PESData{Header: &astits.PESHeader{StreamID: 0xE0, OptionalHeader: &astits.PESOptionalHeader{MarkerBits: 2}}, Data: gen.Bytes(r, n)}}}
	}
	priv := func(n int) *astits.PacketAdaptationField {
		return &astits.PacketAdaptationField{HasTransportPrivateData: true, TransportPrivateData: gen.Bytes(r, n), TransportPrivateDataLength: n, RandomAccessIndicator: r.IntN(2) == 0}
	}
	ops := []HOp{{Kind: "add", PID: 0x40, ES: &astits.PMTElementaryStream{StreamType: astits.StreamTypeH264Video}, Slot: -1}, {Kind: "pcr", PID: 0x40}}
	if r.IntN(2) == 0 {
		ops = append(ops, mk(priv(1+r.IntN(100)), nil, 1+r.IntN(600)))
	}
	big := priv(182 + r.IntN(120))
	first := mk(big, nil, 1+r.IntN(1200))
	if len(ops) > 2 {
		first.SharedEdit = big
	}
	ops = append(ops, first)
	for k := 0; k < 1+r.IntN(4); k++ {
		ops = append(ops, mk(big, priv(r.IntN(170)), []int{1, 10, 150, 170, 184, 400, 1 + r.IntN(1200)}[r.IntN(7)]))
	}
	return ops
}

// reservedPIDScenario asks for elementary streams on PIDs that cannot carry one — the Muxer's own program map PID, the null packet
// PID, values wider than 13 bits (which alias another PID on the wire) — next to ordinary streams, and writes on all of them.
// Whether the Muxer refuses the stream or not, what reaches the output must satisfy the packet level properties.
func reservedPIDScenario(r *rand.Rand) []HOp {
	mk := func(pid uint16, auto bool, slot int) HOp {
		return HOp{Kind: "data", PID: pid, Auto: auto, Slot: slot, Data: &astits.MuxerData{PES: &astits.PESData{Header: &astits.PESHeader{StreamID: 0xC0, OptionalHeader: &astits.PESOptionalHeader{MarkerBits: 2}}, Data: gen.Bytes(r, 1+r.IntN(700))}}}
	}
	bad := []uint16{0x1000, 0x1fff, 0x2100, 0x3000, 0x2000, 0xffff, 0x2101}
	b1, b2 := bad[r.IntN(len(bad))], bad[r.IntN(len(bad))]
	ops := []HOp{{Kind: "add", PID: 0x40, ES: &astits.PMTElementaryStream{StreamType: astits.StreamTypeH264Video}, Slot: -1}, {Kind: "pcr", PID: 0x40},
		{Kind: "add", PID: 0, Auto: true, Slot: 0, ES: &astits.PMTElementaryStream{StreamType: astits.StreamTypeMPEG2Audio}},
		{Kind: "add", PID: b1, ES: &astits.PMTElementaryStream{StreamType: astits.StreamTypeAACAudio}, Slot: -1},
		{Kind: "add", PID: 0, Auto: true, Slot: 1, ES: &astits.PMTElementaryStream{StreamType: astits.StreamTypeAACAudio}},
		{Kind: "add", PID: b2, ES: &astits.PMTElementaryStream{StreamType: astits.StreamTypePrivateData}, Slot: -1},
		{Kind: "tables"}}
	for k := 0; k < 6+r.IntN(30); k++ {
		switch r.IntN(6) {
		case 5:
			ops = append(ops, mk(0x40, false, -1))
		case 0:
			ops = append(ops, mk(b1, false, -1))
		case 1:
			ops = append(ops, mk(b2, false, -1))
		case 2:
			ops = append(ops, mk(0, true, 0))
		case 3:
			ops = append(ops, mk(0, true, 1))
		case 4:
			ops = append(ops, HOp{Kind: "tables"})
		}
	}
	return ops
}

// wrapPMTScenario: streams whose descriptor loops make the body of the program map section exactly 65536 bytes (or 65536 ± a few):
// every descriptor (≤ 255 bytes) and every ES_info_length (≤ 1023) is legal on its own, the PMT as a whole is far too large for one
// packet, and a 16 bit sum of its parts is 0 (or small). Every emission must be refused with nothing written.
func wrapPMTScenario(r *rand.Rand) []HOp {
	target := 65536 + []int{0, 0, 0, 1, -1, 9, 13, 183, 184}[r.IntN(9)]
	var ops []HOp
	left := target - 4
	pid := uint16(0x100)
	mkLoop := func(n int) []*astits.Descriptor { // descriptors filling exactly n bytes (n = 0 or n ≥ 2)
		var ds []*astits.Descriptor
		for n > 0 {
			k := n
			if k > 257 {
				k = 257
				if n-k == 1 {
					k = 256
				}
			}
			ds = append(ds, &astits.Descriptor{Tag: 0x80 + uint8(r.IntN(0x7e)), Length: uint8(k - 2), UserDefined: gen.Bytes(r, k-2)})
			n -= k
		}
		return ds
	}
	for left > 0 {
		loop := 900 + r.IntN(124)
		if left-5-loop < 7 { // the last stream takes what is left
			loop = left - 5
			if loop > 1023 || loop == 1 || loop < 0 {
				// cannot close exactly with this draw: give the remainder to two streams
				loop = (left - 10) / 2
				ops = append(ops, HOp{Kind: "add", PID: pid, ES: &astits.PMTElementaryStream{StreamType: astits.StreamTypePrivateData, ElementaryStreamDescriptors: mkLoop(loop)}, Slot: -1})
				pid++
				left -= 5 + loop
				loop = left - 5
			}
		}
		ops = append(ops, HOp{Kind: "add", PID: pid, ES: &astits.PMTElementaryStream{StreamType: astits.StreamTypeH264Video, ElementaryStreamDescriptors: mkLoop(loop)}, Slot: -1})
		pid++
		left -= 5 + loop
	}
	mk := func(p uint16) HOp {
		return HOp{Kind: "data", PID: p, Data: &astits.MuxerData{PES: &astits.PESData{Header: &astits.PESHeader{StreamID: 0xE0, OptionalHeader: &astits.PESOptionalHeader{MarkerBits: 2}}, Data: gen.Bytes(r, 1+r.IntN(400))}}}
	}
	ops = append(ops, HOp{Kind: "pcr", PID: 0x100}, HOp{Kind: "tables"}, mk(0x100), mk(0x101), HOp{Kind: "tables"})
	// back to a PMT that fits: everything but two streams removed
	for p := uint16(0x102); p < pid; p++ {
		ops = append(ops, HOp{Kind: "remove", PID: p})
	}
	ops = append(ops, HOp{Kind: "tables"}, mk(0x100), mk(0x101))
	return ops
}

// wrapDescriptorScenario: a stream announced with a descriptor whose body is exactly 256 (or 512) bytes — every part of it legal, the
// whole not representable in the 8 bit descriptor_length: no program map section can list this stream as it was added, and an 8 bit sum
// of the body's parts is 0. Every emission must be refused with nothing written until the stream is removed again.
func wrapDescriptorScenario(r *rand.Rand) []HOp {
	n := []int{256, 256, 512, 255, 257}[r.IntN(5)]
	var d *astits.Descriptor
	switch r.IntN(4) {
	case 0:
		d = &astits.Descriptor{Tag: 0x80 + uint8(r.IntN(0x7e)), UserDefined: gen.Bytes(r, n)}
	case 1: // 8 bytes per item
		d = &astits.Descriptor{Tag: astits.DescriptorTagSubtitling, Subtitling: &astits.DescriptorSubtitling{}}
		for k := 0; k < n/8; k++ {
			d.Subtitling.Items = append(d.Subtitling.Items, &astits.DescriptorSubtitlingItem{Language: []byte("eng"), Type: uint8(k), CompositionPageID: uint16(k), AncillaryPageID: uint16(k + 1)})
		}
	case 2: // format identifier + additional identification info
		d = &astits.Descriptor{Tag: astits.DescriptorTagRegistration, Registration: &astits.DescriptorRegistration{FormatIdentifier: 0x41432d33, AdditionalIdentificationInfo: gen.Bytes(r, n-4)}}
	default:
		d = &astits.Descriptor{Tag: 0x0b, Unknown: &astits.DescriptorUnknown{Tag: 0x0b, Content: gen.Bytes(r, n)}}
	}
	mk := func(p uint16) HOp {
		return HOp{Kind: "data", PID: p, Data: &astits.MuxerData{PES: &astits.PESData{Header: &astits.PESHeader{StreamID: 0xE0, OptionalHeader: &astits.PESOptionalHeader{MarkerBits: 2}}, Data: gen.Bytes(r, 1+r.IntN(400))}}}
	}
	return []HOp{{Kind: "add", PID: 0x40, ES: &astits.PMTElementaryStream{StreamType: astits.StreamTypeH264Video}, Slot: -1}, {Kind: "pcr", PID: 0x40}, {Kind: "tables"}, mk(0x40),
		{Kind: "add", PID: 0x41, ES: &astits.PMTElementaryStream{StreamType: astits.StreamTypePrivateData, ElementaryStreamDescriptors: []*astits.Descriptor{d}}, Slot: -1},
		{Kind: "tables"}, mk(0x40), mk(0x41), {Kind: "remove", PID: 0x41}, {Kind: "tables"}, mk(0x40)}
}

// oversizeReaddScenario: a stream is written, removed, and added again with descriptors that make the program map section too big for
// its packet — whether that addition is refused at once or only makes the emissions fail —, then removed (which fails when the
// addition was refused), added once more without them and written: on every path the PID goes on counting where it stopped.
func oversizeReaddScenario(r *rand.Rand) []HOp {
	mk := func(p uint16) HOp {
		return HOp{Kind: "data", PID: p, Data: &astits.MuxerData{PES: &astits.PESData{Header: &astits.PESHeader{StreamID: 0xC0, OptionalHeader: &astits.PESOptionalHeader{MarkerBits: 2}}, Data: gen.Bytes(r, 1+r.IntN(500))}}}
	}
	big := &astits.PMTElementaryStream{StreamType: astits.StreamTypeAACAudio, ElementaryStreamDescriptors: []*astits.Descriptor{{Tag: 0x80 + uint8(r.IntN(0x7e)), UserDefined: gen.Bytes(r, 150+r.IntN(100))}}}
	plain := &astits.PMTElementaryStream{StreamType: astits.StreamTypeAACAudio}
	ops := []HOp{{Kind: "add", PID: 0x40, ES: &astits.PMTElementaryStream{StreamType: astits.StreamTypeH264Video}, Slot: -1}, {Kind: "add", PID: 0x41, ES: plain, Slot: -1}, {Kind: "pcr", PID: 0x40}, {Kind: "tables"}}
	for k := 0; k < 1+r.IntN(5); k++ {
		ops = append(ops, mk(0x41), mk(0x40))
	}
	ops = append(ops, HOp{Kind: "remove", PID: 0x41}, HOp{Kind: "add", PID: 0x41, ES: big, Slot: -1}, HOp{Kind: "tables"}, mk(0x40), HOp{Kind: "remove", PID: 0x41},
		HOp{Kind: "add", PID: 0x41, ES: plain, Slot: -1}, HOp{Kind: "tables"})
	for k := 0; k < 2+r.IntN(3); k++ {
		ops = append(ops, mk(0x41), mk(0x40))
	}
	return ops
}
