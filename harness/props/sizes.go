package props

import (
	"math/rand/v2"

	astits "github.com/asticode/go-astits"

	"verifharness/gen"
	"verifharness/refts"
)

// Size coincidences: workloads in which a boundary of one thing falls on, or a byte or two next to, a boundary of another.

// straddleStream builds a stream whose last unit holds 2 or 3 sections of the kind, cut into full 184 byte payloads, such that the
// header of the second section starts `before` bytes (1..183) before the end of a packet payload: with before = 1 or 2 the three
// bytes of that header are split between two packets. For PMT units a PAT announcing the PID comes first.
func straddleStream(r *rand.Rand, kind refts.TableKind, before int) (*gen.Stream, *gen.Unit) {
	pid := gen.PIDFor(kind)
	secs := []*astits.PSISection{gen.SimpleSection(r, kind, 1, r.IntN(330)), gen.SimpleSection(r, kind, 2, r.IntN(120))}
	if r.IntN(3) == 0 {
		secs = append(secs, gen.SimpleSection(r, kind, 3, r.IntN(60)))
	}
	ptr := 183
	for ptr == 183 { // the first section starts in the packet that holds the pointer_field
		secs[0] = gen.SimpleSection(r, kind, 1, r.IntN(330))
		probe := gen.NewPSIUnit(r, pid, 1, secs[:1], 0, false)
		len1 := len(probe.Payload) - 1
		ptr = (((184-before)-1-len1)%184 + 184) % 184
	}
	u := gen.NewPSIUnit(r, pid, 1, secs, ptr, false)
	for tries := 0; len(secs) == 3 && tries < 20; tries++ {
		// the third section must not start exactly at the start of a packet payload: a packet in which a section starts carries
		// payload_unit_start (ISO 13818-1 2.4.4.1), which would make it another unit
		clash := false
		for off := range u.SectionBoundaries() {
			if off%184 == 0 && off < len(u.Payload) {
				clash = true
			}
		}
		if !clash {
			break
		}
		secs[1] = gen.SimpleSection(r, kind, 2, r.IntN(120))
		if tries == 19 {
			secs = secs[:2]
		}
		u = gen.NewPSIUnit(r, pid, 1, secs, ptr, false)
	}
	u.PlanChunks(gen.RandomChunks(r, len(u.Payload), 0, 0, true))
	u.TailPad = r.IntN(2) == 0
	per := map[uint16][]*gen.Unit{pid: {u}}
	var order []uint16
	if kind == refts.KindPMT {
		pat := gen.PATFor(r, pid)
		per[0] = []*gen.Unit{pat}
		order = append(order, repeatPID(0, len(pat.Plan))...)
	}
	order = append(order, repeatPID(pid, len(u.Plan))...)
	// something behind the unit, so that it is not the end of the stream that delivers it
	tail := gen.NewPESUnit(r, 0x1e1, 9, gen.PESOpts{DataLen: 40 + r.IntN(300), WithPTS: true})
	tail.PlanChunks(gen.RandomChunks(r, len(tail.Payload), 0, 0, true))
	per[0x1e1] = []*gen.Unit{tail}
	order = append(order, repeatPID(0x1e1, len(tail.Plan))...)
	return gen.Mux(per, order, nil), u
}
