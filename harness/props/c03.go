package props

import (
	"bytes"
	"context"
	"encoding/hex"
	"errors"
	"fmt"
	"math/rand/v2"
	"os"
	"path/filepath"
	"strings"

	astits "github.com/asticode/go-astits"

	"verifharness/gen"
	"verifharness/mon"
	"verifharness/refts"
)

func init() {
	register(&Prop{
		ID:    "C03",
		Level: "exploration",
		Rule: "inputs: random bytes, all-0x47, empty and sub-193-byte inputs, reference-multiplexed streams with rich tables/descriptors and library-muxed streams, then mutated (bit flips, extreme values in " +
			"random and targeted length fields, inserted/deleted bytes, truncation at every offset of small streams, concatenations) and the repository's stored fuzz corpora; each executed under sampled " +
			"(thorough: crossed) configurations packet size {auto,188,192,204,other} x reader {seekable,bufio,plain} x reads {full,1-byte,random} x API {NextPacket,NextData,alternating} x options " +
			"{none, random skipper, observing parser, failing parser}; monitored: panics, calls until ErrNoMorePackets ≤ len(input)+64, 16 further calls, truncated-final-packet equivalence; " +
			"plus runs of 255..131 073 (thorough 262 145) packets a skipper rejects inside one call (stage long-skip); distinct = hash(input, configuration); non-trivial = the input delivered at least one packet or datum before ending; the end of the stream is ErrNoMorePackets itself, an error that wraps it is reported (end-of-stream-not-the-sentinel)",
		Assumptions: []string{"termination is judged on a logical bound (number of calls), a wall clock watchdog only covers calls that never return (then the goroutine dump must show a library frame)",
			"explicit packet sizes ≥ 188; bufio readers with buffers from 16 bytes up"},
		Shards:       32,
		Journal:      true,
		TimeoutQuick: 600,
		Run:          runC03,
		Guards: func(m *mon.Merged, tier string) []string {
			var out []string
			need(m, &out, "executions", 40000)
			need(m, &out, "executions_delivering_something", 10000)
			need(m, &out, "truncated_final_packet_checks", 500)
			need(m, &out, "truncation_offsets_tried", 5000)
			need(m, &out, "fuzz_corpus_inputs", 10)
			need(m, &out, "long_skipped_runs", 100)
			need(m, &out, "malformed_descriptor_length_cases", 10000)
			needSet(m, &out, "malformed_descriptor_tags", 24)
			needSet(m, &out, "config_cells", 100)
			needSet(m, &out, "error_kinds", 20)
			return out
		},
	})
}

type c03cfg struct {
	size   int
	reader string
	chunk  int // 0 full, 1 one byte, 2 random
	api    string
	opt    int // 0 none, 1 skipper, 2 observer, 3 failing parser
}

func (k c03cfg) cell() string {
	sz := "other"
	switch k.size {
	case 0:
		sz = "auto"
	case 188, 192, 204:
		sz = fmt.Sprint(k.size)
	}
	return fmt.Sprintf("%s/%s/%d/%s/%d", sz, k.reader, k.chunk, k.api, k.opt)
}

func randomC03Cfg(r *rand.Rand) c03cfg {
	sizes := []int{0, 0, 188, 188, 192, 204, 189 + r.IntN(836)}
	return c03cfg{size: sizes[r.IntN(len(sizes))], reader: []string{"seek", "bufio", "plain"}[r.IntN(3)], chunk: r.IntN(3), api: []string{"packet", "data", "alt"}[r.IntN(3)], opt: r.IntN(4)}
}

var errParserC03 = errors.New("verif: parser failure")

func (k c03cfg) demuxCfg(r *rand.Rand) DemuxCfg {
	cfg := DemuxCfg{PacketSize: k.size, Reader: k.reader, API: k.api, ExtraAfterEOF: 16}
	if k.reader == "bufio" {
		cfg.BufioSize = []int{4096, 1100, 193 + r.IntN(100), 16, 64, 188, 192}[r.IntN(7)]
		if k.size > 1000 {
			cfg.BufioSize = 4096
		}
	}
	switch k.chunk {
	case 1:
		cfg.Chunk = func(int) int { return 1 }
	case 2:
		rr := rand.New(rand.NewPCG(r.Uint64(), 5))
		cfg.Chunk = func(int) int { return 1 + rr.IntN(300) }
	}
	switch k.opt {
	case 1:
		rr := rand.New(rand.NewPCG(r.Uint64(), 6))
		cfg.Skipper = func(p *astits.Packet) bool { return rr.IntN(4) == 0 }
	case 2:
		cfg.Parser = func(ps []*astits.Packet) ([]*astits.DemuxerData, bool, error) { return nil, false, nil }
	case 3:
		n := 0
		cfg.Parser = func(ps []*astits.Packet) ([]*astits.DemuxerData, bool, error) {
			n++
			if n%3 == 0 {
				return nil, false, errParserC03
			}
			return nil, n%5 == 0, nil
		}
	}
	return cfg
}

// errKind reduces an error chain to its message skeleton (numbers stripped).
func errKind(err error) string {
	s := err.Error()
	var b strings.Builder
	for _, ch := range s {
		if ch >= '0' && ch <= '9' {
			continue
		}
		b.WriteRune(ch)
	}
	k := b.String()
	if len(k) > 160 {
		k = k[len(k)-160:]
	}
	return k
}

func execC03(c *mon.Ctx, stage string, idx int64, input []byte, k c03cfg, r *rand.Rand, kind string) *DemuxRun {
	cfg := k.demuxCfg(r)
	run := RunDemux(input, cfg)
	c.Count("executions")
	c.Seen("config_cells", k.cell())
	data := map[string]any{"input": hex.EncodeToString(clipBytes(input, 6000)), "input_len": len(input), "config": cfg.String() + " cell=" + k.cell(), "input_kind": kind}
	cls := k.cell()
	szc := strings.SplitN(cls, "/", 2)[0]
	if run.Panic != "" {
		c.Violate("C03/panic:"+run.PanicClass, stage, idx, run.Panic, data)
		return run
	}
	for _, e := range run.Errors() {
		c.Seen("error_kinds", errKind(e))
	}
	if len(run.Items)-len(run.Errors()) > 0 {
		c.Count("executions_delivering_something")
	}
	if run.EOFAt < 0 {
		last := ""
		if n := len(run.Items); n > 0 && run.Items[n-1].Err != nil {
			last = errKind(run.Items[n-1].Err)
		}
		c.Violate("C03/no-termination:"+szc+"/"+k.reader, stage, idx, fmt.Sprintf("%d calls on a %d byte input without ErrNoMorePackets (bound %d); reads issued %d, reader position %d; last error: %s", run.Calls, len(input), len(input)+64, run.Tap.NReads, run.Tap.Pos, last), data)
		return run
	}
	c.Max("max_calls_to_eof_per_1000_input_bytes", int64(run.EOFAt*1000/(len(input)+1)))
	if run.PostEOFBad != "" {
		c.Violate("C03/result-after-end-of-stream:"+szc+"/"+k.reader, stage, idx, run.PostEOFBad, data)
	}
	if run.WrappedEOF != "" {
		c.Violate("C03/end-of-stream-not-the-sentinel:"+szc+"/"+k.reader, stage, idx, run.WrappedEOF, data)
	}
	c.Case(mon.HashBytes("c03/"+cls, input), len(run.Items)-len(run.Errors()) > 0)
	return run
}

func clipBytes(b []byte, n int) []byte {
	if len(b) > n {
		return b[:n]
	}
	return b
}

// richStream builds a well-formed stream whose tables carry descriptors of every kind.
func richStream(r *rand.Rand) *gen.Stream {
	per := map[uint16][]*gen.Unit{}
	var pids []uint16
	hold := map[uint16]int{}
	pmt := uint16(0x1000)
	pat := gen.PATFor(r, pmt)
	per[0] = []*gen.Unit{pat}
	pids = append(pids, 0)
	hold[pmt] = 1
	kinds := []refts.TableKind{refts.KindPMT, refts.KindNIT, refts.KindSDT, refts.KindEIT, refts.KindTOT}
	for _, k := range kinds {
		if r.IntN(3) == 0 {
			continue
		}
		pid := gen.PIDFor(k)
		n := 1 + r.IntN(2)
		for j := 0; j < n; j++ {
			var secs []*astits.PSISection
			for q := 0; q < 1+r.IntN(2); q++ {
				secs = append(secs, gen.RandomSection(r, k, 600, r.IntN(2)))
			}
			u := gen.NewPSIUnit(r, pid, j, secs, 0, true)
			gen.ChunkPSI(r, u, k == refts.KindPMT, true)
			per[pid] = append(per[pid], u)
		}
		pids = append(pids, pid)
	}
	if r.IntN(3) == 0 {
		// conditional access table units on PID 1: private content the demuxer leaves to a custom parser (nothing is delivered)
		for j := 0; j < 1+r.IntN(3); j++ {
			body := gen.Bytes(r, 8+r.IntN(200))
			sec := append([]byte{0x00, 0x01, 0xb0 | byte(len(body)>>8), byte(len(body))}, body...)
			u := &gen.Unit{PID: 1, Kind: gen.UnitPSI, Payload: sec, TailPad: true}
			u.PlanChunks(gen.RandomChunks(r, len(sec), 0, 0, true))
			per[1] = append(per[1], u)
		}
		pids = append(pids, 1)
	}
	for a := 0; a < 1+r.IntN(2); a++ {
		pid := uint16(0x100 + a)
		for j := 0; j < 1+r.IntN(3); j++ {
			h := &astits.PESHeader{StreamID: gen.StreamID(r, true), OptionalHeader: gen.OptionalHeader(r, -1, -1, false)}
			b, err := refts.EncodePES(h, gen.Bytes(r, r.IntN(500)), refts.PESEnc{LengthZero: r.IntN(2) == 0, HeaderStuffing: r.IntN(4)}, nil)
			if err != nil {
				continue
			}
			u := &gen.Unit{PID: pid, Kind: gen.UnitPES, Payload: b}
			u.PlanChunks(gen.RandomChunks(r, len(b), 0, 0, r.IntN(2) == 0))
			if r.IntN(2) == 0 && u.Plan[0].N < 150 {
				u.Plan[0].AF = gen.RandomAF(r, 183-u.Plan[0].N, -1, -1)
				u.Plan[0].AF.DiscontinuityIndicator = false
			}
			per[pid] = append(per[pid], u)
		}
		if len(per[pid]) > 0 {
			pids = append(pids, pid)
		}
	}
	counts := map[uint16]int{}
	for p, us := range per {
		counts[p] = gen.NumPackets(us)
	}
	return gen.Mux(per, gen.RandomOrder(r, counts, pids, hold), nil)
}

func libMuxStream(r *rand.Rand) []byte {
	buf := &bytes.Buffer{}
	m := astits.NewMuxer(context.Background(), buf, astits.MuxerOptTablesRetransmitPeriod(1+r.IntN(4)))
	n := 1 + r.IntN(3)
	for k := 0; k < n; k++ {
		m.AddElementaryStream(astits.PMTElementaryStream{ElementaryPID: uint16(0x100 + k), StreamType: astits.StreamType(r.UintN(256)), ElementaryStreamDescriptors: gen.Descriptors(r, 40)})
	}
	m.SetPCRPID(0x100)
	for k := 0; k < 2+r.IntN(6); k++ {
		d := &astits.MuxerData{PID: uint16(0x100 + r.IntN(n)), PES: &astits.PESData{Header: &astits.PESHeader{OptionalHeader: gen.OptionalHeader(r, -1, -1, true)}, Data: gen.Bytes(r, 1+r.IntN(600))}}
		if r.IntN(3) == 0 {
			d.AdaptationField = gen.RandomAF(r, 40, -1, -1)
			d.AdaptationField.DiscontinuityIndicator = false
		}
		mon.Guarded(func() { m.WriteData(d) })
	}
	return buf.Bytes()
}

func mutate(r *rand.Rand, in []byte) ([]byte, string) {
	b := append([]byte{}, in...)
	if len(b) == 0 {
		return b, "none"
	}
	kind := []string{"bitflips", "extreme-bytes", "af-length", "length-fields", "insert", "delete", "truncate", "splice", "payload-garbage"}[r.IntN(9)]
	np := len(b) / 188
	switch kind {
	case "bitflips":
		for k := 0; k < 1+r.IntN(8); k++ {
			b[r.IntN(len(b))] ^= 1 << uint(r.IntN(8))
		}
	case "extreme-bytes":
		for k := 0; k < 1+r.IntN(6); k++ {
			b[r.IntN(len(b))] = []byte{0, 1, 0x7f, 0x80, 0xfe, 0xff, 0x47}[r.IntN(7)]
		}
	case "af-length":
		for k := 0; k < 1+r.IntN(3) && np > 0; k++ {
			o := r.IntN(np) * 188
			b[o+3] |= 0x20
			b[o+4] = []byte{0, 1, 182, 183, 184, 200, 255, byte(r.UintN(256))}[r.IntN(8)]
			if r.IntN(2) == 0 {
				b[o+5] = byte(r.UintN(256)) // flags: claims parts that may not fit
			}
		}
	case "length-fields":
		// bytes shortly after a payload start are section/PES length fields, descriptor lengths follow
		for k := 0; k < 1+r.IntN(4) && np > 0; k++ {
			o := r.IntN(np)*188 + 4 + r.IntN(24)
			b[o] = []byte{0, 1, 0xff, 0xf0, 0x0f, byte(r.UintN(256))}[r.IntN(6)]
			if r.IntN(2) == 0 && o+1 < len(b) {
				b[o+1] = []byte{0, 0xff, byte(r.UintN(256))}[r.IntN(3)]
			}
		}
	case "insert":
		o := r.IntN(len(b))
		ins := gen.Bytes(r, 1+r.IntN(5))
		b = append(b[:o], append(ins, b[o:]...)...)
	case "delete":
		o := r.IntN(len(b))
		n := 1 + r.IntN(5)
		if o+n > len(b) {
			n = len(b) - o
		}
		b = append(b[:o], b[o+n:]...)
	case "truncate":
		b = b[:r.IntN(len(b))]
	case "splice":
		o := r.IntN(len(b))
		b = append(b[:o], in[r.IntN(len(in)):]...)
	case "payload-garbage":
		if np > 0 {
			o := r.IntN(np) * 188
			for j := 4; j < 188; j++ {
				b[o+j] = byte(r.UintN(256))
			}
		}
	}
	return b, kind
}

// longSkipCase: a skipper that keeps one PID of a multiplex in which that PID stays silent for `run` packets: the Demuxer skips them
// all inside one call, and must come back with the packet that follows (or the end of the stream), however long the run was.
func longSkipCase(c *mon.Ctx, idx int64, run int, k c03cfg) {
	s := newLongStream()
	s.pes(0x200, 0xe0, 1, longData(0x200, 1, 400), false)
	for q := 0; q < run; q++ {
		s.packet([]uint16{0x100, 0x101}[q%2], q < 2, longData(0x100, q, 184))
	}
	s.pes(0x200, 0xe0, 2, longData(0x200, 2, 100), false)
	in := s.b
	if k.size > 188 {
		in = refts.Reframe(in, k.size-188, func(p, j int) byte { return byte(p + j) })
	}
	cfg := DemuxCfg{PacketSize: k.size, Reader: k.reader, API: k.api, ExtraAfterEOF: 3, Skipper: func(p *astits.Packet) bool { return p.Header.PID != 0x200 }}
	r := RunDemux(in, cfg)
	c.Count("executions")
	c.Count("long_skipped_runs")
	c.Max("longest_skipped_run_packets", int64(run))
	data := map[string]any{"skipped_run_packets": run, "config": cfg.String()}
	switch {
	case r.Panic != "":
		c.Violate("C03/panic:"+r.PanicClass, "long-skip", idx, r.Panic, data)
	case r.EOFAt < 0:
		c.Violate("C03/no-termination:long-skip/"+k.reader, "long-skip", idx, fmt.Sprintf("%d calls without ErrNoMorePackets", r.Calls), data)
	case r.PostEOFBad != "":
		c.Violate("C03/result-after-end-of-stream:long-skip/"+k.reader, "long-skip", idx, r.PostEOFBad, data)
	}
	c.Case(mon.HashStr("c03longskip", fmt.Sprint(run), k.cell()), true)
}

func runC03(c *mon.Ctx) {
	{
		runs := []int{255, 256, 257, 1023, 1024, 1025, 4096, 65535, 65536, 65537, 131073}
		if c.Thorough() {
			runs = append(runs, 262145, 70000, 200000)
		}
		var idx int64
		for ri, run := range runs {
			for ci, rd := range []string{"seek", "bufio", "plain"} {
				for si, sz := range []int{188, 0, 192} {
					for ai, api := range []string{"packet", "data", "alt"} {
						idx++
						if run > 2000 && !c.Thorough() && (ri+ci+si+ai)%3 != 0 {
							continue
						}
						if c.Mine("long-skip", idx) {
							longSkipCase(c, idx, run, c03cfg{size: sz, reader: rd, api: api, opt: 1})
						}
					}
				}
			}
		}
	}
	// fixed small inputs under the full configuration cross product
	fixed := [][]byte{{}, {0x47}, {0x00}, bytes.Repeat([]byte{0x47}, 187), bytes.Repeat([]byte{0x47}, 188), bytes.Repeat([]byte{0x47}, 192), bytes.Repeat([]byte{0x47}, 193),
		bytes.Repeat([]byte{0x47}, 400), bytes.Repeat([]byte{0x00}, 400), bytes.Repeat([]byte{0xff}, 1000), append([]byte{0x47}, bytes.Repeat([]byte{0}, 192)...),
		append(bytes.Repeat([]byte{0x11}, 50), bytes.Repeat([]byte{0x47}, 500)...)}
	var cells []c03cfg
	for _, sz := range []int{0, 188, 192, 204, 333} {
		for _, rd := range []string{"seek", "bufio", "plain"} {
			for ch := 0; ch < 3; ch++ {
				for _, api := range []string{"packet", "data", "alt"} {
					for opt := 0; opt < 4; opt++ {
						cells = append(cells, c03cfg{sz, rd, ch, api, opt})
					}
				}
			}
		}
	}
	for fi := range fixed {
		for ci, k := range cells {
			idx := int64(fi*len(cells) + ci)
			if !c.Mine("fixed", idx) {
				continue
			}
			c.Begin("fixed", idx, nil)
			execC03(c, "fixed", idx, fixed[fi], k, c.Rng("fixed", idx), "fixed")
		}
	}
	// random and mutated inputs
	n := c.Pick(60000, 3000000)
	for i := int64(0); i < n; i++ {
		if !c.Mine("mutated", i) {
			continue
		}
		c.Begin("mutated", i, nil)
		r := c.Rng("mutated", i)
		var input []byte
		kind := ""
		switch r.IntN(10) {
		case 0:
			input = gen.Bytes(r, r.IntN(int(c.Pick(4096, 65536))))
			kind = "random-bytes"
			if r.IntN(2) == 0 && len(input) > 0 {
				for o := 0; o < len(input); o += 188 {
					input[o] = 0x47
				}
				kind = "random-with-sync"
			}
		case 1, 2:
			input, kind = mutate(r, libMuxStream(r))
			kind = "libmux+" + kind
		default:
			s := richStream(r)
			input, kind = mutate(r, s.Bytes)
			if r.IntN(4) == 0 {
				input, _ = mutate(r, input)
				kind += "+more"
			}
			kind = "refmux+" + kind
		}
		c.Count("input_kind_" + strings.SplitN(kind, "+", 2)[0])
		nc := int(c.Pick(3, 4))
		for q := 0; q < nc; q++ {
			k := randomC03Cfg(r)
			in := input
			if k.size > 188 && r.IntN(2) == 0 && len(input) >= 188 {
				// carry the same packets in the larger framing so that parsing goes deep
				kk := k.size - 188
				in = refts.Reframe(input[:len(input)/188*188], kk, func(p, j int) byte { return byte(p + j) })
			}
			execC03(c, "mutated", i, in, k, r, kind)
		}
		if i < 2 {
			c.Sample("mutated", map[string]any{"input_kind": kind, "len": len(input), "head": mon.Hex(input, 32)})
		}
	}
	// truncation at every offset of small well-formed streams
	nt := c.Pick(40, 1200)
	for i := int64(0); i < nt; i++ {
		if !c.Mine("truncate", i) {
			continue
		}
		c.Begin("truncate", i, nil)
		r := c.Rng("truncate", i)
		var s *gen.Stream
		for {
			s = richStream(r)
			if len(s.Packets) <= 12 {
				break
			}
		}
		for cut := 0; cut <= len(s.Bytes); cut++ {
			k := randomC03Cfg(r)
			execC03(c, "truncate", i, s.Bytes[:cut], k, r, "truncated-at-every-offset")
			c.Count("truncation_offsets_tried")
		}
		// a truncated final packet is the end of the stream, not an error: w whole packets (also none: the stream is nothing but a
		// truncated packet) followed by the first bytes of the next one, every reader kind, explicit and detected size
		for w := 0; w <= 3 && w < len(s.Packets); w++ {
			for _, extra := range []int{1, 5, 6, 100, 187} {
				if w == 1 && extra < 5 {
					continue // 189..192 bytes: one packet of that size or a 188 byte packet and a tail, detection cannot know
				}
				cut := w*188 + extra
				for _, rd := range []string{"seek", "bufio", "plain"} {
					for _, ps := range []int{188, 0} {
						run := RunDemux(s.Bytes[:cut], DemuxCfg{PacketSize: ps, Reader: rd, API: "packet"})
						c.Count("truncated_final_packet_checks")
						if run.Panic != "" {
							c.Violate("C03/panic:"+run.PanicClass, "truncate", i, run.Panic, nil)
						} else if errs := run.Errors(); len(errs) > 0 {
							c.Violate("C03/error-on-truncated-final-packet:"+rd+":"+sizeCls(ps), "truncate", i, fmt.Sprintf("%d whole packets + %d bytes: %v", w, extra, errs[0]), map[string]any{"stream": mon.Hex(s.Bytes[:cut], 800)})
						}
					}
				}
			}
		}
		// truncated final packet == end of stream (explicit 188 and auto)
		for _, api := range []string{"packet", "data"} {
			for _, ps := range []int{188, 0} {
				if ps == 0 && len(s.Packets) < 2 {
					continue
				}
				base := RunDemux(s.Bytes, DemuxCfg{PacketSize: ps, Reader: "seek", API: api})
				for _, extra := range []int{1, 4, 100, 187} {
					tail := append(append([]byte{}, s.Bytes...), s.Bytes[:extra]...)
					run := RunDemux(tail, DemuxCfg{PacketSize: ps, Reader: []string{"seek", "bufio", "plain"}[extra%3], API: api})
					c.Count("truncated_final_packet_checks")
					if ps == 0 && extra%3 == 2 {
						continue // plain + auto loses the peeked packets by design (C08)
					}
					if run.Panic != "" {
						c.Violate("C03/panic:"+run.PanicClass, "truncate", i, run.Panic, nil)
					} else if d := itemsEqual(run.Items, base.Items); d != "" {
						c.Violate("C03/truncated-final-packet-changes-output:"+api+":"+sizeCls(ps), "truncate", i, fmt.Sprintf("%d trailing bytes: %s", extra, d), map[string]any{"stream": mon.Hex(s.Bytes, 2000)})
					}
				}
			}
		}
	}
	// malformed descriptor lengths inside well-formed sections (section and loop lengths consistent, CRC valid): the
	// declared descriptor_length is shorter / longer than the body the tag implies, for every tag, at every loop position
	tagsAll := append(gen.TypedTags(), 0x80, 0x02, 0xFF)
	nd := c.Pick(int64(len(tagsAll))*40, int64(len(tagsAll))*1500)
	for i := int64(0); i < nd; i++ {
		if !c.Mine("desc-lengths", i) {
			continue
		}
		c.Begin("desc-lengths", i, nil)
		r := c.Rng("desc-lengths", i)
		tag := tagsAll[int(i)%len(tagsAll)]
		d := gen.Descriptor(r, tag, 1+r.IntN(60))
		w := &refts.W{}
		if refts.EncodeDescriptor(w, d) != nil {
			continue
		}
		body := append(w.B[2:], gen.Bytes(r, 4)...)
		kind := []refts.TableKind{refts.KindPMT, refts.KindSDT, refts.KindEIT, refts.KindNIT, refts.KindTOT}[r.IntN(5)]
		for L := 0; L <= len(body); L++ {
			sec := gen.RandomSection(r, kind, 300, 0)
			ph := &astits.Descriptor{Tag: 0x80, Length: uint8(L), UserDefined: bytes.Repeat([]byte{0xD5}, L)}
			sent := &astits.Descriptor{Tag: 0xA5, Length: 3, UserDefined: []byte{0x5E, byte(L), 0xE5}}
			loop := []*astits.Descriptor{ph, sent}
			if r.IntN(2) == 0 {
				loop = append(gen.Descriptors(r, 20), loop...)
			}
			sd := sec.Syntax.Data
			switch kind {
			case refts.KindPMT:
				if r.IntN(2) == 0 || len(sd.PMT.ElementaryStreams) == 0 {
					sd.PMT.ProgramDescriptors = loop
				} else {
					sd.PMT.ElementaryStreams[0].ElementaryStreamDescriptors = loop
				}
			case refts.KindSDT:
				sd.SDT.Services = append(sd.SDT.Services, &astits.SDTDataService{ServiceID: 1, Descriptors: loop})
			case refts.KindEIT:
				sd.EIT.Events = append(sd.EIT.Events, &astits.EITDataEvent{EventID: 1, StartTime: gen.DVBTime(r), Descriptors: loop})
			case refts.KindNIT:
				if r.IntN(2) == 0 {
					sd.NIT.NetworkDescriptors = loop
				} else {
					sd.NIT.TransportStreams = append(sd.NIT.TransportStreams, &astits.NITDataTransportStream{TransportDescriptors: loop})
				}
			case refts.KindTOT:
				sd.TOT.Descriptors = loop
			}
			enc, err := refts.EncodeSection(sec, nil)
			if err != nil {
				continue
			}
			// patch the placeholder into the malformed descriptor and re-sign the section
			pos := bytes.Index(enc, append([]byte{0x80, byte(L)}, bytes.Repeat([]byte{0xD5}, L)...))
			if pos < 0 {
				continue
			}
			enc[pos] = d.Tag
			copy(enc[pos+2:pos+2+L], body[:L])
			crc := refts.CRC32(enc[:len(enc)-4])
			enc[len(enc)-4], enc[len(enc)-3], enc[len(enc)-2], enc[len(enc)-1] = byte(crc>>24), byte(crc>>16), byte(crc>>8), byte(crc)
			pid := gen.PIDFor(kind)
			u := &gen.Unit{PID: pid, Kind: gen.UnitPSI, Payload: append([]byte{0}, enc...), TailPad: true}
			u.PlanChunks(gen.RandomChunks(r, len(u.Payload), 0, 0, true))
			per := map[uint16][]*gen.Unit{pid: {u}}
			order := repeatPID(pid, len(u.Plan))
			if kind == refts.KindPMT {
				per[0] = []*gen.Unit{gen.PATFor(r, pid)}
				order = append([]uint16{0}, order...)
			}
			st := gen.Mux(per, order, nil)
			execC03(c, "desc-lengths", i, st.Bytes, c03cfg{188, "seek", 0, "data", 0}, r, fmt.Sprintf("descriptor-length:%02x", d.Tag))
			c.Count("malformed_descriptor_length_cases")
			c.Seen("malformed_descriptor_tags", fmt.Sprintf("%02x", d.Tag))
		}
	}
	// stored fuzz corpora of the repository
	if c.Mine("corpus", 0) {
		c.Begin("corpus", 0, nil)
		r := c.Rng("corpus", 0)
		for _, root := range []string{"/repo/testdata/fuzz/FuzzDemuxer", os.Getenv("VERIF_REPO") + "/testdata/fuzz/FuzzDemuxer"} {
			files, _ := filepath.Glob(root + "/*")
			for _, f := range files {
				b, err := os.ReadFile(f)
				if err != nil {
					continue
				}
				in := parseFuzzCorpus(b)
				if in == nil {
					continue
				}
				c.Count("fuzz_corpus_inputs")
				for _, k := range cells {
					if r.IntN(4) == 0 {
						execC03(c, "corpus", 0, in, k, r, "fuzz-corpus:"+filepath.Base(f))
					}
				}
			}
			if len(files) > 0 {
				break
			}
		}
	}
}

// parseFuzzCorpus extracts the []byte argument of a `go test fuzz v1` corpus file.
func parseFuzzCorpus(b []byte) []byte {
	for _, line := range strings.Split(string(b), "\n") {
		line = strings.TrimSpace(line)
		if strings.HasPrefix(line, "[]byte(") && strings.HasSuffix(line, ")") {
			q := line[len("[]byte(") : len(line)-1]
			s, err := strconvUnquote(q)
			if err == nil {
				return []byte(s)
			}
		}
	}
	return nil
}
