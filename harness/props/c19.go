package props

import (
	"bytes"
	"errors"
	"fmt"
	"math/rand/v2"
	"strings"

	astits "github.com/asticode/go-astits"

	"verifharness/gen"
	"verifharness/mon"
	"verifharness/refts"
)

func init() {
	register(&Prop{
		ID:    "C19",
		Level: "exploration",
		Rule: "generated streams (clean, with continuity gaps, with adaptation-only packets interleaved, with runs of 1023..6000 consecutive skipped packets) x predicates {PID set, continuity counter, PUSI, adaptation flags (RAI, PCR, discontinuity), per-packet coin flips, skip-all, skip-none} x " +
			"{NextPacket, NextData}: output with the skipper compared with the output on the stream with those packets deleted; every skipper invocation logged (count, order, header/AF vs reference decoding); " +
			"parsers {observer, replacer returning 0..3 synthetic data, failing on the n-th unit}: groups logged and compared with the model's units; plus units of 256..2100 packets after a mid-unit join under skipper + observer (stage giant), runs of up to 140 000 skipped packets, interior section headers at every offset before a packet end (header-straddle) and a parser that keeps its groups and re-reads them at the end (retained); distinct = hash(stream, predicate/parser); " +
			"non-trivial = the predicate skipped ≥1 and kept ≥1 packet, or the parser saw ≥2 groups",
		Assumptions: []string{"the filtered stream is built by the harness from the same per-packet decisions", "parser errors raised while draining at end of stream are logged by the library, not returned; only errors on the streaming path are required to surface"},
		Shards:      32,
		Run:         runC19,
		Guards: func(m *mon.Merged, tier string) []string {
			var out []string
			need(m, &out, "skipper_runs", 1500)
			need(m, &out, "skipper_callbacks_observed", 20000)
			need(m, &out, "packets_skipped", 3000)
			need(m, &out, "adaptation_only_packets_in_streams", 500)
			need(m, &out, "long_skipped_runs", 8)
			need(m, &out, "giant_unit_streams", 12)
			need(m, &out, "retained_groups_rechecked", 1000)
			need(m, &out, "straddle_units_under_a_parser", 300)
			need(m, &out, "streams_with_unparsable_packets", 100)
			need(m, &out, "parser_runs_on_damaged_streams", 200)
			need(m, &out, "parser_groups_observed", 1000)
			need(m, &out, "parser_replaced_units", 300)
			need(m, &out, "parser_errors_surfaced", 20)
			needSet(m, &out, "predicates", 8)
			return out
		},
	})
}

type pred struct {
	name string
	f    func(idx int, p *astits.Packet) bool
}

func predicates(r *rand.Rand, s *gen.Stream) []pred {
	pids := map[uint16]bool{}
	var plist []uint16
	for _, p := range s.Packets {
		if !pids[p.Header.PID] {
			pids[p.Header.PID] = true
			plist = append(plist, p.Header.PID)
		}
	}
	skipSet := map[uint16]bool{}
	for _, p := range plist {
		if r.IntN(2) == 0 {
			skipSet[p] = true
		}
	}
	coin := make([]bool, len(s.Packets))
	for i := range coin {
		coin[i] = r.IntN(4) == 0
	}
	ccv := uint8(r.UintN(16))
	return []pred{
		{"pid-set", func(_ int, p *astits.Packet) bool { return skipSet[p.Header.PID] }},
		{"continuity-counter", func(_ int, p *astits.Packet) bool { return p.Header.ContinuityCounter == ccv }},
		{"pusi", func(_ int, p *astits.Packet) bool { return p.Header.PayloadUnitStartIndicator }},
		{"not-pusi", func(_ int, p *astits.Packet) bool { return !p.Header.PayloadUnitStartIndicator }},
		{"af-rai", func(_ int, p *astits.Packet) bool {
			return p.AdaptationField != nil && p.AdaptationField.RandomAccessIndicator
		}},
		{"af-pcr", func(_ int, p *astits.Packet) bool { return p.AdaptationField != nil && p.AdaptationField.HasPCR }},
		{"has-af", func(_ int, p *astits.Packet) bool { return p.Header.HasAdaptationField }},
		{"coin", func(i int, _ *astits.Packet) bool { return i < len(coin) && coin[i] }},
		{"skip-all", func(int, *astits.Packet) bool { return true }},
		{"skip-none", func(int, *astits.Packet) bool { return false }},
	}
}

// giantUnitsCase: a capture that joins PID 0x100 in the middle of a unit (continuation packets first), followed by units of 257 to a
// few thousand packets, merged with a PID the skipper deletes and a PID of small units; an observing PacketsParser must be handed
// every unit whole, once, and the data must be those of the filtered stream.
func giantUnitsCase(c *mon.Ctx, idx int64, r *rand.Rand) {
	a, b, d := newLongStream(), newLongStream(), newLongStream()
	a.cc[0x100] = uint8(r.IntN(16))
	for q := 0; q < []int{0, 1, 3, 20}[int(idx)%4]; q++ {
		a.packet(0x100, false, longData(0x100, 900+q, 184)) // the end of a unit that started before the capture
	}
	sizes := []int{257, 256, 300, 1025, 1100, 2100}
	for q := 0; q < 3; q++ {
		n := sizes[(int(idx)+q*2)%len(sizes)]
		a.pes(0x100, 0xe0, int64(100+q), longData(0x100, q, n*184-14-r.IntN(100)), false)
		a.pes(0x100, 0xe0, int64(200+q), longData(0x100, 50+q, 1+r.IntN(400)), false)
	}
	for q := 0; q < 200+r.IntN(2000); q++ {
		b.packet(0x200, q%7 == 0, longData(0x200, q, 184))
	}
	for q := 0; q < 10+r.IntN(30); q++ {
		d.pes(0x101, 0xc0, int64(300+q), longData(0x101, q, 1+r.IntN(700)), true)
	}
	s := mergeStreams(r, a, b, d)
	consulted := 0
	type grp struct {
		pid  uint16
		n    int
		pusi bool
		bad  string
	}
	var groups []grp
	cfg := DemuxCfg{PacketSize: 188, Reader: []string{"seek", "bufio", "plain"}[int(idx)%3], API: "data", MaxCalls: s.n + 64,
		Skipper: func(p *astits.Packet) bool { consulted++; return p.Header.PID == 0x200 },
		Parser: func(ps []*astits.Packet) ([]*astits.DemuxerData, bool, error) {
			g := grp{}
			if len(ps) == 0 {
				g.bad = "empty group"
			} else {
				g.pid, g.n, g.pusi = ps[0].Header.PID, len(ps), ps[0].Header.PayloadUnitStartIndicator
				for _, p := range ps {
					if p.Header.PID != g.pid {
						g.bad = "packets of several PIDs in one group"
					}
				}
			}
			groups = append(groups, g)
			return nil, false, nil
		}}
	run := RunDemux(s.b, cfg)
	c.Count("giant_unit_streams")
	c.Case(mon.HashStr("c19giant", fmt.Sprint(idx)), true)
	data := map[string]any{"packets": s.n, "units_on_0x100_packets": fmt.Sprint(func() (o []int) {
		for _, u := range s.want[0x100] {
			o = append(o, u.packets)
		}
		return
	}())}
	if run.Panic != "" {
		c.Violate("C19/giant/panic", "giant", idx, run.Panic, data)
		return
	}
	if es := run.Errors(); len(es) > 0 {
		c.Violate("C19/giant/error-on-wellformed-stream", "giant", idx, es[0].Error(), data)
		return
	}
	if consulted != s.n {
		c.Violate("C19/skipper/consultation-count", "giant", idx, fmt.Sprintf("predicate consulted %d times for %d packets", consulted, s.n), data)
	}
	if dd := s.compareExcept(run.Datas(), 0x200); dd != "" {
		c.Violate("C19/giant/data-differ-from-filtered-stream", "giant", idx, dd, data)
	}
	// the groups that start with a unit start, per PID, are the units of the stream
	per := map[uint16][]grp{}
	for _, g := range groups {
		if g.bad != "" {
			c.Violate("C19/parser/malformed-group", "giant", idx, g.bad, data)
			return
		}
		if g.pid == 0x200 {
			c.Violate("C19/parser/handed-skipped-packets", "giant", idx, "a group on the PID the skipper deletes", data)
			return
		}
		if g.pusi {
			per[g.pid] = append(per[g.pid], g)
		}
	}
	for _, pid := range []uint16{0x100, 0x101} {
		w := s.want[pid]
		g := per[pid]
		for k := range w {
			if k >= len(g) || g[k].n != w[k].packets {
				got := -1
				if k < len(g) {
					got = g[k].n
				}
				c.Violate("C19/parser/unit-not-handed-over-whole", "giant", idx, fmt.Sprintf("PID %#x unit %d has %d packets; the parser was handed %d groups starting a unit on that PID, number %d with %d packets", pid, k, w[k].packets, len(g), k, got), data)
				return
			}
		}
		if len(g) != len(w) {
			c.Violate("C19/parser/unit-handed-over-more-than-once", "giant", idx, fmt.Sprintf("PID %#x: %d units, %d groups", pid, len(w), len(g)), data)
			return
		}
		c.Add("parser_groups_observed", int64(len(g)))
	}
}

// straddleParserCase: table units whose interior section header is split between two packets (or sits anywhere else in a packet),
// under an observing PacketsParser: it must be handed the unit whole — every packet from the unit start to the last one — once.
func straddleParserCase(c *mon.Ctx, idx int64, r *rand.Rand, kind refts.TableKind, before int) {
	s, u := straddleStream(r, kind, before)
	var groups [][]int // continuity counters of the packets of every group handed over on the unit's PID
	cfg := baseCfg("data")
	cfg.Parser = func(ps []*astits.Packet) ([]*astits.DemuxerData, bool, error) {
		if len(ps) > 0 && ps[0].Header.PID == u.PID {
			var g []int
			for _, p := range ps {
				g = append(g, int(p.Header.ContinuityCounter))
			}
			groups = append(groups, g)
		}
		return nil, false, nil
	}
	run := RunDemux(s.Bytes, cfg)
	c.Count("straddle_units_under_a_parser")
	c.Case(mon.HashBytes("c19hs", s.Bytes), true)
	data := map[string]any{"stream": mon.Hex(s.Bytes, 1500), "section_header_starts_bytes_before_packet_end": before}
	if run.Panic != "" {
		c.Violate("C19/parser/panic", "header-straddle", idx, run.Panic, data)
		return
	}
	if len(groups) != 1 || len(groups[0]) != len(u.Pkts) {
		c.Violate("C19/parser/unit-not-handed-over-whole", "header-straddle", idx, fmt.Sprintf("the unit on PID %#x has %d packets; the parser was handed %d group(s) on that PID: %v", u.PID, len(u.Pkts), len(groups), groups), data)
		return
	}
	if !checkStreamDelivery(c, "C19", "header-straddle", idx, s, nil, run, false) {
		return
	}
}

// retainedGroupsCase: a PacketsParser that keeps the slices it is handed (an observer that looks at its groups when the stream is
// over). Units on the PAT PID and a PMT PID that are complete at once are followed by packets of every kind on the same PID — the
// next unit, the tail of a unit whose start was lost, a duplicate, stuffing: at the end every group is still the unit it was when it
// was handed over.
func retainedGroupsCase(c *mon.Ctx, idx int64, r *rand.Rand) {
	var pk []*astits.Packet
	cc := map[uint16]uint8{}
	add := func(pid uint16, pusi bool, payload []byte, tail bool) {
		pk = append(pk, gen.BuildPacket(pid, cc[pid], pusi, payload, nil, tail))
		cc[pid]++
	}
	unit := func(pid uint16, u *gen.Unit) {
		for off := 0; off < len(u.Payload); off += 184 {
			add(pid, off == 0, u.Payload[off:min(off+184, len(u.Payload))], true)
		}
	}
	unit(0, gen.PATFor(r, 0x1000))
	for k := 0; k < 3+r.IntN(5); k++ {
		pid := []uint16{0x1000, 0x1000, 0}[r.IntN(3)]
		kind := refts.KindPMT
		if pid == 0 {
			kind = refts.KindPAT
		}
		sec := gen.SimpleSection(r, kind, 1+k, r.IntN(100))
		if pid == 0 {
			sec.Syntax.Data.PAT.Programs = append(sec.Syntax.Data.PAT.Programs, &astits.PATProgram{ProgramNumber: 1, ProgramMapID: 0x1000})
		}
		unit(pid, gen.NewPSIUnit(r, pid, 1+k, []*astits.PSISection{sec}, 0, false))
		switch r.IntN(4) {
		case 0: // the tail of a unit whose first packet was lost
			cc[pid] += uint8(1 + r.IntN(3))
			for q := 0; q < 1+r.IntN(3); q++ {
				add(pid, false, gen.Bytes(r, 184), false)
			}
		case 1: // stuffing-only continuation
			add(pid, false, bytes.Repeat([]byte{0xff}, 184), false)
		case 2: // a PES PID in between
			add(0x100, true, append([]byte{0, 0, 1, 0xe0, 0, 0, 0x80, 0, 0}, gen.Bytes(r, 100)...), false)
		}
	}
	s := &gen.Stream{Packets: pk}
	s.Encode()
	type kept struct {
		ps  []*astits.Packet
		sig string
	}
	sig := func(ps []*astits.Packet) string {
		o := ""
		for _, p := range ps {
			o += fmt.Sprintf("%x/%d/%v/%x;", p.Header.PID, p.Header.ContinuityCounter, p.Header.PayloadUnitStartIndicator, mon.HashBytes("p", p.Payload))
		}
		return o
	}
	var groups []kept
	cfg := baseCfg("data")
	cfg.Parser = func(ps []*astits.Packet) ([]*astits.DemuxerData, bool, error) {
		groups = append(groups, kept{ps, sig(ps)})
		return nil, false, nil
	}
	run := RunDemux(s.Bytes, cfg)
	c.Count("retained_group_streams")
	c.Case(mon.HashBytes("c19keep", s.Bytes), true)
	data := map[string]any{"stream": mon.Hex(s.Bytes, 1500)}
	if run.Panic != "" {
		c.Violate("C19/parser/panic", "retained", idx, run.Panic, data)
		return
	}
	for k, g := range groups {
		if now := sig(g.ps); now != g.sig {
			c.Violate("C19/parser/group-changed-after-it-was-handed-over", "retained", idx, fmt.Sprintf("group %d (pid/counter/unit-start/payload per packet) was %s when the parser got it and is %s at the end of the stream", k, g.sig, now), data)
			return
		}
		c.Count("retained_groups_rechecked")
	}
}

func runC19(c *mon.Ctx) {
	longRuns(c)
	for i := int64(0); i < c.Pick(400, 10000); i++ {
		if c.Mine("retained", i) {
			retainedGroupsCase(c, i, c.Rng("retained", i))
		}
	}
	for i := int64(0); i < 2*184; i++ {
		if before := int(i % 184); before != 0 && c.Mine("header-straddle", i) {
			straddleParserCase(c, i, c.Rng("header-straddle", i), []refts.TableKind{refts.KindPAT, refts.KindPMT}[i/184], before)
		}
	}
	for i := int64(0); i < c.Pick(12, 240); i++ {
		if c.Mine("giant", i) {
			giantUnitsCase(c, i, c.Rng("giant", i))
		}
	}
	n := c.Pick(1000, 120000)
	for i := int64(0); i < n; i++ {
		if !c.Mine("streams", i) {
			continue
		}
		r := c.Rng("streams", i)
		m := gen.RandomModel(r, gen.ModelOpts{MaxPES: 3, MaxPMT: 2, MaxSI: 2, MaxUnits: 3, RichAF: true, Scrambled: i%4 < 2, SharedPMTPID: i%4 == 3})
		s := m.Build(r)
		clean := true
		var orig *gen.Stream
		if i%3 == 2 {
			// a damaged variant: drop a few packets (continuity gaps); skipper equivalence must still hold
			var keep []*astits.Packet
			for _, p := range s.Packets {
				if r.IntN(12) != 0 {
					keep = append(keep, p)
				}
			}
			if len(keep) > 0 {
				s = &gen.Stream{Packets: keep}
				s.Encode()
				clean = false
			}
		}
		if i%2 == 1 {
			// adaptation-only packets (AFC 10: clock references and flags, no payload) between the others: they belong to the
			// stream like any packet, so the predicate is consulted for them too and NextPacket returns them unless skipped
			orig = s
			s = withAFOnly(r, s)
			c.Add("adaptation_only_packets_in_streams", int64(len(s.Packets)-len(orig.Packets)))
		}
		if i%5 == 3 && len(s.Bytes) >= 376 {
			// one or two packets with an adaptation field that runs past the end of the packet: reading them fails, with or without a
			// skipper, and the predicate is never shown a half-parsed packet
			b := append([]byte{}, s.Bytes...)
			for q := 0; q < 1+r.IntN(2); q++ {
				k := r.IntN(len(b) / 188)
				b[k*188+3] = b[k*188+3]&0x0f | 0x30
				b[k*188+4], b[k*188+5], b[k*188+6] = 10, 0x02, 0xff
			}
			s = &gen.Stream{Packets: s.Packets, Bytes: b}
			clean, orig = false, nil
			c.Count("streams_with_unparsable_packets")
		}
		ref := make([]*astits.Packet, len(s.Bytes)/188)
		for k := range ref {
			if p, err := refts.DecodePacket(s.Bytes[k*188 : (k+1)*188]); err == nil {
				ref[k] = p
			}
		}
		for _, pr := range predicates(r, s) {
			for _, api := range []string{"packet", "data"} {
				skipperCase(c, i, s, ref, pr, api)
			}
		}
		if !clean {
			damagedParserCase(c, i, s)
		}
		if clean {
			if orig != nil {
				// the parser never sees payload-less packets: same groups with and without them
				afo := RunDemux(s.Bytes, baseCfg("data"))
				if d := itemsEqual(afo.Items, RunDemux(orig.Bytes, baseCfg("data")).Items); d != "" {
					c.Violate("C19/adaptation-only-packets-change-the-data", "streams", i, d, map[string]any{"stream": mon.Hex(s.Bytes, 1500)})
				}
				s = orig
			}
			parserCases(c, i, r, s, m)
		}
		pendingThenCompleteCase(c, i, r)
		if i < 2 {
			c.Sample("streams", map[string]any{"packets": len(s.Packets), "clean": clean, "predicates": "pid-set, continuity-counter, pusi, not-pusi, af-rai, af-pcr, has-af, coin, skip-all, skip-none"})
		}
	}
}

// longRuns: a run of N consecutive packets the predicate skips (null packets, N around 1024 and beyond) in the middle of a stream:
// one call has to pass over all of them, the result must still equal the filtered stream's, without an error.
func longRuns(c *mon.Ctx) {
	n := c.Pick(24, 96)
	for i := int64(0); i < n; i++ {
		if !c.Mine("long-run", i) {
			continue
		}
		r := c.Rng("long-run", i)
		m := gen.RandomModel(r, gen.ModelOpts{MaxPES: 2, MaxPMT: 1, MaxSI: 1, MaxUnits: 3})
		s0 := m.Build(r)
		N := []int{1023, 1024, 1025, 2048, 2049, 3000 + r.IntN(3000), 1 + r.IntN(1500), 4096}[int(i)%8]
		if i >= 8 && i%4 == 0 {
			N = []int{65535, 65536, 65537, 70000 + r.IntN(70000)}[int(i/4)%4]
		}
		at := r.IntN(len(s0.Packets) + 1)
		var pk []*astits.Packet
		pk = append(pk, s0.Packets[:at]...)
		for k := 0; k < N; k++ {
			pk = append(pk, &astits.Packet{Header: astits.PacketHeader{PID: 0x1fff, HasPayload: true, ContinuityCounter: uint8(k & 15)}, Payload: bytes.Repeat([]byte{0xff}, 184)})
		}
		pk = append(pk, s0.Packets[at:]...)
		s := &gen.Stream{Packets: pk}
		s.Encode()
		ref := make([]*astits.Packet, len(s.Packets))
		for k := range s.Packets {
			ref[k], _ = refts.DecodePacket(s.Bytes[k*188 : (k+1)*188])
		}
		for _, pr := range []pred{
			{"null-pid-run", func(_ int, p *astits.Packet) bool { return p.Header.PID == 0x1fff }},
			{"skip-all", func(int, *astits.Packet) bool { return true }},
			{"skip-none", func(int, *astits.Packet) bool { return false }},
		} {
			for _, api := range []string{"packet", "data"} {
				skipperCase(c, i, s, ref, pr, api)
			}
		}
		c.Count("long_skipped_runs")
		c.Max("longest_skipped_run", int64(N))
	}
}

func skipperCase(c *mon.Ctx, idx int64, s *gen.Stream, ref []*astits.Packet, pr pred, api string) {
	data := map[string]any{"predicate": pr.name, "api": api, "stream": mon.Hex(s.Bytes, 1500)}
	calls := 0
	var problems []string
	var decisions []bool
	var shown []*astits.Packet // header and adaptation field as they were at consultation time, for the packets that were kept
	// packets the reference decoder rejects (a damaged adaptation field) cannot be offered to the predicate "fully parsed": the
	// k-th consultation belongs to the k-th well-formed packet
	var wf []int
	for k := range ref {
		if ref[k] != nil {
			wf = append(wf, k)
		}
	}
	skipper := func(p *astits.Packet) bool {
		k := calls
		calls++
		if k >= len(wf) {
			problems = append(problems, fmt.Sprintf("callback %d but the stream has %d well-formed packets", k, len(wf)))
			return false
		}
		k = wf[k]
		want := &astits.Packet{Header: ref[k].Header, AdaptationField: ref[k].AdaptationField}
		got := &astits.Packet{Header: p.Header, AdaptationField: p.AdaptationField}
		if d := mon.Diff(got, want, ignoreOneByte); d != "" && len(problems) < 3 {
			problems = append(problems, fmt.Sprintf("callback %d: argument differs from packet %d of the stream: %s", k, k, d))
		}
		dec := pr.f(k, p)
		decisions = append(decisions, dec)
		if !dec {
			shown = append(shown, mon.Clone(got))
		}
		return dec
	}
	cfg := baseCfg(api)
	cfg.Skipper = skipper
	run := RunDemux(s.Bytes, cfg)
	c.Count("skipper_runs")
	c.Seen("predicates", pr.name)
	c.Add("skipper_callbacks_observed", int64(calls))
	if run.Panic != "" {
		c.Violate("C19/skipper/panic", "streams", idx, run.Panic, data)
		return
	}
	if calls != len(wf) {
		c.Violate("C19/skipper/callback-count:"+api, "streams", idx, fmt.Sprintf("predicate consulted %d times for %d well-formed packets (%d in the stream)", calls, len(wf), len(ref)), data)
		return
	}
	if len(problems) > 0 {
		c.Violate("C19/skipper/callback-argument:"+api, "streams", idx, problems[0], data)
	}
	// the filtered stream
	var filtered []byte
	skipped := 0
	dk := 0
	for k := range ref {
		if ref[k] != nil {
			dk++
			if decisions[dk-1] {
				skipped++
				continue
			}
		}
		filtered = append(filtered, s.Bytes[k*188:(k+1)*188]...) // kept, or damaged (never offered, so it stays)
	}
	c.Add("packets_skipped", int64(skipped))
	base := RunDemux(filtered, baseCfg(api))
	if d := itemsEqualNoPos(run.Items, base.Items); d != "" {
		c.Violate("C19/skipper/differs-from-filtered-stream:"+pr.name+":"+api, "streams", idx, d, data)
	}
	// "fully parsed": what the predicate was shown is what NextPacket then returns for the same packet, every field of the header
	// and the adaptation field included (nothing is filled in after the predicate has looked). Judged on streams without damaged
	// packets and error items, where the k-th kept packet is the k-th item
	if api == "packet" && len(wf) == len(ref) {
		clean := len(run.Items) == len(shown)
		for _, it := range run.Items {
			if it.Err != nil || it.Packet == nil {
				clean = false
			}
		}
		if clean {
			for k, sh := range shown {
				ret := &astits.Packet{Header: run.Items[k].Packet.Header, AdaptationField: run.Items[k].Packet.AdaptationField}
				if d := mon.Diff(sh, ret, nil); d != "" {
					c.Violate("C19/skipper/argument-completed-after-consultation", "streams", idx, fmt.Sprintf("kept packet %d: shown vs returned: %s", k, d), data)
					break
				}
			}
			c.Add("kept_packets_compared_with_what_the_predicate_saw", int64(len(shown)))
		}
	}
	if api == "packet" {
		for _, it := range run.Items {
			if it.Err == nil && it.Packet != nil && pr.name != "coin" && pr.f(0, it.Packet) {
				c.Violate("C19/skipper/skipped-packet-returned:"+pr.name, "streams", idx, fmt.Sprintf("pid %#x cc %d", it.Packet.Header.PID, it.Packet.Header.ContinuityCounter), data)
				break
			}
		}
	}
	c.Case(mon.HashBytes("c19s/"+pr.name+api, s.Bytes), skipped > 0 && skipped < len(ref))
	// the same after a Rewind: the predicate must be consulted again for every packet, the output must equal the filtered stream
	if pr.name == "coin" {
		return // per-index decisions would need the same indices again: covered by the stateless predicates
	}
	dmx, _ := NewDemuxerFor(s.Bytes, cfg)
	j := 1 + int(idx)%3
	for k := 0; k < j; k++ {
		if api == "packet" {
			dmx.NextPacket()
		} else {
			dmx.NextData()
		}
	}
	calls, problems, decisions = 0, nil, nil
	if _, err := dmx.Rewind(); err != nil {
		c.Violate("C19/skipper/rewind-error", "streams", idx, err.Error(), data)
		return
	}
	var got []Item
	for k := 0; k < len(s.Bytes)+64; k++ {
		var it Item
		if api == "packet" {
			it.Packet, it.Err = dmx.NextPacket()
		} else {
			it.Data, it.Err = dmx.NextData()
		}
		if errors.Is(it.Err, astits.ErrNoMorePackets) {
			break
		}
		got = append(got, it)
	}
	c.Count("skipper_runs_after_rewind")
	if calls != len(wf) {
		c.Violate("C19/skipper/callback-count-after-rewind:"+api, "streams", idx, fmt.Sprintf("after Rewind the predicate was consulted %d times for %d packets", calls, len(ref)), data)
		return
	}
	if d := itemsEqual(got, base.Items); d != "" {
		c.Violate("C19/skipper/differs-from-filtered-stream-after-rewind:"+pr.name+":"+api, "streams", idx, d, data)
	}
}

// withAFOnly returns a copy of the stream with payload-less packets inserted; the continuity counter of such a packet is the
// one of the previous packet of its PID (it does not advance), so reassembly of the other packets is unaffected.
func withAFOnly(r *rand.Rand, s *gen.Stream) *gen.Stream {
	last := map[uint16]uint8{}
	var pids []uint16
	var out []*astits.Packet
	ins := func() {
		pid := uint16(0x1ff0 + r.IntN(8))
		cc := uint8(r.UintN(16))
		if len(pids) > 0 && r.IntN(4) > 0 {
			pid = pids[r.IntN(len(pids))]
			cc = last[pid]
		}
		a := gen.RandomAF(r, 183, -1, -1)
		a.DiscontinuityIndicator = false
		a.StuffingLength = 183 - gen.AFBodySize(a) + a.StuffingLength
		out = append(out, &astits.Packet{Header: astits.PacketHeader{PID: pid, ContinuityCounter: cc, HasAdaptationField: true,
			TransportPriority: r.IntN(2) == 0}, AdaptationField: a})
	}
	for _, p := range s.Packets {
		for r.IntN(4) == 0 {
			ins()
		}
		out = append(out, p)
		if _, ok := last[p.Header.PID]; !ok {
			pids = append(pids, p.Header.PID)
		}
		last[p.Header.PID] = p.Header.ContinuityCounter
	}
	ins()
	ns := &gen.Stream{Packets: out}
	ns.Encode()
	return ns
}

// damagedParserCase: on streams that lost packets the parser still only sees assembled units: a group is never empty, holds one PID,
// and starts with the packet that starts a unit (what remains of a unit whose beginning was lost is not a unit); with skip=true
// for every group the output is exactly what the parser supplied.
func damagedParserCase(c *mon.Ctx, idx int64, s *gen.Stream) {
	data := map[string]any{"stream": mon.Hex(s.Bytes, 1500)}
	var problems []string
	groups := 0
	var supplied []*astits.DemuxerData
	cfg := baseCfg("data")
	cfg.Parser = func(ps []*astits.Packet) ([]*astits.DemuxerData, bool, error) {
		groups++
		switch {
		case len(ps) == 0:
			problems = append(problems, "empty group")
			return nil, true, nil
		case !ps[0].Header.PayloadUnitStartIndicator:
			problems = append(problems, fmt.Sprintf("group of %d packets on pid %#x does not start with a payload_unit_start packet", len(ps), ps[0].Header.PID))
		}
		for _, p := range ps {
			if p.Header.PID != ps[0].Header.PID {
				problems = append(problems, "group mixes PIDs")
			}
		}
		d := &astits.DemuxerData{PID: ps[0].Header.PID, PES: &astits.PESData{Data: []byte{byte(groups)}}}
		supplied = append(supplied, d)
		return []*astits.DemuxerData{d}, true, nil
	}
	run := RunDemux(s.Bytes, cfg)
	c.Count("parser_runs_on_damaged_streams")
	c.Add("parser_groups_observed", int64(groups))
	if run.Panic != "" {
		c.Violate("C19/parser/panic", "streams", idx, run.Panic, data)
		return
	}
	if len(problems) > 0 {
		c.Violate("C19/parser/group-malformed:damaged-stream", "streams", idx, problems[0], data)
		return
	}
	got := run.Datas()
	if len(got) != len(supplied) {
		c.Violate("C19/parser/replacer-output-count:damaged-stream", "streams", idx, fmt.Sprintf("%d data returned, the parser supplied %d", len(got), len(supplied)), data)
		return
	}
	for k := range got {
		if got[k] != supplied[k] {
			c.Violate("C19/parser/replacer-output-differs:damaged-stream", "streams", idx, fmt.Sprintf("result %d is not the %d-th datum the parser returned", k, k), data)
			return
		}
	}
}

func itemsEqualNoPos(a, b []Item) string { return itemsEqual(a, b) }

func parserCases(c *mon.Ctx, idx int64, r *rand.Rand, s *gen.Stream, m *gen.Model) {
	base := RunDemux(s.Bytes, baseCfg("data"))
	if base.Panic != "" || len(base.Errors()) > 0 {
		return // C02's business
	}
	data := map[string]any{"stream": mon.Hex(s.Bytes, 1500)}
	// observer
	type grp struct {
		pid  uint16
		pay  []byte
		n    int
		cont bool
	}
	var groups []grp
	var problems []string
	obs := func(ps []*astits.Packet) ([]*astits.DemuxerData, bool, error) {
		if len(ps) == 0 {
			problems = append(problems, "empty group")
			return nil, false, nil
		}
		g := grp{pid: ps[0].Header.PID, n: len(ps), cont: true}
		for k, p := range ps {
			if p.Header.PID != g.pid {
				problems = append(problems, "group mixes PIDs")
			}
			if k > 0 && p.Header.ContinuityCounter != (ps[k-1].Header.ContinuityCounter+1)&15 {
				problems = append(problems, "packets of a group out of arrival order")
			}
			g.pay = append(g.pay, p.Payload...)
		}
		groups = append(groups, g)
		return nil, false, nil
	}
	cfg := baseCfg("data")
	cfg.Parser = obs
	run := RunDemux(s.Bytes, cfg)
	if run.Panic != "" {
		c.Violate("C19/parser/panic", "streams", idx, run.Panic, data)
		return
	}
	if len(problems) > 0 {
		c.Violate("C19/parser/group-malformed", "streams", idx, problems[0], data)
	}
	if d := itemsEqual(run.Items, base.Items); d != "" {
		c.Violate("C19/parser/observer-changes-output", "streams", idx, d, data)
	}
	// every unit exactly once, packet for packet
	seen := map[string]int{}
	for _, g := range groups {
		seen[fmt.Sprintf("%d/%x", g.pid, mon.HashBytes("", g.pay))]++
	}
	for _, u := range s.Units {
		var pay []byte
		for _, k := range u.Pkts {
			pay = append(pay, s.Packets[k].Payload...)
		}
		key := fmt.Sprintf("%d/%x", u.PID, mon.HashBytes("", pay))
		if seen[key] != 1 {
			dup := 0
			for _, u2 := range s.Units {
				var p2 []byte
				for _, k := range u2.Pkts {
					p2 = append(p2, s.Packets[k].Payload...)
				}
				if u2.PID == u.PID && string(p2) == string(pay) {
					dup++
				}
			}
			if seen[key] != dup {
				c.Violate("C19/parser/unit-not-seen-exactly-once", "streams", idx, fmt.Sprintf("pid %#x unit %d handed to the parser %d times", u.PID, u.Serial, seen[key]), data)
				break
			}
		}
	}
	if len(groups) != len(s.Units) {
		c.Violate("C19/parser/group-count", "streams", idx, fmt.Sprintf("%d groups for %d units", len(groups), len(s.Units)), data)
	}
	c.Add("parser_groups_observed", int64(len(groups)))
	// an observer that returns data of its own together with skip=false: "skip=false leaves the default output unchanged", whatever
	// else the parser returns. The stream gets two more units the default parser makes nothing of (a conditional access table on
	// PID 1 and a private payload on a PID nobody announced), so that there are units without default output too
	{
		ext := append([]byte{}, s.Bytes...)
		for k, pid := range []uint16{1, 0x1abd} {
			p := gen.BuildPacket(pid, uint8(k+3), true, append([]byte{0, 0x80 + byte(k)}, gen.Bytes(r, 20+r.IntN(150))...), nil, true)
			b, _ := refts.EncodePacket(p, nil)
			ext = append(ext, b...)
		}
		base2 := RunDemux(ext, baseCfg("data"))
		cfg2 := baseCfg("data")
		calls := 0
		cfg2.Parser = func(ps []*astits.Packet) ([]*astits.DemuxerData, bool, error) {
			calls++
			return []*astits.DemuxerData{{PID: 0x1abc}}, false, nil
		}
		run2 := RunDemux(ext, cfg2)
		if run2.Panic != "" {
			c.Violate("C19/parser/panic", "streams", idx, run2.Panic, data)
			return
		}
		if base2.Panic == "" {
			if d := itemsEqual(run2.Items, base2.Items); d != "" {
				c.Violate("C19/parser/skip-false-with-data-changes-output", "streams", idx, d, data)
			}
			c.Add("units_answered_with_data_and_skip_false", int64(calls))
		}
	}
	// replacer
	var want []*astits.DemuxerData
	serial := 0
	rep := func(ps []*astits.Packet) ([]*astits.DemuxerData, bool, error) {
		k := (int(ps[0].Header.PID) + len(ps) + serial) % 4
		var out []*astits.DemuxerData
		for j := 0; j < k; j++ {
			serial++
			d := &astits.DemuxerData{PID: uint16(serial), PES: &astits.PESData{Data: []byte{byte(serial), byte(j)}}}
			out = append(out, d)
			want = append(want, d)
		}
		serial++
		return out, true, nil
	}
	cfg.Parser = rep
	run = RunDemux(s.Bytes, cfg)
	if run.Panic != "" {
		c.Violate("C19/parser/panic", "streams", idx, run.Panic, data)
		return
	}
	got := run.Datas()
	if len(run.Errors()) > 0 || len(got) != len(want) {
		c.Violate("C19/parser/replacer-output-count", "streams", idx, fmt.Sprintf("%d data returned (errors %v), the parser supplied %d", len(got), run.Errors(), len(want)), data)
	} else {
		for k := range got {
			if got[k] != want[k] {
				c.Violate("C19/parser/replacer-output-differs", "streams", idx, fmt.Sprintf("result %d is not the %d-th datum the parser returned", k, k), data)
				break
			}
		}
	}
	c.Add("parser_replaced_units", int64(serial))
	// failing parser on the n-th unit
	sentinel := errors.New("verif: parser failure")
	failAt := r.IntN(len(s.Units))
	cnt := 0
	cfg.Parser = func(ps []*astits.Packet) ([]*astits.DemuxerData, bool, error) {
		cnt++
		if cnt-1 == failAt {
			return nil, false, sentinel
		}
		return nil, false, nil
	}
	lt := &LogTap{}
	cfg.Logger = lt
	run = RunDemux(s.Bytes, cfg)
	cfg.Logger = nil
	surfaced := false
	for _, e := range run.Errors() {
		if errors.Is(e, sentinel) {
			surfaced = true
		}
	}
	// groups flushed while draining at end of stream (the last unit of every PID that is not a PAT/PMT PID) have their errors
	// logged, not returned; every other group is on the streaming path and its error must surface
	drain := false
	if failAt < len(groups) {
		g := groups[failAt]
		var lastU *gen.Unit
		for _, u := range s.Units {
			if u.PID == g.pid {
				lastU = u
			}
		}
		if lastU != nil && !m.Early[g.pid] {
			var pay []byte
			for _, k := range lastU.Pkts {
				pay = append(pay, s.Packets[k].Payload...)
			}
			drain = string(pay) == string(g.pay)
		}
	}
	switch {
	case surfaced:
		c.Count("parser_errors_surfaced")
	case drain:
		c.Count("parser_errors_in_end_of_stream_drain")
		for _, l := range lt.Lines {
			if strings.Contains(l, sentinel.Error()) {
				c.Count("drain_errors_seen_by_the_logger_tap") // observation only: where the error went
				break
			}
		}
	default:
		c.Violate("C19/parser/error-not-surfaced", "streams", idx, fmt.Sprintf("parser failed on group %d of %d (streaming path), no returned error wraps it", failAt, len(s.Units)), data)
	}
	c.Case(mon.HashBytes("c19p", s.Bytes), len(groups) >= 2)
}

// pendingThenCompleteCase: on a program map PID a unit is still waiting for the next unit start to be flushed — a private section
// the completeness probe knows nothing about, or a PMT that arrived before the PAT announced its PID — when that next unit arrives
// in one packet and is complete at once. One packet completes two units; the parser must be handed both, in order, once.
func pendingThenCompleteCase(c *mon.Ctx, idx int64, r *rand.Rand) {
	pmtPID := uint16(0x100 + r.IntN(0x800))
	mkPMT := func(serial int) []byte {
		sec := gen.SimpleSection(r, refts.KindPMT, serial, r.IntN(40))
		return gen.NewPSIUnit(r, pmtPID, serial, []*astits.PSISection{sec}, 0, false).Payload
	}
	private := func() []byte {
		n := 1 + r.IntN(120)
		b := []byte{0, 0xC0 + byte(r.IntN(0x3e)), 0x30 | byte(n>>8), byte(n)} // pointer_field 0, a user private table id, no syntax section
		return append(b, gen.Bytes(r, n)...)
	}
	pat := gen.SimpleSection(r, refts.KindPAT, 1, 0)
	pat.Syntax.Data.PAT.Programs = []*astits.PATProgram{{ProgramNumber: 1, ProgramMapID: pmtPID}}
	patUnit := gen.NewPSIUnit(r, 0, 1, []*astits.PSISection{pat}, 0, false).Payload
	type up struct {
		pid uint16
		pay []byte
	}
	var units []up
	variant := []string{"private-section-then-pmt", "pmt-before-pat-then-pmt"}[idx%2]
	if variant == "private-section-then-pmt" {
		units = []up{{0, patUnit}, {pmtPID, mkPMT(1)}, {pmtPID, private()}, {pmtPID, mkPMT(2)}, {pmtPID, private()}, {pmtPID, private()}, {pmtPID, mkPMT(3)}}
	} else {
		units = []up{{pmtPID, mkPMT(1)}, {0, patUnit}, {pmtPID, mkPMT(2)}, {pmtPID, mkPMT(3)}}
	}
	var stream []byte
	cc := map[uint16]uint8{}
	for _, u := range units {
		if len(u.pay) > 184 {
			return
		}
		p := gen.BuildPacket(u.pid, cc[u.pid], true, u.pay, nil, true)
		cc[u.pid]++
		b, _ := refts.EncodePacket(p, nil)
		stream = append(stream, b...)
	}
	var got []up
	cfg := baseCfg("data")
	cfg.Parser = func(ps []*astits.Packet) ([]*astits.DemuxerData, bool, error) {
		g := up{pid: ps[0].Header.PID}
		for _, p := range ps {
			g.pay = append(g.pay, p.Payload...)
		}
		got = append(got, g)
		return nil, false, nil
	}
	run := RunDemux(stream, cfg)
	data := map[string]any{"variant": variant, "stream": mon.Hex(stream, 1600)}
	c.Count("streams_where_one_packet_completes_two_units")
	if run.Panic != "" {
		c.Violate("C19/parser/panic", "streams", idx, run.Panic, data)
		return
	}
	// per PID, in order, each unit once (payloads are padded with 0xFF to the packet: compare the prefix)
	for _, pid := range []uint16{0, pmtPID} {
		var w, g []up
		for _, u := range units {
			if u.pid == pid {
				w = append(w, u)
			}
		}
		for _, u := range got {
			if u.pid == pid {
				g = append(g, u)
			}
		}
		if len(g) != len(w) {
			c.Violate("C19/parser/unit-not-seen-exactly-once:"+variant, "streams", idx, fmt.Sprintf("pid %#x: %d units handed to the parser, the stream carries %d", pid, len(g), len(w)), data)
			return
		}
		for k := range w {
			if !bytes.HasPrefix(g[k].pay, w[k].pay) {
				c.Violate("C19/parser/unit-not-seen-exactly-once:"+variant, "streams", idx, fmt.Sprintf("pid %#x: unit %d handed to the parser is not unit %d of the stream", pid, k, k), data)
				return
			}
		}
	}
}
