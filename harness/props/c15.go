package props

import (
	"bytes"
	"fmt"
	"time"

	astits "github.com/asticode/go-astits"

	"verifharness/mon"
	"verifharness/refts"
)

// offsets (seconds east of UTC) of the locations times are encoded from
var encodeZones = []int{3600, -3600, 2 * 3600, -5 * 3600, 19800, 20700, -12600, 14 * 3600, -12 * 3600, 9 * 3600, 45 * 60, -1, 1, 12*3600 + 45*60}

func init() {
	register(&Prop{
		ID:    "C15",
		Level: "exploration",
		Rule: "enumeration of the MJD range 15079..65535 and of the times of day / BCD digit patterns listed in the counters; every (day, time) pair or digit " +
			"pattern is a distinct case by construction; a case is non-trivial always (each exercises the date or BCD arithmetic)",
		Assumptions: []string{"reference = integer civil-calendar arithmetic in refts/dvb.go, anchored on EN 300 468 Annex C (0xC079124500 = 1993-10-13 12:45:00) and cross-checked against time.AddDate",
			"hooks VerifParseDVBTime/VerifWriteDVBTime/… are thin wrappers around the dvb.go functions"},
		Shards: 64,
		Run:    runC15,
		Guards: func(m *mon.Merged, tier string) []string {
			var out []string
			need(m, &out, "decode_days_covered", 50457)
			need(m, &out, "decodes_from_a_reused_buffer", 100000)
			need(m, &out, "first_conversions_of_a_process", 16)
			need(m, &out, "decode_times_of_day_covered", 86400)
			need(m, &out, "encode_days_covered", 50457)
			need(m, &out, "encode_times_of_day_covered", 86400)
			need(m, &out, "duration_hms_decoded", 1000000)
			need(m, &out, "duration_hm_decoded", 10000)
			need(m, &out, "duration_hms_encoded", 360000)
			need(m, &out, "duration_hm_encoded", 6000)
			need(m, &out, "raw24_patterns", 1<<24)
			need(m, &out, "raw16_patterns", 1<<16)
			return out
		},
		Exhaustive: func(tier string) bool { return true },
	})
}

const mjdLo, mjdHi = 15079, 65535

func runC15(c *mon.Ctx) {
	epoch := time.Date(1858, 11, 17, 0, 0, 0, 0, time.UTC)
	bcdb := func(v int) byte { return byte(v/10)<<4 | byte(v%10) }
	// Half of the blocks hand every value to the library in one and the same buffer, refilled between the calls (the Demuxer parses
	// every table from a reused buffer): a result may depend on the bytes of this call only, not on what the buffer held before
	shared := make([]byte, 5)
	decode := func(stage string, idx int64, mjd, sec int) {
		b := []byte{byte(mjd >> 8), byte(mjd), bcdb(sec / 3600), bcdb(sec / 60 % 60), bcdb(sec % 60)}
		if idx%2 == 1 {
			copy(shared, b)
			b = shared
			c.Count("decodes_from_a_reused_buffer")
		}
		want, _ := refts.DecodeDVBTime(b)
		var got time.Time
		var err error
		if p, v, st := mon.Guarded(func() { got, err = astits.VerifParseDVBTime(b) }); p {
			c.Violate("C15/decode/panic", stage, idx, fmt.Sprintf("%x: panic %v\n%s", b, v, st), nil)
			return
		}
		if err != nil || !got.Equal(want) {
			c.Violate("C15/decode/wrong-time", stage, idx, fmt.Sprintf("bytes %x: library %v (err %v), calendar says %v", b, got.UTC(), err, want), map[string]any{"bytes": mon.Hex(b, 5), "reused_buffer": idx%2 == 1})
		}
		if got.Location() != time.UTC && err == nil {
			c.Violate("C15/decode/not-utc", stage, idx, fmt.Sprintf("location %v", got.Location()), nil)
		}
	}
	encode := func(stage string, idx int64, mjd, sec, ns int) {
		t := epoch.AddDate(0, 0, mjd).Add(time.Duration(sec)*time.Second + time.Duration(ns))
		want := refts.EncodeDVBTime(t)
		// the same instant as a caller may hold it: in any location (time.Now() is local). "Encoding any time.Time" is about the
		// instant, the five bytes are its UTC date and time
		if z := (mjd + sec) % 3; z != 0 {
			off := encodeZones[(mjd*7+sec)%len(encodeZones)]
			t = t.In(time.FixedZone("z", off))
			c.Count("encoded_from_a_non_utc_location")
			if t.Day() != t.UTC().Day() {
				c.Count("encoded_with_local_date_differing_from_utc_date")
			}
		}
		var got []byte
		var n int
		var err error
		if p, v, st := mon.Guarded(func() { got, n, err = astits.VerifWriteDVBTime(t) }); p {
			c.Violate("C15/encode/panic", stage, idx, fmt.Sprintf("%v: panic %v\n%s", t, v, st), nil)
			return
		}
		if err != nil || n != 5 || !bytes.Equal(got, want) {
			c.Violate("C15/encode/wrong-bytes", stage, idx, fmt.Sprintf("time %v: library %x (n=%d err=%v), reference %x", t, got, n, err, want), map[string]any{"time": t.String()})
		}
	}
	// stage first: the very first conversions a fresh process makes (each worker process starts here, with another date per worker):
	// lazily initialised tables and "same as last time" memos start from their zero values, which may coincide with a real date
	firstDays := []int{40587, 40588, 40586, mjdLo, mjdHi, 15385, 51544, 51545, 47892, 65534, 15080, 33282, 44239, 48988, 55197, 58849}
	for k := int64(0); k < 64; k++ {
		if !c.Mine("first", k) {
			continue
		}
		d := firstDays[int(k)%len(firstDays)]
		sec := []int{0, 86399, 1, 43200}[int(k/16)%4]
		if k%2 == 0 {
			encode("first", k, d, sec, 0)
			decode("first", k, d, sec)
		} else {
			decode("first", k, d, sec)
			encode("first", k, d, sec, 0)
		}
		c.Count("first_conversions_of_a_process")
		break // one per worker process: later ones would not be first
	}
	sampleSecs := []int{0, 86399, 1, 59, 60, 3599, 3600, 35999, 36000, 43200, 72000, 79199, 79200, 86340, 9*3600 + 9*60 + 9, 10*3600 + 10*60 + 10,
		19*3600 + 59*60 + 59, 20 * 3600, 23 * 3600, 12*3600 + 34*60 + 56, 7*3600 + 8*60 + 9, 86398, 600, 6000, 45296, 5025}
	// stage dec-days: all MJD × sampled times, blocks of 64 days
	for blk := int64(0); blk*64+mjdLo <= mjdHi; blk++ {
		if !c.Mine("dec-days", blk) {
			continue
		}
		for mjd := int(blk)*64 + mjdLo; mjd < int(blk+1)*64+mjdLo && mjd <= mjdHi; mjd++ {
			for _, s := range sampleSecs {
				decode("dec-days", blk, mjd, s)
			}
			c.Count("decode_days_covered")
			c.CaseN(int64(len(sampleSecs)))
		}
	}
	// 64 MJD values spread over the range incl. both ends and month/year/leap boundaries
	days := []int{mjdLo, mjdLo + 1, mjdHi, mjdHi - 1, 15384, 15385, 15079 + 305, 51543, 51544, 51603, 51604, 51909, 51910, 40587, 40586, 47892}
	for i := 0; len(days) < 64; i++ {
		days = append(days, mjdLo+(i*7919+13)%(mjdHi-mjdLo+1))
	}
	// stage dec-secs: all 86400 times × 64 days, blocks of 600 seconds
	for blk := int64(0); blk < 144; blk++ {
		if !c.Mine("dec-secs", blk) {
			continue
		}
		for s := int(blk) * 600; s < int(blk+1)*600; s++ {
			for _, d := range days {
				decode("dec-secs", blk, d, s)
			}
			c.Count("decode_times_of_day_covered")
			c.CaseN(64)
		}
	}
	// joint grid: every 97th day × every 61st second
	for blk := int64(0); blk < 64; blk++ {
		if !c.Mine("dec-grid", blk) {
			continue
		}
		var n int64
		for mjd := mjdLo + int(blk); mjd <= mjdHi; mjd += 64 * 3 {
			for s := int(blk) % 61; s < 86400; s += 61 {
				decode("dec-grid", blk, mjd, s)
				n++
			}
		}
		c.Add("decode_grid_pairs", n)
		c.CaseN(n)
	}
	// stage enc-days
	encSecs := sampleSecs[:24]
	for blk := int64(0); blk*64+mjdLo <= mjdHi; blk++ {
		if !c.Mine("enc-days", blk) {
			continue
		}
		for mjd := int(blk)*64 + mjdLo; mjd < int(blk+1)*64+mjdLo && mjd <= mjdHi; mjd++ {
			if c.Thorough() {
				for s := 0; s < 86400; s++ {
					encode("enc-days", blk, mjd, s, 0)
				}
				c.CaseN(86400)
				c.Add("encode_day_second_pairs", 86400)
			} else {
				for k, s := range encSecs {
					ns := 0
					if k%2 == 1 {
						ns = 999999999
					}
					encode("enc-days", blk, mjd, s, ns)
				}
				c.CaseN(int64(len(encSecs)))
				c.Add("encode_day_second_pairs", int64(len(encSecs)))
			}
			c.Count("encode_days_covered")
		}
	}
	for blk := int64(0); blk < 144; blk++ {
		if !c.Mine("enc-secs", blk) {
			continue
		}
		for s := int(blk) * 600; s < int(blk+1)*600; s++ {
			for k, d := range days {
				ns := 0
				if k%2 == 1 {
					ns = 999999999
				}
				encode("enc-secs", blk, d, s, ns)
			}
			c.Count("encode_times_of_day_covered")
			c.CaseN(64)
		}
	}
	// durations: decode of every digit pattern, encode of every canonical duration
	for hh := int64(0); hh < 100; hh++ {
		if !c.Mine("dur", hh) {
			continue
		}
		sh2, sh3 := make([]byte, 2), make([]byte, 3)
		for mm := 0; mm < 100; mm++ {
			b2 := []byte{bcdb(int(hh)), bcdb(mm)}
			if hh%2 == 1 {
				copy(sh2, b2)
				b2 = sh2 // one buffer refilled between the calls
			}
			want := refts.DecodeBCDHM(b2)
			got, err := astits.VerifParseDVBDurationMinutes(b2)
			if err != nil || got != want {
				c.Violate("C15/duration/hm-decode", "dur", hh, fmt.Sprintf("%x: %v (err %v) want %v", b2, got, err, want), nil)
			}
			c.Count("duration_hm_decoded")
			if mm < 60 {
				d := time.Duration(hh)*time.Hour + time.Duration(mm)*time.Minute
				ob, n, err := astits.VerifWriteDVBDurationMinutes(d)
				if err != nil || n != 2 || !bytes.Equal(ob, b2) {
					c.Violate("C15/duration/hm-encode", "dur", hh, fmt.Sprintf("%v: %x (n=%d err=%v) want %x", d, ob, n, err, b2), nil)
				}
				c.Count("duration_hm_encoded")
			}
			for ss := 0; ss < 100; ss++ {
				b3 := []byte{bcdb(int(hh)), bcdb(mm), bcdb(ss)}
				if hh%2 == 1 {
					copy(sh3, b3)
					b3 = sh3
				}
				want := refts.DecodeBCDHMS(b3)
				got, err := astits.VerifParseDVBDurationSeconds(b3)
				if err != nil || got != want {
					c.Violate("C15/duration/hms-decode", "dur", hh, fmt.Sprintf("%x: %v (err %v) want %v", b3, got, err, want), nil)
				}
				c.Count("duration_hms_decoded")
				if mm < 60 && ss < 60 {
					d := time.Duration(hh)*time.Hour + time.Duration(mm)*time.Minute + time.Duration(ss)*time.Second
					ob, n, err := astits.VerifWriteDVBDurationSeconds(d)
					if err != nil || n != 3 || !bytes.Equal(ob, b3) {
						c.Violate("C15/duration/hms-encode", "dur", hh, fmt.Sprintf("%v: %x (n=%d err=%v) want %x", d, ob, n, err, b3), nil)
					}
					c.Count("duration_hms_encoded")
				}
			}
		}
		c.CaseN(100 + 100*100)
	}
	// raw patterns: panic freedom and agreement with the digit-wise definition (hi*10+lo per byte)
	for hi := int64(0); hi < 256; hi++ {
		if !c.Mine("raw", hi) {
			continue
		}
		b3 := make([]byte, 3)
		b3[0] = byte(hi)
		for x := 0; x < 65536; x++ {
			b3[1], b3[2] = byte(x>>8), byte(x)
			var got time.Duration
			var err error
			if p, v, st := mon.Guarded(func() { got, err = astits.VerifParseDVBDurationSeconds(b3) }); p {
				c.Violate("C15/raw/panic", "raw", hi, fmt.Sprintf("%x: %v\n%s", b3, v, st), nil)
				break
			}
			if want := refts.DecodeBCDHMS(b3); err != nil || got != want {
				c.Violate("C15/raw/hms-digitwise", "raw", hi, fmt.Sprintf("%x: %v want %v", b3, got, want), nil)
			}
		}
		c.Add("raw24_patterns", 65536)
		for lo := 0; lo < 256; lo++ {
			b2 := []byte{byte(hi), byte(lo)}
			got, err := astits.VerifParseDVBDurationMinutes(b2)
			if want := refts.DecodeBCDHM(b2); err != nil || got != want {
				c.Violate("C15/raw/hm-digitwise", "raw", hi, fmt.Sprintf("%x: %v want %v", b2, got, want), nil)
			}
			// a raw time-of-day inside a DVB time must not panic either
			b5 := []byte{0xC0, 0x79, byte(hi), byte(lo), byte(int(hi) ^ lo)}
			if p, v, st := mon.Guarded(func() { astits.VerifParseDVBTime(b5) }); p {
				c.Violate("C15/raw/panic", "raw", hi, fmt.Sprintf("%x: %v\n%s", b5, v, st), nil)
			}
		}
		c.Add("raw16_patterns", 256)
		c.CaseN(65536 + 256)
	}
	if c.Mine("sample", 0) {
		b := []byte{0xC0, 0x79, 0x12, 0x45, 0x00}
		t, _ := astits.VerifParseDVBTime(b)
		c.Sample("dec-days", map[string]any{"bytes": "c079124500", "library": t.UTC().String(), "reference": "1993-10-13 12:45:00 +0000 UTC"})
		ob, _, _ := astits.VerifWriteDVBTime(time.Date(2038, 4, 22, 23, 59, 59, 999999999, time.UTC))
		c.Sample("enc-days", map[string]any{"time": "2038-04-22 23:59:59.999999999", "library": mon.Hex(ob, 5), "reference": mon.Hex(refts.EncodeDVBTime(time.Date(2038, 4, 22, 23, 59, 59, 0, time.UTC)), 5)})
	}
}
