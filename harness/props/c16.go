package props

import (
	"bufio"
	"bytes"
	"context"
	"fmt"
	"io"
	"math/rand/v2"
	"reflect"
	"runtime"
	"sync"
	"sync/atomic"

	astits "github.com/asticode/go-astits"

	"verifharness/gen"
	"verifharness/mon"
	"verifharness/refts"
)

func init() {
	register(&Prop{
		ID:    "C16",
		Level: "exploration",
		Rule: "aliasing (normal build): generated streams demultiplexed with NextPacket/NextData; every result is deep-copied at delivery and re-compared after each later call (last 16) and at the end, while a second " +
			"Demuxer on another stream advances in lock-step, the GC recycles the sync.Pool, and the input buffer is finally overwritten; Muxer inputs (payload, descriptor bytes) snapshotted and re-compared " +
			"after every call. Concurrency (-race build): N in {2,4,8,16,32,64} goroutines each owning a Demuxer or Muxer on its own stream, results compared with solo runs, race detector log scanned; " +
			"plus 110 000..400 000 packet streams with payloads of every size, each packet kept for 8192 (thorough 70 000) further calls and compared with the stream bytes (stage alias-endurance); 2..4 Demuxers on readers of every kind called in turns, each compared with its solo run, a quarter of the cases with one Demuxer holding a set of packets ready while the others read tables of the same PID, counter and size (demux-lockstep); units shorter than a start code after other instances have loaded the pooled buffers (tiny-units); byte slices kept without the structures they came in, across garbage collections and finalizers (alias-leaves); Muxer alias sessions on a writer that runs out of room; distinct = hash(stream(s), mode); non-trivial = ≥2 results snapshotted or ≥2 goroutines ran",
		Assumptions: []string{"the schedules are those the Go scheduler produced under Gosched/GC pressure; the number of observed goroutine switch points is reported and guarded",
			"the Muxer is allowed to touch documented struct fields of MuxerData (StuffingLength, StreamID); only payload and descriptor bytes are protected"},
		Shards:     16,
		RaceShards: 4,
		Run:        runC16,
		Race:       runC16Race,
		Guards: func(m *mon.Merged, tier string) []string {
			var out []string
			need(m, &out, "leaf_runs", 30)
			need(m, &out, "snapshots_taken", 5000)
			need(m, &out, "long_stream_alias_runs", 6)
			need(m, &out, "snapshot_recomparisons", 50000)
			need(m, &out, "pool_recycles_forced", 100)
			need(m, &out, "muxer_input_recomparisons", 500)
			need(m, &out, "muxer_alias_sessions_in_which_a_write_failed", 30)
			need(m, &out, "concurrent_runs", 20)
			need(m, &out, "goroutine_switch_points", 1000)
			need(m, &out, "concurrent_instances_compared", 200)
			need(m, &out, "concurrent_auto_detecting_instances", 50)
			need(m, &out, "reentrant_overlaps", 100)
			need(m, &out, "history_independence_checks", 300)
			need(m, &out, "muxers_in_lockstep", 100)
			need(m, &out, "demuxers_in_lockstep", 300)
			need(m, &out, "scribbled_runs", 200)
			need(m, &out, "streams_with_repeated_tables", 30)
			need(m, &out, "data_built_by_a_retaining_parser", 300)
			need(m, &out, "size_boundary_alias_runs", 10)
			need(m, &out, "tiny_unit_streams", 250)
			need(m, &out, "endurance_packets_held_and_rechecked", 300000)
			return out
		},
	})
}

type snap struct {
	live any
	copy any
}

// remuxIndependenceCase: a remultiplexer (cmd/astits-es-split) hands what one Demuxer returned — the parsed PES and the first
// packet's parsed adaptation field — to Muxers, which write into those objects (WriteData manages the field's StuffingLength, the
// tool itself sets a PCR). That is the application's business with ITS objects; another Demuxer reading the same bytes afterwards
// must still return what a Demuxer returns for them when nothing else has happened in the process.
func remuxIndependenceCase(c *mon.Ctx, idx int64, r *rand.Rand) {
	m := gen.RandomModel(r, gen.ModelOpts{MaxPES: 3, MaxPMT: 1, MaxSI: 1, MaxUnits: 10, MaxPESLen: 600, SmallUnits: idx%2 == 0, RichAF: idx%3 == 0})
	in := m.Build(r).Bytes
	before := RunDemux(in, baseCfg("data"))
	if before.Panic != "" {
		return
	}
	snap := mon.Clone(before.Items)
	muxers := map[uint16]*astits.Muxer{}
	n := 0
	for _, it := range before.Items {
		d := it.Data
		if d == nil || d.PES == nil || d.FirstPacket == nil || d.PID < 0x20 || d.PID == 0x1000 || len(d.PES.Data) == 0 {
			continue
		}
		mx := muxers[d.PID]
		if mx == nil {
			mx = astits.NewMuxer(context.Background(), io.Discard)
			mx.AddElementaryStream(astits.PMTElementaryStream{ElementaryPID: d.PID, StreamType: astits.StreamTypePrivateData})
			mx.SetPCRPID(d.PID)
			muxers[d.PID] = mx
		}
		af := d.FirstPacket.AdaptationField
		if af != nil && d.PES.Header.OptionalHeader != nil && d.PES.Header.OptionalHeader.PTS != nil && idx%2 == 1 {
			af.HasPCR, af.PCR = true, d.PES.Header.OptionalHeader.PTS // as the tool does
		}
		mon.Guarded(func() { mx.WriteData(&astits.MuxerData{PID: d.PID, AdaptationField: af, PES: d.PES}) })
		n++
	}
	after := RunDemux(in, baseCfg("data"))
	c.Add("parsed_units_handed_to_muxers_between_two_demuxer_runs", int64(n))
	if after.Panic != "" {
		c.Violate("C16/remux/panic", "remux", idx, after.Panic, nil)
		return
	}
	if d := itemsEqual(after.Items, snap); d != "" {
		c.Violate("C16/remux/second-demuxer-disturbed-by-what-muxers-did-to-the-first-one's-results", "remux", idx, d, map[string]any{"stream": mon.Hex(in, 1500)})
	}
	c.Case(mon.HashBytes("remux", in), n > 0)
}

// tinyUnitsCase: units of one or two payload bytes (00, 00 00: the beginning of a start code that never comes) between ordinary
// PES units. What a Demuxer makes of them may not depend on what any Demuxer — this one or another — has parsed before (the
// reassembly buffers are pooled): other instances work on PES and table streams first, then the stream is demultiplexed again.
func tinyUnitsCase(c *mon.Ctx, idx int64, r *rand.Rand) {
	ls := newLongStream()
	ls.pes(0x101, 0xc0, 1, longData(0x101, 1, 20+r.IntN(300)), true)
	n := 0
	for k := 0; k < 2+r.IntN(4); k++ {
		tiny := [][]byte{{0}, {0, 0}, {0, 0}, {0xff}, {0, 1}}[r.IntN(5)]
		ls.packet(0x101, true, tiny) // a unit of its own: the next packet starts one as well
		n++
		ls.pes(0x101, 0xc0, int64(10+k), longData(0x101, 10+k, 1+r.IntN(500)), r.IntN(2) == 0)
	}
	alone, errsAlone, pn := drainData(ls.b)
	data := map[string]any{"stream": mon.Hex(ls.b, 1500)}
	if pn != "" {
		c.Violate("C16/tiny/panic", "tiny-units", idx, pn, data)
		return
	}
	// other instances load the pooled buffers with PES units and tables
	other := richStream(r).Bytes
	for k := 0; k < 3; k++ {
		drainData(other)
		drainData(ls.b)
	}
	after, errsAfter, pn := drainData(ls.b)
	if pn != "" {
		c.Violate("C16/tiny/panic", "tiny-units", idx, pn, data)
		return
	}
	c.Count("tiny_unit_streams")
	c.Add("units_shorter_than_a_start_code", int64(n))
	c.Case(mon.HashBytes("c16tiny", ls.b), true)
	if len(errsAlone) != len(errsAfter) || len(alone) != len(after) {
		c.Violate("C16/history/result-depends-on-earlier-instances:tiny-units", "tiny-units", idx, fmt.Sprintf("a new Demuxer after other instances have worked: %d data and %d errors (first: %v); the first Demuxer of the process: %d data and %d errors", len(after), len(errsAfter), firstErr(errsAfter), len(alone), len(errsAlone)), data)
		return
	}
	for k := range alone {
		if d := mon.Diff(after[k], alone[k], nil); d != "" {
			c.Violate("C16/history/result-depends-on-earlier-instances:tiny-units", "tiny-units", idx, fmt.Sprintf("datum %d: %s", k, d), data)
			return
		}
	}
	// and both are what the stream carries: the units shorter than a start code hold no PES
	if d := ls.compare(after); d != "" || len(errsAfter) > 0 {
		c.Violate("C16/tiny/differs-from-what-the-stream-carries", "tiny-units", idx, fmt.Sprintf("%s; errors: %v", d, errsAfter), data)
	}
}

func firstErr(es []error) error {
	if len(es) == 0 {
		return nil
	}
	return es[0]
}

func runC16(c *mon.Ctx) {
	for i := int64(0); i < c.Pick(300, 10000); i++ {
		if c.Mine("tiny-units", i) {
			tinyUnitsCase(c, i, c.Rng("tiny-units", i))
		}
	}
	nrx := c.Pick(200, 10000)
	for i := int64(0); i < nrx; i++ {
		if c.Mine("remux", i) {
			remuxIndependenceCase(c, i, c.Rng("remux", i))
		}
	}
	n := c.Pick(400, 25000)
	for i := int64(0); i < n; i++ {
		if !c.Mine("alias", i) {
			continue
		}
		r := c.Rng("alias", i)
		m1 := gen.RandomModel(r, gen.ModelOpts{MaxPES: 3, MaxPMT: 2, MaxSI: 2, MaxUnits: 4, MaxPESLen: 3000})
		m2 := gen.RandomModel(r, gen.ModelOpts{MaxPES: 2, MaxPMT: 1, MaxSI: 2, MaxUnits: 3, MaxPESLen: 200})
		s1, s2 := m1.Build(r), m2.Build(r)
		if i%2 == 0 {
			// rich content: every optional PES header field, adaptation fields with private data, tables with descriptors of all kinds
			s1 = richStream(r)
			if i%4 == 0 {
				s2 = richStream(r)
			}
		}
		if i%5 == 3 {
			// tables are repeated unchanged over and over in a real stream: every table unit of the model three times in a row
			per := map[uint16][]*gen.Unit{}
			counts := map[uint16]int{}
			for _, p := range m1.PIDs {
				for rep := 0; rep < 3; rep++ {
					for _, u := range m1.PerPID[p] {
						if u.Kind != gen.UnitPSI && rep > 0 {
							continue
						}
						cp := *u
						per[p] = append(per[p], &cp)
						counts[p] += len(u.Plan)
					}
				}
			}
			s1 = gen.Mux(per, gen.RandomOrder(r, counts, m1.PIDs, m1.Hold), m1.CC0)
			c.Count("streams_with_repeated_tables")
		}
		for _, api := range []string{"data", "packet"} {
			aliasCase(c, i, r, s1, s2, api)
		}
		c.Case(mon.HashBytes("alias", s1.Bytes), true)
		if i < 2 {
			c.Sample("alias", map[string]any{"stream1_packets": len(s1.Packets), "stream2_packets": len(s2.Packets), "apis": "data, packet"})
		}
	}
	// long streams: results must stay intact while thousands of further packets are read (read buffers that are reused late)
	nlong := c.Pick(6, 60)
	for i := int64(0); i < nlong; i++ {
		if !c.Mine("alias-long", i) {
			continue
		}
		r := c.Rng("alias-long", i)
		m1 := gen.RandomModel(r, gen.ModelOpts{MaxPES: 3, MaxPMT: 1, MaxSI: 2, MaxUnits: 40, MaxPESLen: 6000})
		for len(m1.PIDs) < 2 {
			m1 = gen.RandomModel(r, gen.ModelOpts{MaxPES: 3, MaxPMT: 1, MaxSI: 2, MaxUnits: 40, MaxPESLen: 6000})
		}
		s1 := m1.Build(r)
		for len(s1.Packets) < 2200 {
			m1 = gen.RandomModel(r, gen.ModelOpts{MaxPES: 3, MaxPMT: 1, MaxSI: 2, MaxUnits: 60, MaxPESLen: 9000})
			s1 = m1.Build(r)
		}
		s2 := richStream(r)
		aliasCase(c, i, r, s1, s2, []string{"packet", "data"}[i%2])
		c.Count("long_stream_alias_runs")
		c.Max("long_stream_packets", int64(len(s1.Packets)))
		c.Case(mon.HashBytes("alias-long", s1.Bytes[:1880]), true)
	}
	// endurance: hundreds of thousands of packets with payloads of every size, each kept by the caller while thousands of further
	// packets are read (buffers that are carved from blocks, recycled after a megabyte, indexed by narrow counters)
	for i := int64(0); i < c.Pick(3, 16); i++ {
		if c.Mine("alias-endurance", i) {
			r := c.Rng("alias-endurance", i)
			heldPacketsCase(c, "C16", "alias-endurance", i, r, int(c.Pick(110000, 400000))+r.IntN(5000), int(c.Pick(8192, 70000)), false)
		}
	}
	for i := int64(0); i < c.Pick(2, 10); i++ {
		if c.Mine("alias-sparse", i) {
			sparseCase(c, "C16", "alias-sparse", 5+i)
		}
	}
	// units whose reassembled size sits on an allocation / pool size-class boundary (2^k and its neighbours, up to 128 KiB)
	nsz := c.Pick(24, 400)
	for i := int64(0); i < nsz; i++ {
		if !c.Mine("alias-size", i) {
			continue
		}
		r := c.Rng("alias-size", i)
		k := 10 + int(i)%8 // 1 KiB .. 128 KiB
		total := 1<<uint(k) + []int{0, -1, 1}[int(i/8)%3]
		hdr := 9 + 5 // PES header with a PTS
		var us []*gen.Unit
		us = append(us, gen.NewPESUnit(r, 0x100, 1, gen.PESOpts{DataLen: 40 + r.IntN(100), Unbounded: true, WithPTS: true}))
		us = append(us, gen.NewPESUnit(r, 0x100, 2, gen.PESOpts{DataLen: total - hdr, Unbounded: true, WithPTS: true}))
		for q := 0; q < 3; q++ {
			us = append(us, gen.NewPESUnit(r, 0x100, 3+q, gen.PESOpts{DataLen: 100 + r.IntN(3000), Unbounded: q%2 == 0, WithPTS: true}))
		}
		n := 0
		for _, u := range us {
			if len(u.Plan) == 0 {
				u.PlanChunks(gen.RandomChunks(r, len(u.Payload), 0, 0, false))
			}
			n += len(u.Plan)
		}
		s1 := gen.Mux(map[uint16][]*gen.Unit{0x100: us}, repeatPID(0x100, n), nil)
		// whether a buffer that went back to a sync.Pool is handed out again by the next Get is up to the runtime (per-P caches,
		// garbage collections, and under the race detector a quarter of the Puts are dropped on purpose): each boundary is run
		// several times so that a reuse is observed
		for rep := 0; rep < 4; rep++ {
			s2 := richStream(r)
			aliasCase(c, i, r, s1, s2, []string{"data", "packet"}[(int(i)+rep/2)%2])
			c.Count("size_boundary_alias_runs")
		}
		s2 := richStream(r)
		aliasCase(c, i, r, s1, s2, []string{"data", "packet"}[i%2])
		c.Count("size_boundary_alias_runs")
		c.Max("largest_unit_bytes", int64(len(us[1].Payload)))
		c.Case(mon.HashBytes("alias-size", s1.Bytes[:376]), true)
	}
	nm := c.Pick(150, 20000)
	// the byte slices of the results are the caller's even when it lets go of the structures they came in (a frame queue that keeps
	// PES.Data): after garbage collections and finalizers have run, and more units have been parsed, they still hold their bytes
	for i := int64(0); i < c.Pick(40, 600); i++ {
		if c.Mine("alias-leaves", i) {
			leavesCase(c, i, c.Rng("alias-leaves", i))
		}
	}
	for i := int64(0); i < nm; i++ {
		if !c.Mine("mux-alias", i) {
			continue
		}
		muxAliasCase(c, i, c.Rng("mux-alias", i))
	}
	no := c.Pick(300, 8000)
	for i := int64(0); i < no; i++ {
		if !c.Mine("overlap", i) {
			continue
		}
		overlapCase(c, i, c.Rng("overlap", i))
	}
	for i := int64(0); i < c.Pick(400, 10000); i++ {
		if c.Mine("demux-lockstep", i) {
			demuxLockstepCase(c, i, c.Rng("demux-lockstep", i))
		}
	}
	nl := c.Pick(250, 6000)
	for i := int64(0); i < nl; i++ {
		if !c.Mine("mux-lockstep", i) {
			continue
		}
		muxLockstepCase(c, i, c.Rng("mux-lockstep", i))
	}
}

// digests runs a Demuxer to the end and returns one digest per result (or error).
func digests(dmx *astits.Demuxer, api string, limit int) []string {
	return digestsScribbling(dmx, api, limit, false)
}

// digestsScribbling is digests; with scribble every result is overwritten (mon.Scribble) as soon as its digest is taken, the way an
// application edits what it was given.
func digestsScribbling(dmx *astits.Demuxer, api string, limit int, scribble bool) []string {
	return digestsMode(dmx, api, limit, scribble, scribble)
}

func digestsMode(dmx *astits.Demuxer, api string, limit int, scribble, strip bool) []string {
	var out []string
	for k := 0; k < limit; k++ {
		var v any
		var err error
		if api == "data" {
			v, err = dmx.NextData()
		} else {
			v, err = dmx.NextPacket()
		}
		if err == astits.ErrNoMorePackets {
			break
		}
		if err != nil {
			out = append(out, "err:"+err.Error())
			continue
		}
		if d, ok := v.(*astits.DemuxerData); ok && strip {
			// the sections of one unit share their FirstPacket by design: it is left out of this comparison and not edited
			d2 := *d
			d2.FirstPacket = nil
			v = &d2
		}
		out = append(out, deepString(v))
		if scribble {
			mon.Scribble(v)
		}
	}
	return out
}

// overlapCase: (a) deterministic overlap of two instances in one goroutine: the reader of Demuxer A runs Demuxer B to the end from
// inside its k-th Read (the situation two goroutines produce when A's reader blocks), A must return what it returns alone;
// (b) history independence: the same input demultiplexed by a new Demuxer before and after other instances have worked returns the
// same results (short inputs included: they exercise the packet-size detection window).
func overlapCase(c *mon.Ctx, idx int64, r *rand.Rand) {
	mk := func() []byte {
		for {
			m := gen.RandomModel(r, gen.ModelOpts{MaxPES: 2, MaxPMT: 1, MaxSI: 2, MaxUnits: 3, MaxPESLen: 600})
			b := m.Build(r).Bytes
			if len(b) >= 376 && b[184] != 0x47 && b[185] != 0x47 && b[186] != 0x47 && b[187] != 0x47 {
				return b
			}
		}
	}
	a, b := mk(), mk()
	if idx%3 == 0 {
		// the other instance reads 188+4 framing: another packet size in the shared code paths
		b = refts.Reframe(b, 4, func(p, j int) byte { return byte(0x11*j + p) })
	}
	api := []string{"data", "packet"}[idx%2]
	limit := len(a) + len(b) + 64
	// reader kinds: seekable, read-only, and a bufio.Reader smaller than the detection window (16, 64 or 192 bytes: the window is
	// then kept by the packet buffer beyond the first packet)
	small := 0
	if idx%6 >= 4 {
		small = []int{16, 64, 192}[int(idx/6)%3]
	}
	rdr := func(yr *yieldReader, seek bool) io.Reader {
		switch {
		case small > 0:
			return bufio.NewReaderSize(plainYield{yr}, small)
		case seek:
			return yr
		}
		return plainYield{yr}
	}
	solo := func(in []byte, seek bool, chunk int) []string {
		return digests(astits.NewDemuxer(context.Background(), rdr(&yieldReader{data: in, chunk: chunk}, seek)), api, limit)
	}
	seek := idx%4 < 2
	chunk := 1 + r.IntN(120)
	wantA := solo(a, seek, chunk)
	wantB := solo(b, true, 1<<20)
	// (a)
	at := r.IntN(6) // which Read of A triggers B: the first ones belong to the detection window
	if small > 0 {
		at = r.IntN(3 * 193 / small) // around the end of the window and the first packets behind it
		c.Count("overlaps_on_small_bufio_readers")
	}
	reads := 0
	var gotB []string
	ranB := false
	yr := &yieldReader{data: a, chunk: chunk}
	yr.mark = func() {
		if reads == at {
			ranB = true
			gotB = digests(astits.NewDemuxer(context.Background(), rdr(&yieldReader{data: b, chunk: 1 << 20}, true)), api, limit)
		}
		reads++
	}
	var gotA []string
	if pn, v, st := mon.Guarded(func() {
		gotA = digests(astits.NewDemuxer(context.Background(), rdr(yr, seek)), api, limit)
	}); pn {
		c.Violate("C16/overlap/panic", "overlap", idx, fmt.Sprintf("%v\n%s", v, st), nil)
		return
	}
	if ranB {
		c.Count("reentrant_overlaps")
	}
	data := map[string]any{"api": api, "seekable": seek, "chunk": chunk, "other_instance_runs_inside_read": at, "stream_a": mon.Hex(a, 800), "stream_b": mon.Hex(b, 800)}
	if d := firstDifference(gotA, wantA); d != "" {
		c.Violate("C16/overlap/instance-disturbed-by-another:"+api, "overlap", idx, "Demuxer A (another Demuxer ran inside one of its reads) vs alone: "+d, data)
	}
	if d := firstDifference(gotB, wantB); d != "" && ranB { // (A may finish in fewer reads than the one chosen for B)
		c.Violate("C16/overlap/instance-disturbed-by-another:"+api, "overlap", idx, "Demuxer B (run from inside a read of A) vs alone: "+d, data)
	}
	// (b)
	probes := [][]byte{a[:188], a[:100], a[:192], a[:376], b[:188], a}
	var before [][]string
	for _, p := range probes {
		before = append(before, solo(p, true, 1<<20))
	}
	solo(b, true, 50)
	solo(a, false, 7)
	out := &bytes.Buffer{}
	m := astits.NewMuxer(context.Background(), out)
	m.AddElementaryStream(astits.PMTElementaryStream{ElementaryPID: 0x100, StreamType: astits.StreamTypeH264Video})
	m.SetPCRPID(0x100)
	m.WriteData(&astits.MuxerData{PID: 0x100, PES: &astits.PESData{Header: &astits.PESHeader{OptionalHeader: &astits.PESOptionalHeader{MarkerBits: 2}}, Data: gen.Bytes(r, 300)}})
	for k, p := range probes {
		c.Count("history_independence_checks")
		if d := firstDifference(solo(p, true, 1<<20), before[k]); d != "" {
			c.Violate("C16/history/result-depends-on-earlier-instances:"+api, "overlap", idx, fmt.Sprintf("input of %d bytes, new Demuxer after other instances have worked vs before: %s", len(p), d), data)
			break
		}
	}
	// (c) an application that edits every result it is given (all fields, all bytes): what the library returns afterwards, to this
	// Demuxer and to a new one, is what it returns to an application that only reads
	rich := richStream(r).Bytes
	for _, in := range [][]byte{a, rich} {
		want := digestsMode(astits.NewDemuxer(context.Background(), bytes.NewReader(in), astits.DemuxerOptPacketSize(188)), api, len(in)+64, false, true)
		var got, again []string
		if pn, v, st := mon.Guarded(func() {
			got = digestsScribbling(astits.NewDemuxer(context.Background(), bytes.NewReader(in), astits.DemuxerOptPacketSize(188)), api, len(in)+64, true)
			again = digestsMode(astits.NewDemuxer(context.Background(), bytes.NewReader(in), astits.DemuxerOptPacketSize(188)), api, len(in)+64, false, true)
		}); pn {
			c.Violate("C16/scribble/panic", "overlap", idx, fmt.Sprintf("%v\n%s", v, st), data)
			break
		}
		c.Count("scribbled_runs")
		if d := firstDifference(got, want); d != "" {
			c.Violate("C16/scribble/later-results-depend-on-edits-of-earlier-ones:"+api, "overlap", idx, "same Demuxer, results overwritten by the application as they arrive, vs untouched: "+d, map[string]any{"api": api, "stream": mon.Hex(in, 1500)})
			break
		}
		if d := firstDifference(again, want); d != "" {
			c.Violate("C16/scribble/later-instances-depend-on-edits-of-earlier-results:"+api, "overlap", idx, "new Demuxer after another one's results were overwritten, vs before: "+d, map[string]any{"api": api, "stream": mon.Hex(in, 1500)})
			break
		}
	}
	c.Case(mon.HashBytes("overlap", a[:188]), true)
}

func firstDifference(a, b []string) string {
	if len(a) != len(b) {
		return fmt.Sprintf("%d results vs %d", len(a), len(b))
	}
	for k := range a {
		if a[k] != b[k] {
			x, y := a[k], b[k]
			if len(x) > 300 {
				x = x[:300]
			}
			if len(y) > 300 {
				y = y[:300]
			}
			return fmt.Sprintf("result %d differs: %s | %s", k, x, y)
		}
	}
	return ""
}

// muxLockstepCase: 2..4 Muxers alive at once, their histories executed in turns (one operation each, round-robin with random
// strides): every Muxer must write exactly the bytes it writes when it is the only one.
// demuxLockstepCase: two to four Demuxers, each on a stream and a reader of its own (seekable, read-only, bufio.Reader of 4096 bytes or
// smaller than the detection window; size detected or given), called in turns — one or a few calls of one, then of the next: every
// one of them returns what it returns when it runs alone.
func demuxLockstepCase(c *mon.Ctx, idx int64, r *rand.Rand) {
	n := 2 + r.IntN(3)
	type dx struct {
		in    []byte
		cfg   DemuxCfg
		solo  []string
		dmx   *astits.Demuxer
		got   []string
		done  bool
		calls int
	}
	one := func(d *astits.Demuxer, api string) (string, bool) {
		var v any
		var err error
		if api == "data" {
			v, err = d.NextData()
		} else {
			v, err = d.NextPacket()
		}
		if err == astits.ErrNoMorePackets {
			return "", true
		}
		if err != nil {
			return "err:" + err.Error(), false
		}
		return deepString(v), false
	}
	crafted, craftedCC := idx%4 == 3, uint8(r.IntN(16))
	if crafted {
		c.Count("lockstep_cases_with_a_set_held_ready_between_calls")
	}
	ds := make([]*dx, n)
	for k := range ds {
		var in []byte
		for {
			m := gen.RandomModel(r, gen.ModelOpts{MaxPES: 2, MaxPMT: 1, MaxSI: 2, MaxUnits: 3, MaxPESLen: 900})
			in = m.Build(r).Bytes
			if len(in) >= 376 && in[184] != 0x47 && in[185] != 0x47 && in[186] != 0x47 && in[187] != 0x47 {
				break
			}
		}
		cfg := DemuxCfg{API: []string{"data", "packet"}[r.IntN(2)], PacketSize: []int{0, 0, 188}[r.IntN(3)]}
		if crafted {
			// the first Demuxer holds a second set of packets ready between two of its calls (a table with an enlarged
			// section_length pending, flushed by a one-packet table that is complete itself) while the others read one-packet
			// tables of the same PID, continuity counter and size
			in = readyPairStream(r, craftedCC, k)
		}
		switch r.IntN(5) {
		case 0:
			cfg.Reader = "seek"
		case 1:
			cfg.Reader = "plain"
		case 2:
			cfg.Reader, cfg.BufioSize = "bufio", 4096
		default:
			cfg.Reader, cfg.BufioSize = "bufio", []int{16, 64, 192}[r.IntN(3)]
			c.Count("lockstep_demuxers_on_small_bufio_readers")
		}
		if crafted {
			cfg = DemuxCfg{API: "data", PacketSize: 188, Reader: "seek"}
		}
		d := &dx{in: in, cfg: cfg}
		sd, _ := NewDemuxerFor(in, cfg)
		for q := 0; q < len(in)+64; q++ {
			s, end := one(sd, cfg.API)
			if end {
				break
			}
			d.solo = append(d.solo, s)
		}
		d.dmx, _ = NewDemuxerFor(in, cfg)
		ds[k] = d
	}
	if pn, v, st := mon.Guarded(func() {
		for left := n; left > 0; {
			left = 0
			for _, d := range ds {
				turn := 1 + r.IntN(3)
				if crafted {
					turn = 1
				}
				for q := 0; q < turn && !d.done; q++ {
					s, end := one(d.dmx, d.cfg.API)
					d.calls++
					if end || d.calls > len(d.in)+64 {
						d.done = true
						break
					}
					d.got = append(d.got, s)
				}
				if !d.done {
					left++
				}
			}
		}
	}); pn {
		c.Violate("C16/lockstep/panic", "demux-lockstep", idx, fmt.Sprintf("%v\n%s", v, st), nil)
		return
	}
	c.Count("demuxers_in_lockstep")
	for k, d := range ds {
		if df := firstDifference(d.got, d.solo); df != "" {
			c.Violate("C16/lockstep/demuxer-disturbed-by-another:"+d.cfg.Reader, "demux-lockstep", idx, fmt.Sprintf("demuxer %d of %d (%s, bufio size %d) called in turns with the others vs alone: %s", k, n, d.cfg.String(), d.cfg.BufioSize, df), map[string]any{"stream": mon.Hex(d.in, 1200)})
			break
		}
	}
	c.Case(mon.HashStr("demux-lockstep", fmt.Sprint(idx)), true)
}

func muxLockstepCase(c *mon.Ctx, idx int64, r *rand.Rand) {
	n := 2 + r.IntN(3)
	type mx struct {
		ops    []HOp
		period int
		solo   []byte
		st     *histStepper
	}
	ms := make([]*mx, n)
	for k := range ms {
		ops, period := RandomHistory(r, HistOpts{MaxOps: 25, AutoPIDs: true, FewPIDs: true, AllowInvalid: k%2 == 0, ReuseAF: true})
		ms[k] = &mx{ops: ops, period: period}
		ms[k].solo = runHistory(mon.Clone(ops), period).Out
		ms[k].st = newHistStepper(mon.Clone(ops), period)
	}
	left := n
	for left > 0 {
		left = 0
		for _, m := range ms {
			for q := 0; q < 1+r.IntN(3); q++ {
				m.st.Step()
			}
			if !m.st.Done() {
				left++
			}
		}
	}
	c.Count("muxers_in_lockstep")
	for k, m := range ms {
		got := m.st.Run().Out
		if !bytes.Equal(got, m.solo) {
			c.Violate("C16/lockstep/muxer-disturbed-by-another", "mux-lockstep", idx, fmt.Sprintf("muxer %d of %d: output differs from its solo run at byte %d (%d vs %d bytes)", k, n, firstDiff(got, m.solo), len(got), len(m.solo)), map[string]any{"history": histSample(m.st.Run())})
			break
		}
	}
	c.Case(mon.HashStr("mux-lockstep", fmt.Sprint(idx)), true)
}

// withNullPackets inserts null packets (PID 0x1FFF) whose payload is not stuffing but arbitrary bytes — the standard says nothing
// about what they hold — between the packets of a stream.
func withNullPackets(r *rand.Rand, in []byte) []byte {
	var out []byte
	for o := 0; o+188 <= len(in); o += 188 {
		if r.IntN(4) == 0 {
			out = append(out, 0x47, 0x1f, 0xff, 0x10|byte(r.IntN(16)))
			out = append(out, gen.Bytes(r, 184)...)
		}
		out = append(out, in[o:o+188]...)
	}
	return out
}

func aliasCase(c *mon.Ctx, idx int64, r *rand.Rand, s1, s2 *gen.Stream, api string) {
	in1 := append([]byte{}, s1.Bytes...)
	in2 := append([]byte{}, s2.Bytes...)
	if api == "packet" && idx%2 == 1 {
		in1, in2 = withNullPackets(r, in1), withNullPackets(r, in2)
		c.Count("packet_runs_with_null_packets_carrying_data")
	}
	cfg := DemuxCfg{PacketSize: 188, Reader: []string{"seek", "bufio", "plain"}[r.IntN(3)], API: api}
	if api == "data" && idx%3 == 1 {
		// an application parser that keeps what it is handed: its data refer to the packets of the unit (first packet, payload
		// slices) instead of copying them. The packets are the application's from then on: nothing may reuse them
		cfg.Parser = func(ps []*astits.Packet) ([]*astits.DemuxerData, bool, error) {
			if len(ps) == 0 || ps[0].Header.PID < 0x20 {
				return nil, false, nil
			}
			d := &astits.DemuxerData{PID: ps[0].Header.PID, FirstPacket: ps[len(ps)/2], PES: &astits.PESData{Header: &astits.PESHeader{StreamID: 0xbd}, Data: ps[len(ps)-1].Payload}}
			c.Count("data_built_by_a_retaining_parser")
			return []*astits.DemuxerData{d, {PID: ps[0].Header.PID, FirstPacket: ps[0]}}, true, nil
		}
	}
	d1, _ := NewDemuxerFor(in1, cfg)
	cfg2 := cfg
	cfg2.API = []string{"data", "packet"}[r.IntN(2)]
	d2, _ := NewDemuxerFor(in2, cfg2)
	var snaps []snap
	data := map[string]any{"api": api, "reader": cfg.Reader, "stream": mon.Hex(s1.Bytes, 1500)}
	recheck := func(from int, when string) bool {
		for k := from; k < len(snaps); k++ {
			c.Count("snapshot_recomparisons")
			if d := mon.Diff(snaps[k].live, snaps[k].copy, nil); d != "" {
				c.Violate("C16/alias/result-mutated-later:"+api+":"+fieldOf(d), "alias", idx, fmt.Sprintf("result %d changed %s: %s", k, when, d), data)
				return false
			}
		}
		return true
	}
	done1, done2 := false, false
	for call := 0; call < len(in1)+len(in2)+64 && !(done1 && done2); call++ {
		if !done1 {
			var v any
			var err error
			p, pv, st := mon.Guarded(func() {
				if api == "packet" {
					var x *astits.Packet
					x, err = d1.NextPacket()
					if x != nil {
						v = x
					}
				} else {
					var x *astits.DemuxerData
					x, err = d1.NextData()
					if x != nil {
						v = x
					}
				}
			})
			if p {
				c.Violate("C16/alias/panic", "alias", idx, fmt.Sprintf("%v\n%s", pv, st), data)
				return
			}
			if err == astits.ErrNoMorePackets {
				done1 = true
			}
			if v != nil {
				snaps = append(snaps, snap{live: v, copy: mon.Clone(v)})
				c.Count("snapshots_taken")
			}
		}
		if !done2 {
			var err error
			if cfg2.API == "packet" {
				_, err = d2.NextPacket()
			} else {
				_, err = d2.NextData()
			}
			if err == astits.ErrNoMorePackets {
				done2 = true
			}
		}
		if call%7 == 3 {
			runtime.GC() // lets the sync.Pool drop / recycle its buffers
			c.Count("pool_recycles_forced")
		}
		from := len(snaps) - 16
		if from < 0 {
			from = 0
		}
		if !recheck(from, "after a later call") {
			return
		}
	}
	if !recheck(0, "by the end of the run") {
		return
	}
	// poison the caller's input buffers: nothing returned may alias them
	for k := range in1 {
		in1[k] = 0xEE
	}
	for k := range in2 {
		in2[k] = 0xEE
	}
	// churn the pool with another demuxer
	d3, _ := NewDemuxerFor(append([]byte{}, s2.Bytes...), baseCfg("data"))
	for k := 0; k < 50; k++ {
		if _, err := d3.NextData(); err == astits.ErrNoMorePackets {
			break
		}
	}
	runtime.GC()
	recheck(0, "after the input buffer was overwritten and the pool reused")
}

// budgetWriter accepts bytes up to a budget, then refuses a Write (once, or from then on).
type budgetWriter struct {
	bytes.Buffer
	budget    int
	permanent bool
	failures  int
}

func (w *budgetWriter) Write(p []byte) (int, error) {
	if w.Len()+len(p) > w.budget {
		w.failures++
		if !w.permanent {
			w.budget = 1 << 40
		}
		return 0, mon.ErrInjected
	}
	return w.Buffer.Write(p)
}

func muxAliasCase(c *mon.Ctx, idx int64, r *rand.Rand) {
	out := &budgetWriter{budget: 1 << 40}
	if idx%2 == 1 {
		// the writer runs out of room somewhere in the session (for one Write, or for good): a failing call leaves the caller's
		// bytes as untouched as a successful one
		out.budget, out.permanent = r.IntN(5000), r.IntN(2) == 0
		c.Count("muxer_alias_sessions_with_a_failing_writer")
	}
	m := astits.NewMuxer(context.Background(), out, astits.MuxerOptTablesRetransmitPeriod(1+r.IntN(5)))
	type held struct {
		live, copy []byte
		what       string
	}
	var hs []held
	hold := func(b []byte, what string) {
		if b != nil {
			hs = append(hs, held{b, append([]byte{}, b...), what})
		}
	}
	holdDescs := func(ds []*astits.Descriptor) {
		for _, d := range ds {
			hold(d.UserDefined, "descriptor.UserDefined")
			if d.Unknown != nil {
				hold(d.Unknown.Content, "descriptor.Unknown.Content")
			}
			if d.Registration != nil {
				hold(d.Registration.AdditionalIdentificationInfo, "descriptor.Registration info")
			}
			if d.NetworkName != nil {
				hold(d.NetworkName.Name, "descriptor.NetworkName")
			}
		}
	}
	check := func(when string) bool {
		for _, h := range hs {
			c.Count("muxer_input_recomparisons")
			if !bytes.Equal(h.live, h.copy) {
				c.Violate("C16/alias/muxer-modified-caller-bytes:"+h.what, "mux-alias", idx, fmt.Sprintf("%s changed %s: first difference at %d", h.what, when, firstDiff(h.live, h.copy)), nil)
				return false
			}
		}
		return true
	}
	npid := 1 + r.IntN(3)
	for k := 0; k < npid; k++ {
		ds := gen.Descriptors(r, 30)
		holdDescs(ds)
		m.AddElementaryStream(astits.PMTElementaryStream{ElementaryPID: uint16(0x100 + k), StreamType: astits.StreamTypeH264Video, ElementaryStreamDescriptors: ds})
	}
	m.SetPCRPID(0x100)
	for k := 0; k < 3+r.IntN(10); k++ {
		// the payload is a sub-slice of a larger caller buffer (spare capacity behind it): the whole buffer is protected
		backing := gen.Bytes(r, 1+r.IntN(2000)+r.IntN(300))
		payload := backing[:len(backing)-r.IntN(min(len(backing), 300))]
		if len(payload) == 0 {
			payload = backing
		}
		hold(backing, "PES.Data backing buffer")
		d := &astits.MuxerData{PID: uint16(0x100 + r.IntN(npid)), PES: &astits.PESData{Header: &astits.PESHeader{OptionalHeader: gen.OptionalHeader(r, -1, -1, true)}, Data: payload}}
		if d.PES.Header.OptionalHeader.HasPrivateData {
			hold(d.PES.Header.OptionalHeader.PrivateData, "PES private data")
		}
		if d.PES.Header.OptionalHeader.HasExtension2 {
			hold(d.PES.Header.OptionalHeader.Extension2Data, "PES extension 2 data")
		}
		if r.IntN(3) == 0 {
			d.AdaptationField = gen.RandomAF(r, 60, -1, -1)
			hold(d.AdaptationField.TransportPrivateData, "adaptation private data")
		}
		if p, v, st := mon.Guarded(func() { m.WriteData(d) }); p {
			c.Violate("C16/alias/muxer-panic", "mux-alias", idx, fmt.Sprintf("%v\n%s", v, st), nil)
			return
		}
		if !check("after WriteData") {
			return
		}
		if r.IntN(4) == 0 {
			m.WriteTables()
			if !check("after WriteTables") {
				return
			}
		}
		if r.IntN(3) == 0 {
			// WritePacket with a short payload cut out of a caller buffer holding several sections back to back
			carousel := gen.Bytes(r, 40+r.IntN(300))
			hold(carousel, "WritePacket payload backing buffer")
			n := 1 + r.IntN(min(len(carousel), 150))
			p := &astits.Packet{Header: astits.PacketHeader{PID: 0x1500, HasPayload: true, PayloadUnitStartIndicator: true, ContinuityCounter: uint8(k)}, Payload: carousel[:n]}
			if r.IntN(2) == 0 {
				p.Header.HasAdaptationField = true
				p.AdaptationField = gen.RandomAF(r, 1+r.IntN(20), -1, -1)
				hold(p.AdaptationField.TransportPrivateData, "WritePacket adaptation private data")
			}
			if pn, v, st := mon.Guarded(func() { m.WritePacket(p) }); pn {
				c.Violate("C16/alias/muxer-panic", "mux-alias", idx, fmt.Sprintf("%v\n%s", v, st), nil)
				return
			}
			if !check("after WritePacket") {
				return
			}
		}
	}
	if out.failures > 0 {
		c.Count("muxer_alias_sessions_in_which_a_write_failed")
	}
	c.Case(mon.HashBytes("muxalias", out.Bytes()), true)
}

// ---- concurrency, executed by the -race binary ----

// yieldReader delivers at most chunk bytes per Read and calls mark (a scheduling point) first. With seek it also offers Seek.
type yieldReader struct {
	data  []byte
	pos   int
	chunk int
	mark  func()
}

func (y *yieldReader) Read(p []byte) (int, error) {
	if y.mark != nil {
		y.mark()
	}
	if y.pos >= len(y.data) {
		return 0, io.EOF
	}
	n := len(p)
	if n > y.chunk {
		n = y.chunk
	}
	if n > len(y.data)-y.pos {
		n = len(y.data) - y.pos
	}
	copy(p, y.data[y.pos:y.pos+n])
	y.pos += n
	return n, nil
}

// plainYield hides Seek.
type plainYield struct{ y *yieldReader }

func (p plainYield) Read(b []byte) (int, error) { return p.y.Read(b) }

func (y *yieldReader) Seek(off int64, whence int) (int64, error) {
	if whence != io.SeekStart || off < 0 {
		return 0, fmt.Errorf("unsupported seek")
	}
	y.pos = int(off)
	return off, nil
}

type instance struct {
	auto  bool
	kind  string // demux-data, demux-packet, mux
	in    []byte
	seed  uint64
	solo  []string // digest per result
	procs int
}

func deepString(v any) string { return mon.DumpString(v) }

func runInstance(in *instance, stamp *int64, stamps *[]int64, yield bool) []string {
	var out []string
	mark := func() {
		if stamp != nil {
			*stamps = append(*stamps, atomic.AddInt64(stamp, 1))
		}
		if yield {
			runtime.Gosched()
		}
	}
	switch in.kind {
	case "demux-data", "demux-packet":
		var dmx *astits.Demuxer
		if in.auto {
			// packet size auto-detected, through a reader that delivers a few bytes per Read and yields in between: the
			// detection of one instance overlaps the work of the others
			yr := &yieldReader{data: in.in, chunk: 1 + int(in.seed%97), mark: mark}
			if in.seed%2 == 0 {
				dmx = astits.NewDemuxer(context.Background(), yr)
			} else {
				dmx = astits.NewDemuxer(context.Background(), plainYield{yr})
			}
		} else {
			dmx = astits.NewDemuxer(context.Background(), bytes.NewReader(in.in), astits.DemuxerOptPacketSize(188))
		}
		for k := 0; k < len(in.in)+64; k++ {
			mark()
			if in.kind == "demux-data" {
				d, err := dmx.NextData()
				if err == astits.ErrNoMorePackets {
					break
				}
				if err != nil {
					out = append(out, "err:"+err.Error())
					continue
				}
				out = append(out, deepString(d))
			} else {
				p, err := dmx.NextPacket()
				if err == astits.ErrNoMorePackets {
					break
				}
				if err != nil {
					out = append(out, "err:"+err.Error())
					continue
				}
				out = append(out, deepString(p))
			}
		}
	case "mux":
		r := rand.New(rand.NewPCG(in.seed, 11))
		buf := &bytes.Buffer{}
		m := astits.NewMuxer(context.Background(), buf, astits.MuxerOptTablesRetransmitPeriod(1+r.IntN(5)))
		m.AddElementaryStream(astits.PMTElementaryStream{ElementaryPID: 0x100, StreamType: astits.StreamTypeH264Video, ElementaryStreamDescriptors: gen.Descriptors(r, 30)})
		m.AddElementaryStream(astits.PMTElementaryStream{ElementaryPID: 0x101, StreamType: astits.StreamTypeAACAudio})
		m.SetPCRPID(0x100)
		for k := 0; k < 20; k++ {
			mark()
			d := &astits.MuxerData{PID: uint16(0x100 + r.IntN(2)), PES: &astits.PESData{Header: &astits.PESHeader{OptionalHeader: gen.OptionalHeader(r, -1, -1, true)}, Data: gen.Bytes(r, 1+r.IntN(1500))}}
			n, err := m.WriteData(d)
			out = append(out, fmt.Sprintf("n=%d err=%v", n, err))
		}
		out = append(out, fmt.Sprintf("%016x", mon.HashBytes("mux-out", buf.Bytes())))
	}
	return out
}

func runC16Race(c *mon.Ctx) {
	reps := c.Pick(5, 120)
	for rep := int64(0); rep < reps; rep++ {
		for ni, N := range []int{2, 4, 8, 16, 32, 64} {
			idx := rep*6 + int64(ni)
			if !c.Mine("conc", idx) {
				continue
			}
			r := c.Rng("conc", idx)
			inst := make([]*instance, N)
			for g := 0; g < N; g++ {
				in := &instance{}
				switch r.IntN(3) {
				case 0:
					in.kind = "mux"
					in.seed = r.Uint64()
				default:
					in.kind = []string{"demux-data", "demux-packet"}[r.IntN(2)]
					m := gen.RandomModel(r, gen.ModelOpts{MaxPES: 3, MaxPMT: 2, MaxSI: 2, MaxUnits: 4, MaxPESLen: 2500})
					in.in = m.Build(r).Bytes
					if r.IntN(2) == 0 {
						in.in = richStream(r).Bytes
					}
					if r.IntN(2) == 0 && len(in.in) >= 376 && in.in[184] != 0x47 && in.in[185] != 0x47 && in.in[186] != 0x47 && in.in[187] != 0x47 {
						in.auto = true
						in.seed = r.Uint64()
						c.Count("concurrent_auto_detecting_instances")
					}
				}
				in.solo = runInstance(in, nil, nil, false)
				inst[g] = in
			}
			var stamp int64
			stampLists := make([][]int64, N)
			results := make([][]string, N)
			var wg sync.WaitGroup
			start := make(chan struct{})
			stop := make(chan struct{})
			go func() { // GC pressure
				for {
					select {
					case <-stop:
						return
					default:
						runtime.GC()
						runtime.Gosched()
					}
				}
			}()
			for g := 0; g < N; g++ {
				wg.Add(1)
				go func(g int) {
					defer wg.Done()
					<-start
					for k := 0; k < g%5; k++ {
						runtime.Gosched() // staggered start
					}
					results[g] = runInstance(inst[g], &stamp, &stampLists[g], true)
				}(g)
			}
			close(start)
			wg.Wait()
			close(stop)
			// switch points: positions in the global stamp order where the owning goroutine changes
			owner := make([]int32, stamp+1)
			for g, l := range stampLists {
				for _, s := range l {
					owner[s] = int32(g)
				}
			}
			sw := int64(0)
			for k := int64(2); k <= stamp; k++ {
				if owner[k] != owner[k-1] {
					sw++
				}
			}
			c.Add("goroutine_switch_points", sw)
			c.Add("concurrent_calls", stamp)
			c.Count("concurrent_runs")
			c.Seen("goroutine_counts", fmt.Sprint(N))
			for g := 0; g < N; g++ {
				c.Count("concurrent_instances_compared")
				a, b := results[g], inst[g].solo
				same := len(a) == len(b)
				for k := 0; same && k < len(a); k++ {
					same = a[k] == b[k]
				}
				if !same {
					c.Violate("C16/concurrency/result-differs-from-solo-run:"+inst[g].kind, "conc", idx, fmt.Sprintf("goroutine %d of %d (%s): %d results vs %d solo", g, N, inst[g].kind, len(a), len(b)), nil)
				}
			}
			c.Case(mon.HashStr("conc", fmt.Sprint(idx)), true)
			if rep == 0 && ni < 2 {
				c.Sample("conc", map[string]any{"goroutines": N, "calls": stamp, "switch_points": sw})
			}
		}
	}
}

type byteLeaf struct {
	path       string
	live, copy []byte
}

// byteLeaves collects every non-empty byte slice reachable from v (without keeping v).
func byteLeaves(v reflect.Value, path string, out *[]byteLeaf, seen map[uintptr]bool, depth int) {
	if depth > 12 {
		return
	}
	switch v.Kind() {
	case reflect.Ptr:
		if v.IsNil() || seen[v.Pointer()] {
			return
		}
		seen[v.Pointer()] = true
		byteLeaves(v.Elem(), path, out, seen, depth+1)
	case reflect.Interface:
		if !v.IsNil() {
			byteLeaves(v.Elem(), path, out, seen, depth+1)
		}
	case reflect.Struct:
		for k := 0; k < v.NumField(); k++ {
			if v.Type().Field(k).IsExported() {
				byteLeaves(v.Field(k), path+"."+v.Type().Field(k).Name, out, seen, depth+1)
			}
		}
	case reflect.Slice:
		if v.Type().Elem().Kind() == reflect.Uint8 {
			if v.Len() > 0 {
				b := v.Bytes()
				*out = append(*out, byteLeaf{path, b, append([]byte{}, b...)})
			}
			return
		}
		for k := 0; k < v.Len(); k++ {
			byteLeaves(v.Index(k), path, out, seen, depth+1)
		}
	}
}

func leavesCase(c *mon.Ctx, idx int64, r *rand.Rand) {
	var in []byte
	if idx%2 == 0 {
		in = richStream(r).Bytes
	} else {
		m := gen.RandomModel(r, gen.ModelOpts{MaxPES: 3, MaxPMT: 2, MaxSI: 2, MaxUnits: 6, MaxPESLen: 2500})
		in = m.Build(r).Bytes
	}
	// the stream three times over: enough units after the first ones for recycled buffers to come round
	in = append(append(append([]byte{}, in...), in...), in...)
	api := []string{"data", "packet"}[idx%2]
	dmx, _ := NewDemuxerFor(in, DemuxCfg{PacketSize: 188, Reader: "seek", API: api})
	var leaves []byteLeaf
	n := 0
	check := func(when string) bool {
		for _, l := range leaves {
			if !bytes.Equal(l.live, l.copy) {
				c.Violate("C16/alias/bytes-kept-without-their-structure-changed:"+api+":"+l.path, "alias-leaves", idx, fmt.Sprintf("%d bytes kept from a result (%s) changed %s: first difference at %d", len(l.copy), l.path, when, firstDiff(l.live, l.copy)), map[string]any{"stream": mon.Hex(in, 1500)})
				return false
			}
		}
		return true
	}
	for call := 0; call < len(in)/188+64; call++ {
		var v any
		var err error
		if p, pv, st := mon.Guarded(func() {
			if api == "data" {
				v, err = dmx.NextData()
			} else {
				v, err = dmx.NextPacket()
			}
		}); p {
			c.Violate("C16/alias/panic", "alias-leaves", idx, fmt.Sprintf("%v\n%s", pv, st), nil)
			return
		}
		if err == astits.ErrNoMorePackets {
			break
		}
		if err != nil {
			continue
		}
		byteLeaves(reflect.ValueOf(v), "", &leaves, map[uintptr]bool{}, 0)
		v = nil
		n++
		if n%4 == 0 {
			// two collections (an object with a finalizer is freed by the one after the one that runs it) and the processor yielded
			// for the finalizer goroutine
			for g := 0; g < 2; g++ {
				runtime.GC()
				for y := 0; y < 20; y++ {
					runtime.Gosched()
				}
			}
			c.Count("garbage_collections_between_results")
			if !check("after a garbage collection and " + fmt.Sprint(n) + " results") {
				return
			}
		}
	}
	check("at the end of the stream")
	c.Add("byte_slices_kept_without_their_structure", int64(len(leaves)))
	c.Count("leaf_runs")
	c.Case(mon.HashBytes("leaves", in[:376]), len(leaves) >= 2)
}

// readyPairStream: one-packet PATs on PID 0 with continuity counters cc+1, cc+2, ...; for k == 0 preceded by a PAT (counter cc) whose
// section_length was enlarged, so that it stays pending until the next one arrives.
func readyPairStream(r *rand.Rand, cc uint8, k int) []byte {
	mk := func(serial int) []byte {
		sec := gen.SimpleSection(r, refts.KindPAT, serial, 0)
		sec.Syntax.Data.PAT.Programs = []*astits.PATProgram{{ProgramNumber: uint16(1 + k), ProgramMapID: uint16(0x100 + 0x10*k + serial)}}
		return gen.NewPSIUnit(r, 0, serial, []*astits.PSISection{sec}, 0, false).Payload
	}
	var out []byte
	put := func(c uint8, payload []byte) {
		b, _ := refts.EncodePacket(gen.BuildPacket(0, c&15, true, payload, nil, true), nil)
		out = append(out, b...)
	}
	if k == 0 {
		dam := mk(1)
		dam[2] |= 0x01 + byte(r.IntN(3)) // section_length beyond the end of the packet: the unit never looks complete
		put(cc, dam)
	}
	for q := 1; q <= 3; q++ {
		put(cc+uint8(q), mk(1+q))
	}
	return out
}
