package props

import (
	"context"
	"errors"
	"fmt"
	"io"
	"math/rand/v2"

	astits "github.com/asticode/go-astits"

	"verifharness/gen"
	"verifharness/mon"
	"verifharness/refts"
)

func init() {
	register(&Prop{
		ID:    "C18",
		Level: "fault_enumeration",
		Rule: "reader: generated streams x every byte offset (all offsets for small streams, strided + random for larger) as the point where the reader fails with a sentinel error after a partial read (the error on the following Read, or together with the last bytes delivered), " +
			"x reader kinds {seekable, plain, bufio} x {explicit, auto} x {NextPacket, NextData}; seeker: the Seek call of packet-size detection or of Rewind (after 0..5 calls) fails: no panic, no silent loss when no error is surfaced, a later Rewind with a working Seek restarts like a fresh Demuxer; the reader failing during a second pass, after the stream was read to its end and rewound; a quarter of the permanent reader faults with the context cancelled at the moment of the failure; writer: Muxer histories (WriteTables / WriteData ending in packets with 0, 1, 2, many stuffing bytes / WritePacket) " +
			"re-run with the k-th Write call failing, for every k of the fault-free run, permanently and once, accepting 0 or a partial count; the same over sessions holding one unit of 47 091 bytes .. 1 MiB (stage writer-big); distinct = (stream or history, fault position, mode); " +
			"non-trivial = the fault was actually injected during an API call",
		Assumptions: []string{"for a bufio.Reader the pending call is the first call that returns an error (bufio delays the failure)", "after the first surfaced error the run stops: later behaviour is not part of the property"},
		Shards:      32,
		Run:         runC18,
		Guards: func(m *mon.Merged, tier string) []string {
			var out []string
			need(m, &out, "reader_faults_in_a_second_pass", 300)
			need(m, &out, "reader_faults_injected", 20000)
			need(m, &out, "reader_faults_delivered_with_data", 10000)
			need(m, &out, "writer_faults_injected", 20000)
			need(m, &out, "seek_faults_injected", 1000)
			need(m, &out, "recovered_rewinds_compared", 500)
			need(m, &out, "reader_fault_in_detection_window", 500)
			need(m, &out, "writer_fault_region_stuffing-af", 20)
			need(m, &out, "writer_fault_one_shot", 5000)
			need(m, &out, "writer_fault_permanent", 5000)
			need(m, &out, "writer_fault_sessions_with_big_units", 8)
			return out
		},
		Exhaustive: func(tier string) bool { return true },
	})
}

// writerFaultsBig: units of hundreds to thousands of packets (64 KiB and 1 MiB of output are crossed inside one call), every
// (sampled) Write call of the session failing in turn.
func writerFaultsBig(c *mon.Ctx, idx int64, r *rand.Rand) {
	sizes := []int{64 << 10, 65536 + 200, 100000, 131072 + 300, 47091, 348*184 - 14, 349*184 - 14, 1<<20 + 500}
	size := sizes[int(idx)%len(sizes)]
	if !c.Thorough() && size > 300000 {
		size = 250000
	}
	mk := func(n int) wop {
		return wop{kind: "data", data: &astits.MuxerData{PID: 0x100, PES: &astits.PESData{Header: &astits.PESHeader{StreamID: 0xE0, OptionalHeader: &astits.PESOptionalHeader{MarkerBits: 2, PTSDTSIndicator: 2, PTS: &astits.ClockReference{Base: 90000}}}, Data: gen.Bytes(r, n)}}}
	}
	ops := []wop{{kind: "tables"}, mk(size + r.IntN(150)), mk(1 + r.IntN(400)), {kind: "tables"}}
	writerFaultsOps(c, "writer-big", idx, r, ops)
	c.Count("writer_fault_sessions_with_big_units")
	c.Max("largest_unit_written_under_writer_faults_bytes", int64(size))
}

func runC18(c *mon.Ctx) {
	for i := int64(0); i < c.Pick(8, 48); i++ {
		if c.Mine("writer-big", i) {
			writerFaultsBig(c, i, c.Rng("writer-big", i))
		}
	}
	// ---- reader ----
	n := c.Pick(160, 1500)
	for i := int64(0); i < n; i++ {
		if !c.Mine("reader", i) {
			continue
		}
		r := c.Rng("reader", i)
		var s *gen.Stream
		for {
			m := gen.RandomModel(r, gen.ModelOpts{MaxPES: 2, MaxPMT: 1, MaxSI: 1, MaxUnits: 2, SmallUnits: i%2 == 0})
			s = m.Build(r)
			if len(s.Packets) >= 3 && len(s.Packets) <= 30 {
				break
			}
		}
		L := len(s.Bytes)
		cfgs := []DemuxCfg{}
		for _, rd := range []string{"seek", "plain", "bufio"} {
			for _, ps := range []int{188, 0} {
				for _, api := range []string{"packet", "data"} {
					cfgs = append(cfgs, DemuxCfg{PacketSize: ps, Reader: rd, API: api})
				}
			}
		}
		// the same packets in the 188+4 framing, explicit and auto-detected
		big := refts.Reframe(s.Bytes, 4, func(p, j int) byte { return byte(0x10 + p + j) })
		if s.Bytes[184] != 0x47 && s.Bytes[185] != 0x47 && s.Bytes[186] != 0x47 && s.Bytes[187] != 0x47 {
			for _, rd := range []string{"seek", "plain", "bufio"} {
				for _, ps := range []int{192, 0} {
					cfgs = append(cfgs, DemuxCfg{PacketSize: ps, Reader: rd, API: []string{"packet", "data"}[len(cfgs)%2], BufioSize: 4097})
				}
			}
		}
		inputFor := func(cfg DemuxCfg) []byte {
			if cfg.BufioSize == 4097 {
				return big
			}
			return s.Bytes
		}
		base := map[string][]Item{}
		for _, cfg := range cfgs {
			run := RunDemux(inputFor(cfg), cfg)
			base[cfg.String()+fmt.Sprint(cfg.BufioSize)] = run.Items
		}
		var offs []int
		if L <= 188*6 || c.Thorough() {
			for f := 0; f < L; f++ {
				offs = append(offs, f)
			}
		} else {
			for f := 0; f < 400 && f < L; f += 3 {
				offs = append(offs, f)
			}
			for f := 400 + int(i)%17; f < L; f += 17 {
				offs = append(offs, f)
			}
		}
		for _, f := range offs {
			cfg := cfgs[(f+int(i))%len(cfgs)]
			if c.Thorough() || L <= 188*4 {
				for _, cf := range cfgs {
					readerFault(c, i, inputFor(cf), cf, base[cf.String()+fmt.Sprint(cf.BufioSize)], f)
				}
			} else {
				readerFault(c, i, inputFor(cfg), cfg, base[cfg.String()+fmt.Sprint(cfg.BufioSize)], f)
				c2 := cfgs[(f*7+3)%len(cfgs)]
				readerFault(c, i, inputFor(c2), c2, base[c2.String()+fmt.Sprint(c2.BufioSize)], f)
			}
		}
		if i < 2 {
			c.Sample("reader", map[string]any{"stream_bytes": L, "fault_offsets": len(offs), "configs": len(cfgs)})
		}
	}
	// ---- seeker: the reader's Seek is part of the underlying reader; the library seeks after packet-size detection and in Rewind ----
	nsk := c.Pick(200, 6000)
	for i := int64(0); i < nsk; i++ {
		if !c.Mine("seeker", i) {
			continue
		}
		r := c.Rng("seeker", i)
		m := gen.RandomModel(r, gen.ModelOpts{MaxPES: 2, MaxPMT: 1, MaxSI: 1, MaxUnits: 3})
		s := m.Build(r)
		for _, api := range []string{"packet", "data"} {
			seekFaults(c, i, r, s, api)
			secondPassFault(c, i, r, s, api)
		}
	}
	// ---- writer ----
	nw := c.Pick(64, 1500)
	for i := int64(0); i < nw; i++ {
		if !c.Mine("writer", i) {
			continue
		}
		r := c.Rng("writer", i)
		writerFaults(c, i, r)
	}
}

func readerFault(c *mon.Ctx, idx int64, input []byte, cfg DemuxCfg, base []Item, f int) {
	if f >= len(input) {
		return
	}
	readerFault1(c, idx, input, cfg, base, f, false)
	if f > 0 {
		readerFault1(c, idx, input, cfg, base, f, true)
		c.Count("reader_faults_delivered_with_data")
	}
	if (f+int(idx))%3 == 0 {
		// the error says of itself that it is temporary (net.Error: an interrupted call, a deadline) and the reader works again
		// afterwards: a failure all the same, the call during which it happens has to return it
		cfg.FailErr, cfg.FailOnce = temporaryErr{}, true
		readerFault1(c, idx, input, cfg, base, f, f%2 == 0 && f > 0)
		cfg.FailOnce = false
		c.Count("reader_faults_with_a_temporary_error_that_goes_away")
	}
	if (f+int(idx))%2 == 0 {
		// the reader's own error is io.ErrUnexpectedEOF (cut gzip / tar / HTTP input): an error other than end-of-file
		cfg.FailErr = io.ErrUnexpectedEOF
		readerFault1(c, idx, input, cfg, base, f, f%4 == 0 && f > 0)
		c.Count("reader_faults_with_unexpected_eof_as_the_readers_error")
	}
}

// temporaryErr is a reader failure that calls itself temporary, as net.OpError and os.ErrDeadlineExceeded do.
type temporaryErr struct{}

func (temporaryErr) Error() string   { return "verif: injected temporary failure" }
func (temporaryErr) Temporary() bool { return true }
func (temporaryErr) Timeout() bool   { return true }

func readerFault1(c *mon.Ctx, idx int64, input []byte, cfg DemuxCfg, base []Item, f int, withData bool) {
	cfg.HasFail, cfg.FailAt, cfg.FailWithData = true, f, withData
	data := map[string]any{"config": cfg.String(), "fail_at": f, "stream": mon.Hex(input, 1200)}
	// a quarter of the faults with the context of the Demuxer cancelled at the very moment the reader fails (a supervisor reacting
	// to the same failure): the pending call still reports what the reader said
	var cancel context.CancelFunc
	if (int(idx)+f)%4 == 3 && !withData && !cfg.FailOnce {
		// (a failure that comes with the bytes that complete a read, or that goes away, may not surface in the pending call at all:
		// the next call would then start under a cancelled context, which is another matter)
		cfg.Ctx, cancel = context.WithCancel(context.Background())
		defer cancel()
	}
	dmx, tap := NewDemuxerFor(input, cfg)
	cls := cfg.Reader + "/" + sizeCls(cfg.PacketSize) + "/" + cfg.API
	if withData {
		cls += "/error-with-data"
	}
	if cancel != nil {
		cls += "/context-cancelled-with-the-failure"
		tap.OnFail = cancel
		c.Count("reader_faults_with_the_context_cancelled_at_the_failure")
	}
	cause := mon.ErrInjected
	if cfg.FailErr != nil {
		cause = cfg.FailErr
		if cfg.FailOnce {
			cls += "/temporary-error"
		} else {
			cls += "/unexpected-eof"
		}
	}
	region := "payload"
	switch {
	case cfg.PacketSize == 0 && f < 193:
		region = "detection-window"
		c.Count("reader_fault_in_detection_window")
	case f%188 == 0:
		region = "sync-byte"
	case f%188 < 4:
		region = "header"
	}
	c.Count("reader_fault_region_" + region)
	var got []Item
	for call := 0; call < len(input)+64; call++ {
		var it Item
		p, v, st := mon.Guarded(func() {
			if cfg.API == "packet" {
				it.Packet, it.Err = dmx.NextPacket()
			} else {
				it.Data, it.Err = dmx.NextData()
			}
		})
		if p {
			c.Violate("C18/reader/panic:"+cls, "reader", idx, fmt.Sprintf("%v\n%s", v, st), data)
			return
		}
		if it.Err == nil {
			got = append(got, it)
			continue
		}
		// first error
		c.Count("reader_faults_injected")
		c.Case(mon.HashStr("r", fmt.Sprint(idx, cfg.String(), f, withData)), true)
		if errors.Is(it.Err, astits.ErrNoMorePackets) && !errors.Is(it.Err, cause) {
			c.Violate("C18/reader/failure-reported-as-end-of-stream:"+cls+":"+region, "reader", idx, fmt.Sprintf("reader failed at offset %d (reads so far %d), the call returned ErrNoMorePackets", f, tap.NReads), data)
			return
		}
		if !errors.Is(it.Err, cause) {
			c.Violate("C18/reader/error-does-not-wrap-cause:"+cls+":"+region, "reader", idx, fmt.Sprintf("reader failed at offset %d; first error: %v", f, it.Err), data)
			return
		}
		// prefix of the fault-free output
		if len(got) > len(base) {
			c.Violate("C18/reader/more-results-than-fault-free:"+cls, "reader", idx, fmt.Sprintf("%d vs %d", len(got), len(base)), data)
			return
		}
		if d := itemsEqual(got, base[:len(got)]); d != "" {
			c.Violate("C18/reader/results-not-a-prefix:"+cls+":"+region, "reader", idx, d, data)
		}
		return
	}
	c.Violate("C18/reader/fault-never-surfaced:"+cls+":"+region, "reader", idx, fmt.Sprintf("reader failed at offset %d but no call returned an error", f), data)
}

// secondPassFault (stage seeker): the stream is read to its end, the Demuxer is rewound, and the reader fails during the second pass: the pending
// call returns an error wrapping the cause (never ErrNoMorePackets - that the end was reached once says nothing about this pass) and
// what was delivered before is a prefix of the fault-free output.
func secondPassFault(c *mon.Ctx, idx int64, r *rand.Rand, s *gen.Stream, api string) {
	for _, ps := range []int{188, 0} {
		cfg := DemuxCfg{Reader: "seek", API: api, PacketSize: ps}
		fresh := RunDemux(s.Bytes, cfg)
		if fresh.Panic != "" || fresh.EOFAt < 0 {
			continue
		}
		dmx, tap := NewDemuxerFor(s.Bytes, cfg)
		data := map[string]any{"config": cfg.String(), "stream": mon.Hex(s.Bytes, 1200)}
		next := func() (Item, string) {
			var it Item
			if p, v, st := mon.Guarded(func() {
				if api == "packet" {
					it.Packet, it.Err = dmx.NextPacket()
				} else {
					it.Data, it.Err = dmx.NextData()
				}
			}); p {
				return it, fmt.Sprintf("%v\n%s", v, st)
			}
			return it, ""
		}
		ended := false
		for j := 0; j < len(s.Bytes)+64 && !ended; j++ {
			it, pn := next()
			if pn != "" {
				c.Violate("C18/reader/panic:second-pass", "seeker", idx, pn, data)
				return
			}
			ended = it.Err == astits.ErrNoMorePackets
		}
		if !ended {
			continue
		}
		if _, err := dmx.Rewind(); err != nil {
			continue
		}
		f := 1 + r.IntN(len(s.Bytes)-1)
		if ps == 0 && f < 193 {
			f += 193 // past the detection window, whose Seek is another matter (stage seeker)
			if f >= len(s.Bytes) {
				continue
			}
		}
		tap.FailAt, tap.FailOnce, tap.FailWithData = f, false, r.IntN(2) == 0
		data["fail_at"] = f
		cls := sizeCls(ps) + "/" + api
		c.Count("reader_faults_in_a_second_pass")
		c.Case(mon.HashStr("sp", fmt.Sprint(idx, api, ps, f)), true)
		var got []Item
		surfaced := false
		for j := 0; j < len(s.Bytes)+64; j++ {
			it, pn := next()
			if pn != "" {
				c.Violate("C18/reader/panic:second-pass", "seeker", idx, pn, data)
				return
			}
			if it.Err == nil {
				got = append(got, it)
				continue
			}
			surfaced = true
			switch {
			case errors.Is(it.Err, astits.ErrNoMorePackets) && !errors.Is(it.Err, mon.ErrInjected):
				c.Violate("C18/reader/failure-reported-as-end-of-stream:second-pass:"+cls, "seeker", idx, fmt.Sprintf("after a full pass and a Rewind the reader failed at offset %d, the call returned ErrNoMorePackets", f), data)
			case !errors.Is(it.Err, mon.ErrInjected):
				c.Violate("C18/reader/error-does-not-wrap-cause:second-pass:"+cls, "seeker", idx, fmt.Sprintf("reader failed at offset %d; first error: %v", f, it.Err), data)
			case len(got) > len(fresh.Items):
				c.Violate("C18/reader/more-results-than-fault-free:second-pass:"+cls, "seeker", idx, fmt.Sprintf("%d vs %d", len(got), len(fresh.Items)), data)
			default:
				if d := itemsEqual(got, fresh.Items[:len(got)]); d != "" {
					c.Violate("C18/reader/results-not-a-prefix:second-pass:"+cls, "seeker", idx, d, data)
				}
			}
			break
		}
		if !surfaced {
			c.Violate("C18/reader/fault-never-surfaced:second-pass:"+cls, "seeker", idx, fmt.Sprintf("reader failed at offset %d but no call returned an error", f), data)
		}
	}
}

// seekFaults: the reader's Seek fails. No property states what must happen then, so the verdicts are only the consequences the
// properties do state: no panic; when no error is surfaced, nothing may be lost or altered (C08: auto-detection on a seekable reader
// loses nothing; C20: a Rewind that reports success restarts like a fresh Demuxer); a failure is never reported as end of stream
// with data missing; a later Rewind whose Seek works reports (0, nil) and restarts like a fresh Demuxer. Whether a surfaced error
// wraps the cause is recorded as an observation.
func seekFaults(c *mon.Ctx, idx int64, r *rand.Rand, s *gen.Stream, api string) {
	next := func(dmx *astits.Demuxer) (it Item, panicked string) {
		p, v, st := mon.Guarded(func() {
			if api == "packet" {
				it.Packet, it.Err = dmx.NextPacket()
			} else {
				it.Data, it.Err = dmx.NextData()
			}
		})
		if p {
			panicked = fmt.Sprintf("%v\n%s", v, st)
		}
		return
	}
	// drain calls until ErrNoMorePackets, keeping error results like the fault-free runs do; firstErr is the first error met
	drain := func(dmx *astits.Demuxer) (got []Item, firstErr error, panicked string) {
		for j := 0; j < len(s.Bytes)+64; j++ {
			it, pn := next(dmx)
			if pn != "" {
				return got, firstErr, pn
			}
			if errors.Is(it.Err, astits.ErrNoMorePackets) {
				return got, firstErr, ""
			}
			if it.Err != nil && firstErr == nil {
				firstErr = it.Err
			}
			it.Call = j
			got = append(got, it)
		}
		return got, firstErr, ""
	}
	observe := func(err error) {
		if errors.Is(err, mon.ErrInjected) {
			c.Count("seek_errors_surfaced_wrapping_the_cause")
		} else {
			c.Count("seek_errors_surfaced_without_the_cause")
		}
	}
	data := map[string]any{"api": api, "stream": mon.Hex(s.Bytes, 1200)}
	// (a) packet-size detection
	fresh0 := RunDemux(s.Bytes, DemuxCfg{Reader: "seek", API: api})
	dmx, tap := NewDemuxerFor(s.Bytes, DemuxCfg{Reader: "seek", API: api, HasSeekFail: true, SeekFailIdx: 0})
	got, ferr, pn := drain(dmx)
	c.Case(mon.HashStr("sk-a", fmt.Sprint(idx, api)), true)
	if tap.NSeeks > 0 {
		c.Count("seek_faults_injected")
	}
	switch {
	case pn != "":
		c.Violate("C18/seeker/panic:detection", "seeker", idx, pn, data)
	case ferr != nil && errors.Is(ferr, mon.ErrInjected):
		observe(ferr)
	case ferr != nil && firstErrIsNew(got, fresh0.Items):
		observe(ferr) // an error the fault-free run does not have at that point: the failure was surfaced, without naming the cause
	default:
		// no additional error: then the failed Seek must not have cost anything (an input the fault-free run rejects as well
		// compares equal here)
		if d := itemsEqual(got, fresh0.Items); d != "" && tap.NSeeks > 0 {
			c.Violate("C18/seeker/failed-seek-hidden-and-output-differs:detection:"+api, "seeker", idx, "Seek failed during packet-size detection, no error was returned, and the output differs from the fault-free run: "+d, data)
		}
	}
	// (b), (c) Rewind
	for _, ps := range []int{188, 0} {
		k := r.IntN(6)
		skIdx := 0
		if ps == 0 && k > 0 {
			skIdx = 1 // detection has used the first Seek
		}
		fresh := RunDemux(s.Bytes, DemuxCfg{Reader: "seek", API: api, PacketSize: ps})
		dmx, tap = NewDemuxerFor(s.Bytes, DemuxCfg{Reader: "seek", API: api, PacketSize: ps, HasSeekFail: true, SeekFailIdx: skIdx})
		for j := 0; j < k; j++ {
			if _, pn = next(dmx); pn != "" {
				return
			}
		}
		before := tap.NSeeks
		var rerr error
		p, v, st := mon.Guarded(func() { _, rerr = dmx.Rewind() })
		c.Case(mon.HashStr("sk-b", fmt.Sprint(idx, api, ps)), true)
		cls := sizeCls(ps) + ":" + api
		if p {
			c.Violate("C18/seeker/panic:rewind", "seeker", idx, fmt.Sprintf("%v\n%s", v, st), data)
			continue
		}
		if before != skIdx || tap.NSeeks != skIdx+1 {
			continue // this Rewind did not meet the failing Seek (another seeking pattern): nothing to judge
		}
		c.Count("seek_faults_injected")
		c.Count("rewinds_with_failing_seek")
		if rerr == nil {
			// success reported: then it must have restarted
			got, ferr, pn = drain(dmx)
			if pn != "" {
				c.Violate("C18/seeker/panic:after-rewind", "seeker", idx, pn, data)
			} else if d := itemsEqual(got, fresh.Items); d != "" {
				c.Violate("C18/seeker/rewind-reported-success-but-did-not-restart:"+cls, "seeker", idx, fmt.Sprintf("Seek failed, Rewind returned nil; afterwards: first err=%v %s", ferr, d), data)
			}
			continue
		}
		observe(rerr)
		// (c) the next Rewind finds a working Seek
		var n int64
		p, v, st = mon.Guarded(func() { n, rerr = dmx.Rewind() })
		if p || rerr != nil || n != 0 {
			c.Violate("C18/seeker/rewind-after-failed-rewind:"+cls, "seeker", idx, fmt.Sprintf("panic=%v n=%d err=%v %s", v, n, rerr, st), data)
			continue
		}
		got, ferr, pn = drain(dmx)
		if pn != "" {
			c.Violate("C18/seeker/panic:after-rewind", "seeker", idx, pn, data)
			return
		}
		if d := itemsEqual(got, fresh.Items); d != "" {
			c.Violate("C18/seeker/differs-from-fresh-after-recovered-rewind:"+cls, "seeker", idx, fmt.Sprintf("first err=%v %s", ferr, d), data)
		}
		c.Count("recovered_rewinds_compared")
	}
}

// firstErrIsNew tells whether the first error result of got sits where the fault-free run has none.
func firstErrIsNew(got, base []Item) bool {
	for k, it := range got {
		if it.Err != nil {
			return k >= len(base) || base[k].Err == nil
		}
	}
	return false
}

type wop struct {
	kind string // tables, data, packet
	data *astits.MuxerData
	pkt  *astits.Packet
}

func writerFaults(c *mon.Ctx, idx int64, r *rand.Rand) {
	// history: tables, several WriteData whose last packet needs 0 / 1 / 2 / many stuffing bytes, a WritePacket
	var ops []wop
	ops = append(ops, wop{kind: "tables"})
	// payload sizes: first packet carries 184-9 (PES header with no optional fields = 9 bytes) ...
	hdr := 9
	for _, free := range []int{0, 1, 2, 3 + r.IntN(100), r.IntN(184)} {
		npk := 1 + r.IntN(3)
		size := npk*184 - hdr - free
		if size < 1 {
			size = 1
		}
		d := &astits.MuxerData{PID: 0x100, PES: &astits.PESData{Header: &astits.PESHeader{StreamID: 0xC0, OptionalHeader: &astits.PESOptionalHeader{MarkerBits: 2}}, Data: gen.Bytes(r, size)}}
		if r.IntN(3) == 0 {
			d.AdaptationField = &astits.PacketAdaptationField{HasPCR: true, PCR: &astits.ClockReference{Base: 1234, Extension: 5}, RandomAccessIndicator: r.IntN(2) == 0}
		}
		ops = append(ops, wop{kind: "data", data: d})
	}
	// a unit whose adaptation field leaves no room for the PES header: the field travels in a packet of its own (no payload)
	pd := gen.Bytes(r, 165+r.IntN(12))
	ops = append(ops, wop{kind: "data", data: &astits.MuxerData{PID: 0x100, AdaptationField: &astits.PacketAdaptationField{HasTransportPrivateData: true, TransportPrivateData: pd, TransportPrivateDataLength: len(pd), RandomAccessIndicator: r.IntN(2) == 0},
		PES: &astits.PESData{Header: &astits.PESHeader{StreamID: 0xC0, OptionalHeader: &astits.PESOptionalHeader{MarkerBits: 2, PTSDTSIndicator: 2, PTS: &astits.ClockReference{Base: 90000}}}, Data: gen.Bytes(r, 100+r.IntN(300))}}})
	pk := gen.RandomPacket(r)
	ops = append(ops, wop{kind: "packet", pkt: pk})
	// a short (PSI style) payload the writer pads with 0xFF up to the packet size
	ops = append(ops, wop{kind: "packet", pkt: &astits.Packet{Header: astits.PacketHeader{PID: 0x1501, HasPayload: true, PayloadUnitStartIndicator: true, ContinuityCounter: 3}, Payload: gen.Bytes(r, 1+r.IntN(170))}})
	ops = append(ops, wop{kind: "tables"})
	writerFaultsOps(c, "writer", idx, r, ops)
}

// writerFaultsOps runs a Muxer history once without faults, then once per (sampled) Write call of that run with that call failing.
func writerFaultsOps(c *mon.Ctx, stage string, idx int64, r *rand.Rand, ops []wop) {
	run := func(tap *mon.WTap) (ns []int, errs []error, acc []int, pan string) {
		m := astits.NewMuxer(context.Background(), tap, astits.MuxerOptTablesRetransmitPeriod(3))
		m.AddElementaryStream(astits.PMTElementaryStream{ElementaryPID: 0x100, StreamType: astits.StreamTypeAACAudio})
		m.SetPCRPID(0x100)
		for k, op := range ops {
			tap.Call = k
			tap.Accepted = 0
			var n int
			var err error
			p, v, st := mon.Guarded(func() {
				switch op.kind {
				case "tables":
					n, err = m.WriteTables()
				case "data":
					n, err = m.WriteData(mon.Clone(op.data))
				case "packet":
					n, err = m.WritePacket(mon.Clone(op.pkt))
				}
			})
			if p {
				return ns, errs, acc, fmt.Sprintf("%v\n%s", v, st)
			}
			ns = append(ns, n)
			errs = append(errs, err)
			acc = append(acc, tap.Accepted)
		}
		return
	}
	clean := mon.NewWTap()
	clean.Keep = true
	_, cerrs, _, pan := run(clean)
	if pan != "" {
		c.Violate("C18/writer/panic-without-fault", stage, idx, pan, nil)
		return
	}
	for _, e := range cerrs {
		if e != nil {
			c.Note("fault-free history has an error: " + e.Error())
			return
		}
	}
	NW := clean.NW
	stride := 1
	if !c.Thorough() && NW > 1200 {
		stride = NW / 1200
	}
	for k := int(idx) % stride; k < NW; k += stride {
		rec := clean.Log[k]
		// region of the failing write inside its packet
		region := "payload"
		off := rec.Off % 188
		pkt := clean.Buf[rec.Off-off : rec.Off-off+188]
		afc := pkt[3] >> 4 & 3
		switch {
		case rec.Len > 1 && ops[rec.Call].kind == "tables":
			region = "table-buffer"
		case off == 0:
			region = "sync-byte"
		case off < 4:
			region = "header"
		case afc&2 != 0 && off == 4:
			region = "af-length-byte"
			if pkt[4] == 0 {
				region = "stuffing-af"
			}
		case afc&2 != 0 && off <= 4+int(pkt[4]):
			region = "adaptation-field"
		case ops[rec.Call].kind == "packet" && ops[rec.Call].pkt != nil && off >= 188-padLen(ops[rec.Call].pkt):
			region = "trailing-padding"
		}
		for mode := 0; mode < 4; mode++ {
			tap := mon.NewWTap()
			tap.FailIdx = k
			tap.Permanent = mode&1 == 0
			if mode&2 != 0 && rec.Len > 1 {
				tap.Partial = 1 + r.IntN(rec.Len-1)
			} else if mode&2 != 0 {
				continue
			}
			ns, errs, acc, pan := run(tap)
			ms := "one-shot"
			if tap.Permanent {
				ms = "permanent"
			}
			data := map[string]any{"failing_write_index": k, "mode": ms, "partial": tap.Partial, "region": region, "op": ops[rec.Call].kind}
			if pan != "" {
				c.Violate("C18/writer/panic:"+ops[rec.Call].kind, stage, idx, pan, data)
				continue
			}
			c.Count("writer_faults_injected")
			c.Count("writer_fault_region_" + region)
			c.Count("writer_fault_" + map[bool]string{true: "permanent", false: "one_shot"}[tap.Permanent])
			c.Case(mon.HashStr("w", fmt.Sprint(idx, k, mode)), tap.InjCall >= 0)
			ic := tap.InjCall
			if ic < 0 || ic >= len(errs) {
				c.Violate("C18/writer/fault-not-injected", stage, idx, fmt.Sprintf("write %d was never reached (%d writes)", k, tap.NW), data)
				continue
			}
			op := ops[ic].kind
			switch {
			case errs[ic] == nil:
				c.Violate("C18/writer/failure-swallowed:"+op+":"+region+":"+ms, stage, idx, fmt.Sprintf("Write call %d failed during %s (call %d) which returned n=%d, err=nil", k, op, ic, ns[ic]), data)
			case !errors.Is(errs[ic], mon.ErrInjected):
				c.Violate("C18/writer/error-does-not-wrap-cause:"+op+":"+region, stage, idx, fmt.Sprintf("%s returned %v", op, errs[ic]), data)
			case ns[ic] > acc[ic]:
				c.Violate("C18/writer/count-exceeds-accepted:"+op+":"+region, stage, idx, fmt.Sprintf("%s returned n=%d but the writer accepted %d bytes during the call", op, ns[ic], acc[ic]), data)
			}
		}
	}
	if idx < 2 {
		c.Sample(stage, map[string]any{"ops": len(ops), "write_calls_fault_free": NW, "modes": "permanent/one-shot x reject/partial"})
	}
}

// padLen is the number of 0xFF bytes the writer appends after the payload of a WritePacket packet.
func padLen(p *astits.Packet) int {
	n := 4 + len(p.Payload)
	if p.Header.HasAdaptationField && p.AdaptationField != nil {
		n += 1 + gen.AFBodySize(p.AdaptationField)
	}
	if n >= 188 {
		return 0
	}
	return 188 - n
}
