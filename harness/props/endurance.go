package props

import (
	"bytes"
	"context"
	"errors"
	"fmt"
	"math/rand/v2"
	"sort"

	astits "github.com/asticode/go-astits"

	"verifharness/gen"
	"verifharness/mon"
	"verifharness/refts"
)

// Endurance workloads: long runs and large counts (the 257th, 1025th, 65537th packet, unit, PID or call). The streams are written
// by the small packetiser below (payload-only packets, adaptation field stuffing on the last packet of a unit), which is independent
// of the library and fast enough for streams of several hundred thousand packets; what was written is the reference.

// longStream is a stream under construction together with what it carries, per PID, in order.
type longStream struct {
	b    []byte
	cc   map[uint16]uint8
	want map[uint16][]longUnit
	n    int // packets
}

type longUnit struct {
	pes     bool
	pts     int64
	data    []byte                // PES: elementary stream bytes
	exp     []*astits.DemuxerData // PSI: the tables of the unit, in order
	packets int
}

func newLongStream() *longStream {
	return &longStream{cc: map[uint16]uint8{}, want: map[uint16][]longUnit{}}
}

// packet appends one 188 byte packet carrying payload (1..184 bytes), stuffed with an adaptation field when it is shorter.
func (s *longStream) packet(pid uint16, pusi bool, payload []byte) {
	cc := s.cc[pid]
	s.cc[pid] = (cc + 1) & 0xf
	h1 := byte(pid >> 8 & 0x1f)
	if pusi {
		h1 |= 0x40
	}
	s.b = append(s.b, 0x47, h1, byte(pid))
	switch n := len(payload); {
	case n == 184:
		s.b = append(s.b, 0x10|cc)
	case n == 183:
		s.b = append(s.b, 0x30|cc, 0)
	default:
		s.b = append(s.b, 0x30|cc, byte(183-n), 0)
		for k := 0; k < 182-n; k++ {
			s.b = append(s.b, 0xff)
		}
	}
	s.b = append(s.b, payload...)
	s.n++
}

// afPacket appends one packet with the given header bits and adaptation field content (flags byte and what follows it; the length
// byte is added): 4 + 1 + len(af) + len(payload) must be 188. With repeat the packet carries the counter of the previous packet of the
// PID again (a duplicate, or something that looks like one).
func (s *longStream) afPacket(pid uint16, pusi, prio bool, tsc uint8, af, payload []byte, repeat bool) {
	if 5+len(af)+len(payload) != 188 {
		panic("afPacket: sizes")
	}
	cc := s.cc[pid]
	if repeat {
		cc = (cc + 15) & 0xf
	} else {
		s.cc[pid] = (cc + 1) & 0xf
	}
	h1 := byte(pid >> 8 & 0x1f)
	if pusi {
		h1 |= 0x40
	}
	if prio {
		h1 |= 0x20
	}
	s.b = append(s.b, 0x47, h1, byte(pid), tsc<<6|0x30|cc, byte(len(af)))
	s.b = append(s.b, af...)
	s.b = append(s.b, payload...)
	s.n++
}

// unit appends the packets of one unit whose payload bytes are given; returns the number of packets.
func (s *longStream) unit(pid uint16, payload []byte) int {
	n := 0
	for off := 0; off < len(payload); off += 184 {
		end := off + 184
		if end > len(payload) {
			end = len(payload)
		}
		s.packet(pid, off == 0, payload[off:end])
		n++
	}
	return n
}

// unit0 appends the packets of the rest of a unit (no packet carries payload_unit_start).
func (s *longStream) unit0(pid uint16, payload []byte) {
	for off := 0; off < len(payload); off += 184 {
		s.packet(pid, false, payload[off:min(off+184, len(payload))])
	}
}

// pesHeaderPTS is a PES header with a PTS and nothing else: length 0 (unbounded) when the unit does not fit 16 bits or bounded is false.
func pesHeaderPTS(streamID byte, pts int64, dataLen int, bounded bool) []byte {
	l := 0
	if bounded && dataLen+8 <= 0xffff {
		l = dataLen + 8
	}
	return []byte{0, 0, 1, streamID, byte(l >> 8), byte(l), 0x80, 0x80, 5,
		0x21 | byte(pts>>29&0x0e), byte(pts >> 22), 0x01 | byte(pts>>14&0xfe), byte(pts >> 7), 0x01 | byte(pts<<1&0xfe)}
}

// pes appends one PES unit (video stream ids get length 0 when unbounded is asked for) and records it.
func (s *longStream) pes(pid uint16, streamID byte, pts int64, data []byte, bounded bool) {
	p := append(pesHeaderPTS(streamID, pts, len(data), bounded), data...)
	n := s.unit(pid, p)
	s.want[pid] = append(s.want[pid], longUnit{pes: true, pts: pts, data: data, packets: n})
}

// psi appends one PSI unit built by the reference (0xff padding up to the end of its last packet) and records its tables.
func (s *longStream) psi(u *gen.Unit) {
	p := append([]byte{}, u.Payload...)
	for len(p)%184 != 0 {
		p = append(p, 0xff)
	}
	n := s.unit(u.PID, p)
	s.want[u.PID] = append(s.want[u.PID], longUnit{exp: u.Expected(), packets: n})
}

// filler appends n one-packet PES units on pid, each carrying its index.
func (s *longStream) filler(pid uint16, n int, pts0 int64) {
	for k := 0; k < n; k++ {
		d := make([]byte, 170)
		for q := range d {
			d[q] = byte(k>>uint(8*(q%3))) ^ byte(q)
		}
		s.pes(pid, 0xe0, pts0+int64(len(s.want[pid])), d, false)
	}
}

// longData is recognisable data of n bytes for (pid, serial).
func longData(pid uint16, serial, n int) []byte {
	d := make([]byte, n)
	x := uint32(pid)*2654435761 + uint32(serial)*40503 + 1
	for q := range d {
		x = x*1664525 + 1013904223
		d[q] = byte(x >> 24)
	}
	return d
}

// compare compares what a demuxer delivered with what s carries: every unit once, per PID in order, PES byte for byte and tables
// field for field. Returns "" or the first difference.
func (s *longStream) compare(ds []*astits.DemuxerData) string { return s.compareExcept(ds, 0xffff) }

// compareExcept is compare for a stream from which the packets of PID skip were deleted.
func (s *longStream) compareExcept(ds []*astits.DemuxerData, skip uint16) string {
	got := map[uint16][]*astits.DemuxerData{}
	for _, d := range ds {
		got[d.PID] = append(got[d.PID], d)
	}
	pids := make([]int, 0, len(s.want))
	for pid := range s.want {
		if pid != skip {
			pids = append(pids, int(pid))
		}
	}
	sort.Ints(pids)
	for _, pp := range pids {
		pid := uint16(pp)
		us := s.want[pid]
		g := got[pid]
		k := 0
		for ui, u := range us {
			if !u.pes {
				for q, e := range u.exp {
					if k >= len(g) {
						return fmt.Sprintf("PID %#x: %d data delivered, table %d of unit %d (%s) is missing", pid, len(g), q, ui, dataKind(e))
					}
					gd := *g[k]
					gd.FirstPacket = nil
					if df := mon.Diff(&gd, e, nil); df != "" {
						return fmt.Sprintf("PID %#x unit %d table %d: delivered vs carried: %s", pid, ui, q, df)
					}
					k++
				}
				continue
			}
			if k >= len(g) {
				return fmt.Sprintf("PID %#x: %d data delivered; unit %d (%d packets, PTS %d) is missing", pid, len(g), ui, u.packets, u.pts)
			}
			p := g[k].PES
			k++
			if p == nil || p.Header == nil || p.Header.OptionalHeader == nil || p.Header.OptionalHeader.PTS == nil || p.Header.OptionalHeader.PTS.Base != u.pts {
				return fmt.Sprintf("PID %#x unit %d (%d packets): PTS differs, the stream carries %d there: a unit is missing, cut or out of order", pid, ui, u.packets, u.pts)
			}
			if !bytes.Equal(p.Data, u.data) {
				at := 0
				for at < len(p.Data) && at < len(u.data) && p.Data[at] == u.data[at] {
					at++
				}
				return fmt.Sprintf("PID %#x unit %d (%d packets): %d data bytes delivered, the unit holds %d; first difference at byte %d", pid, ui, u.packets, len(p.Data), len(u.data), at)
			}
		}
		if len(g) > k {
			return fmt.Sprintf("PID %#x: %d data delivered, the stream carries %d", pid, len(g), k)
		}
	}
	for pid := range got {
		if _, ok := s.want[pid]; !ok || pid == skip {
			return fmt.Sprintf("PID %#x: data delivered on a PID the stream does not carry", pid)
		}
	}
	return ""
}

// drainData reads a stream with NextData until ErrNoMorePackets; other errors are collected.
func drainData(b []byte) (ds []*astits.DemuxerData, errs []error, panicked string) {
	run := RunDemux(b, DemuxCfg{PacketSize: 188, Reader: "seek", API: "data", MaxCalls: len(b)/188 + 64})
	return run.Datas(), run.Errors(), run.Panic
}

// enduranceGaps are the numbers of packets of other PIDs that pass between two units of a sparse PID.
func enduranceGaps(r *rand.Rand, thorough bool, i int64) int {
	base := []int{300, 4100, 65536, 65537, 70000, 131072, 131090, 140000}
	if thorough {
		base = append(base, 262200, 200000+r.IntN(200000))
	}
	return base[int(i)%len(base)]
}

// sparseStream: a programme (PAT, PMT, video on 0x100) in which the other PIDs speak rarely: PES PIDs 0x101 (one packet units) and
// 0x102 (several packets, unbounded), the PMT PID, and the DVB SI PIDs; rounds of one unit per sparse PID are separated by gap video
// packets. Every unit of a sparse PID stays pending in the Demuxer for the whole gap.
func sparseStream(r *rand.Rand, gap, rounds int) *longStream {
	s := newLongStream()
	pat := gen.SimpleSection(r, refts.KindPAT, 1, 0)
	pat.Syntax.Data.PAT.Programs = []*astits.PATProgram{{ProgramNumber: 1, ProgramMapID: 0x1000}}
	s.psi(gen.NewPSIUnit(r, 0, 1, []*astits.PSISection{pat}, 0, false))
	serial := 1
	var tail []byte // the rest of a unit on PID 0x103 whose first packet went out before the gap
	for round := 0; round < rounds; round++ {
		if round > 0 {
			g := gap
			if round > 1 {
				g = gap/3 + 1
			}
			s.filler(0x100, g, 1000)
		}
		if tail != nil {
			for off := 0; off < len(tail); off += 184 {
				s.packet(0x103, false, tail[off:min(off+184, len(tail))])
			}
		}
		{
			// a unit that straddles the gap: its first packet now, the others after the silence
			d := longData(0x103, round, 400+r.IntN(300))
			p := append(pesHeaderPTS(0xe2, int64(9000+round), len(d), false), d...)
			s.packet(0x103, true, p[:184])
			tail = p[184:]
			s.want[0x103] = append(s.want[0x103], longUnit{pes: true, pts: int64(9000 + round), data: d, packets: 1 + (len(tail)+183)/184})
		}
		pmt := gen.SimpleSection(r, refts.KindPMT, serial, 0)
		pmt.Syntax.Data.PMT.ProgramNumber = 1
		pmt.Syntax.Header.TableIDExtension = 1
		s.psi(gen.NewPSIUnit(r, 0x1000, serial, []*astits.PSISection{pmt}, 0, false))
		s.pes(0x101, 0xbd, int64(5000+round), longData(0x101, round, 40+r.IntN(100)), true)
		s.pes(0x102, 0xe1, int64(7000+round), longData(0x102, round, 200+r.IntN(600)), false)
		for _, t := range []struct {
			pid  uint16
			kind refts.TableKind
		}{{0x10, refts.KindNIT}, {0x11, refts.KindSDT}, {0x12, refts.KindEIT}, {0x14, refts.KindTOT}} {
			serial++
			n := 1 + r.IntN(2)
			var secs []*astits.PSISection
			for q := 0; q < n; q++ {
				secs = append(secs, gen.SimpleSection(r, t.kind, serial*4+q, r.IntN(150)))
			}
			s.psi(gen.NewPSIUnit(r, t.pid, serial, secs, 0, false))
		}
		serial++
	}
	s.filler(0x100, 5+r.IntN(40), 1000)
	for off := 0; off < len(tail); off += 184 {
		s.packet(0x103, false, tail[off:min(off+184, len(tail))])
	}
	return s
}

// sparseCase demultiplexes a sparse stream and compares everything delivered with what the stream carries.
func sparseCase(c *mon.Ctx, prop, stage string, i int64) {
	r := c.Rng(stage, i)
	gap := enduranceGaps(r, c.Thorough(), i)
	rounds := 2
	if gap < 100000 && i%2 == 1 {
		rounds = 3
	}
	s := sparseStream(r, gap, rounds)
	data := map[string]any{"gap_packets": gap, "rounds": rounds, "packets": s.n}
	ds, errs, pn := drainData(s.b)
	c.Count("endurance_sparse_streams")
	c.Add("endurance_packets", int64(s.n))
	c.Max("endurance_longest_silence_of_a_pid_packets", int64(gap))
	c.Case(mon.HashStr(prop, stage, fmt.Sprint(i, gap, rounds)), true)
	if pn != "" {
		c.Violate(prop+"/endurance/panic", stage, i, pn, data)
		return
	}
	if len(errs) > 0 {
		c.Violate(prop+"/endurance/error-on-wellformed-stream", stage, i, fmt.Sprint(errs[0]), data)
		return
	}
	if d := s.compare(ds); d != "" {
		c.Violate(prop+"/endurance/sparse-pid-unit-lost-or-altered", stage, i, d, data)
	}
}

// ---- long Muxer sessions ----

// enduranceShapes names the long sessions of enduranceScenario.
var enduranceShapes = []string{"many-units", "sparse-pid", "big-units", "many-emissions", "stream-churn"}

// enduranceScenario builds a long Muxer session (tens of thousands of calls or packets) of the given shape:
//
//	many-units     more than 65536 (thorough: 131072) one-packet units on one PID, with units whose adaptation field leaves no room
//	               for the PES header (adaptation-only packet first) at the counts where narrow counters wrap, other PIDs in between,
//	               and the PID removed and added again now and then
//	sparse-pid     two PIDs that speak once, stay silent while more than 131072 packets of video pass, and speak again
//	big-units      single units of 256, 257, 348, 349, 357, 1024 ... packets, around 65535 bytes, and above 1 MiB
//	many-emissions a retransmit period of 1..3 and hundreds of emissions, with long runs during which the tables do not change
//	stream-churn   a stream with an automatic PID added, written and removed thousands of times (the automatic range is walked to its end)
func enduranceScenario(r *rand.Rand, shape string, thorough bool) (ops []HOp, period int) {
	period = 40
	hdr := func(id uint8, pts int64) *astits.PESHeader {
		return &astits.PESHeader{StreamID: id, OptionalHeader: &astits.PESOptionalHeader{MarkerBits: 2, PTSDTSIndicator: 2, PTS: &astits.ClockReference{Base: pts}}}
	}
	serial := 0
	mk := func(pid uint16, id uint8, n int) HOp {
		serial++
		d := longData(pid, serial, n)
		copy(d, gen.Tag(pid, serial))
		return HOp{Kind: "data", PID: pid, Slot: -1, Data: &astits.MuxerData{PES: &astits.PESData{Header: hdr(id, int64(serial)), Data: d}}}
	}
	ops = []HOp{{Kind: "add", PID: 0x100, ES: &astits.PMTElementaryStream{StreamType: astits.StreamTypeH264Video}, Slot: -1},
		{Kind: "add", PID: 0x101, ES: &astits.PMTElementaryStream{StreamType: astits.StreamTypeAACAudio}, Slot: -1},
		{Kind: "add", PID: 0x102, ES: &astits.PMTElementaryStream{StreamType: astits.StreamTypePrivateData}, Slot: -1}, {Kind: "pcr", PID: 0x100}}
	switch shape {
	case "many-units":
		n := 66200
		if thorough {
			n = 131500 + r.IntN(1000)
		}
		edge := map[int]bool{}
		for _, b := range []int{16, 256, 1024, 4096, 32768, 65536, 131072} {
			for d := -2; d <= 2; d++ {
				edge[b+d] = true
			}
		}
		units := 0 // units written on 0x101 so far
		for k := 0; k < n; k++ {
			op := mk(0x101, 0xc0, 1+r.IntN(150))
			if edge[units] || r.IntN(3000) == 0 {
				// no room for the PES header next to this field: it travels in a packet of its own, which may not use up a counter value
				op.Data.AdaptationField = &astits.PacketAdaptationField{StuffingLength: 172 + r.IntN(10)}
				if r.IntN(2) == 0 {
					op.Data.AdaptationField.HasPCR, op.Data.AdaptationField.PCR = true, &astits.ClockReference{Base: int64(units), Extension: 7}
					op.Data.AdaptationField.StuffingLength -= 6
				}
			}
			if units%977 == 5 {
				op.Data.PES.Data = op.Data.PES.Data[:1] // the packet count of the PID drifts against the unit count
				op2 := mk(0x101, 0xc0, 200+r.IntN(300))
				ops = append(ops, op2)
				units++
			}
			ops = append(ops, op)
			units++
			if k%700 == 350 {
				ops = append(ops, mk(0x100, 0xe0, 100+r.IntN(2000)))
			}
			if k%9000 == 8999 {
				ops = append(ops, HOp{Kind: "remove", PID: 0x101}, mk(0x100, 0xe0, 50), HOp{Kind: "add", PID: 0x101, ES: &astits.PMTElementaryStream{StreamType: astits.StreamTypeAACAudio}, Slot: -1})
			}
		}
	case "sparse-pid":
		gap := 131072 + 200 + r.IntN(9000)
		if thorough && r.IntN(2) == 0 {
			gap = 262144 + r.IntN(5000)
		}
		ops = append(ops, mk(0x101, 0xc0, 300+r.IntN(300)), mk(0x102, 0xbd, 30+r.IntN(100)))
		for p := 0; p < gap; {
			n := 60000 + r.IntN(60000)
			ops = append(ops, mk(0x100, 0xe0, n))
			p += n/184 + 1
		}
		ops = append(ops, mk(0x101, 0xc0, 300+r.IntN(300)), mk(0x102, 0xbd, 30+r.IntN(100)), mk(0x100, 0xe0, 500), mk(0x101, 0xc0, 40))
	case "big-units":
		sizes := []int{256*184 - 14, 256*184 - 13, 257*184 - 14, 348*184 - 14, 349*184 - 13, 356*184 - 14, 357*184 - 14, 65527, 65528, 65535, 65536, 65541, 65542,
			1024*184 - 14, 1025*184 - 14, 70000, 131072, 250000, 1<<20 + 17}
		if thorough {
			sizes = append(sizes, 2<<20+r.IntN(1000), 4096*184-14, 4097*184-14+r.IntN(3))
		}
		r.Shuffle(len(sizes), func(a, b int) { sizes[a], sizes[b] = sizes[b], sizes[a] })
		for k, n := range sizes {
			ops = append(ops, mk(0x100, 0xe0, n))
			if k%3 == 0 {
				ops = append(ops, mk(0x101, 0xc0, 1+r.IntN(60000)))
			}
		}
	case "many-emissions":
		period = 1 + r.IntN(3)
		n := 700
		if thorough {
			n = 3000
		}
		for k := 0; k < n; k++ {
			ops = append(ops, mk([]uint16{0x100, 0x101, 0x102}[r.IntN(3)], 0xe0, 1+r.IntN(400)))
			if r.IntN(10) == 0 {
				ops = append(ops, HOp{Kind: "tables"})
			}
			if k%250 == 249 {
				// the tables change now and then; in between they are sent again and again unchanged
				ops = append(ops, HOp{Kind: "pcr", PID: []uint16{0x100, 0x101}[r.IntN(2)]})
			}
		}
	case "stream-churn":
		n := 4200
		if thorough {
			n = 8300 // the whole automatic range
		}
		ops = append(ops, HOp{Kind: "tables"})
		for k := 0; k < n; k++ {
			ops = append(ops, HOp{Kind: "add", PID: 0, Auto: true, Slot: 1 + k%3, ES: &astits.PMTElementaryStream{StreamType: astits.StreamTypeMPEG2Audio}}, HOp{Kind: "tables"})
			if k%40 == 0 || (k > 3830 && k < 3850) {
				d := mk(0, 0xc0, 1+r.IntN(300))
				d.Auto, d.Slot = true, 1+k%3
				ops = append(ops, d)
			}
			ops = append(ops, HOp{Kind: "remove", Auto: true, Slot: 1 + k%3})
		}
		ops = append(ops, mk(0x100, 0xe0, 100), HOp{Kind: "tables"})
	}
	return
}

// enduranceSessions runs the long Muxer sessions of this worker and hands each to check.
func enduranceSessions(c *mon.Ctx, check func(stage string, i int64, shape string, hr *HistRun)) {
	for i := int64(0); i < c.Pick(5, 20); i++ {
		if !c.Mine("endurance", i) {
			continue
		}
		shape := enduranceShapes[int(i)%len(enduranceShapes)]
		ops, period := enduranceScenario(c.Rng("endurance", i), shape, c.Thorough())
		hr := runHistory(ops, period)
		c.Count("endurance_sessions")
		c.Seen("endurance_shapes", shape)
		c.Add("endurance_calls", int64(len(hr.Calls)))
		c.Max("endurance_longest_session_packets", int64(len(hr.Out)/188))
		check("endurance", i, shape, hr)
	}
}

// mergeStreams merges streams that use different PIDs in a random order that keeps every stream's own order.
func mergeStreams(r *rand.Rand, parts ...*longStream) *longStream {
	all := newLongStream()
	var order []int
	for k, ls := range parts {
		for pid, w := range ls.want {
			all.want[pid] = w
		}
		for q := 0; q < ls.n; q++ {
			order = append(order, k)
		}
	}
	r.Shuffle(len(order), func(a, b int) { order[a], order[b] = order[b], order[a] })
	cur := make([]int, len(parts))
	for _, k := range order {
		all.b = append(all.b, parts[k].b[cur[k]:cur[k]+188]...)
		cur[k] += 188
		all.n++
	}
	return all
}

// manyPIDsStream: npids distinct PIDs (no tables: all PES), each with a few units of one to three packets, merged in a random order
// that keeps every PID's own order.
func manyPIDsStream(r *rand.Rand, npids int) *longStream {
	all := newLongStream()
	perm := r.Perm(0x1fff - 0x20)
	var parts []*longStream
	var order []int
	for k := 0; k < npids; k++ {
		pid := uint16(0x20 + perm[k])
		ls := newLongStream()
		ls.cc[pid] = uint8(r.IntN(16))
		for u := 0; u < 1+r.IntN(3); u++ {
			ls.pes(pid, []byte{0xe0, 0xc0, 0xbd}[r.IntN(3)], int64(k*10+u), longData(pid, u, 20+r.IntN(500)), r.IntN(2) == 0)
		}
		all.want[pid] = ls.want[pid]
		for q := 0; q < ls.n; q++ {
			order = append(order, k)
		}
		parts = append(parts, ls)
	}
	r.Shuffle(len(order), func(a, b int) { order[a], order[b] = order[b], order[a] })
	cur := make([]int, npids)
	for _, k := range order {
		all.b = append(all.b, parts[k].b[cur[k]:cur[k]+188]...)
		cur[k] += 188
		all.n++
	}
	return all
}

// heldPacketsCase reads a long stream of packets with payloads of every size through NextPacket and keeps every packet for `window`
// further calls: when it leaves the window it must still be the packet of the stream at its position (judged against the stream
// bytes), and, when reemit is set, Muxer.WritePacket must give back those 188 bytes.
func heldPacketsCase(c *mon.Ctx, prop, stage string, idx int64, r *rand.Rand, npk, window int, reemit bool) {
	s := newLongStream()
	pids := []uint16{0x100, 0x101, 0x102, 0x1000}
	for k := 0; k < npk; k++ {
		n := 184
		switch r.IntN(10) {
		case 0:
			n = 176
		case 1, 2:
			n = 1 + r.IntN(183)
		case 3:
			n = []int{1, 2, 40, 142, 182, 183}[r.IntN(6)]
		}
		p := make([]byte, n)
		x := uint32(k)*2654435761 + 12345
		for q := range p {
			x = x*1664525 + 1013904223
			p[q] = byte(x >> 24)
		}
		s.packet(pids[r.IntN(len(pids))], r.IntN(40) == 0, p)
	}
	data := map[string]any{"packets": npk, "window": window}
	dmx := astits.NewDemuxer(context.Background(), bytes.NewReader(s.b), astits.DemuxerOptPacketSize(188))
	out := &bytes.Buffer{}
	mx := astits.NewMuxer(context.Background(), out)
	ring := make([]*astits.Packet, window)
	bad := false
	check := func(k int, p *astits.Packet, when string) {
		if bad {
			return
		}
		raw := s.b[k*188 : k*188+188]
		pid := uint16(raw[1]&0x1f)<<8 | uint16(raw[2])
		pl := raw[4:]
		if raw[3]&0x20 != 0 {
			pl = raw[5+int(raw[4]):]
		}
		if p.Header.PID != pid || p.Header.ContinuityCounter != raw[3]&0xf || p.Header.PayloadUnitStartIndicator != (raw[1]&0x40 != 0) || !bytes.Equal(p.Payload, pl) ||
			(p.AdaptationField != nil) != (raw[3]&0x20 != 0) || (p.AdaptationField != nil && p.AdaptationField.Length != int(raw[4])) {
			bad = true
			cls := "/endurance/packet-differs-from-stream"
			if when == "late" {
				cls = "/endurance/returned-packet-modified-later"
			}
			c.Violate(prop+cls, stage, idx, fmt.Sprintf("packet %d of the stream (%s: checked %s): the packet held by the caller has pid %#x cc %d payload %d bytes starting %x; the stream carries pid %#x cc %d payload %d bytes starting %x",
				k, map[string]string{"fresh": "right after NextPacket returned it", "late": fmt.Sprint(window, " calls after NextPacket returned it")}[when], when, p.Header.PID, p.Header.ContinuityCounter, len(p.Payload), clipBytes(p.Payload, 8), pid, raw[3]&0xf, len(pl), clipBytes(pl, 8)), data)
			return
		}
		if reemit && when == "late" {
			out.Reset()
			n, err := mx.WritePacket(p)
			c.Count("packets_reemitted")
			if err != nil || n != 188 || !bytes.Equal(out.Bytes(), raw) {
				bad = true
				c.Violate(prop+"/endurance/reemitted-packet-differs", stage, idx, fmt.Sprintf("packet %d of the stream, written back with WritePacket %d calls after it was read: n=%d err=%v, first difference at byte %d", k, window, n, err, firstDiff(out.Bytes(), raw)), data)
			}
		}
	}
	k := 0
	for ; ; k++ {
		var p *astits.Packet
		var err error
		if pn, v, st := mon.Guarded(func() { p, err = dmx.NextPacket() }); pn {
			c.Violate(prop+"/endurance/panic", stage, idx, fmt.Sprintf("%v\n%s", v, st), data)
			return
		}
		if err != nil {
			if !errors.Is(err, astits.ErrNoMorePackets) {
				c.Violate(prop+"/endurance/error-on-wellformed-stream", stage, idx, err.Error(), data)
				return
			}
			break
		}
		if k >= npk {
			c.Violate(prop+"/endurance/more-packets-than-the-stream-holds", stage, idx, fmt.Sprint(k), data)
			return
		}
		check(k, p, "fresh")
		if k >= window {
			check(k-window, ring[k%window], "late")
		}
		ring[k%window] = p
	}
	if k != npk && !bad {
		c.Violate(prop+"/endurance/packets-missing", stage, idx, fmt.Sprintf("%d packets returned, the stream holds %d", k, npk), data)
		return
	}
	for j := max(0, k-window); j < k; j++ {
		check(j, ring[j%window], "late")
	}
	c.Add("endurance_packets_held_and_rechecked", int64(k))
	c.Count("endurance_held_packet_runs")
	c.Case(mon.HashStr(prop, stage, fmt.Sprint(idx, npk, window)), true)
}
