package props

import (
	"bytes"
	"context"
	"encoding/binary"
	"fmt"

	astits "github.com/asticode/go-astits"

	"verifharness/gen"
	"verifharness/mon"
	"verifharness/refts"
)

func init() {
	register(&Prop{
		ID:    "C10",
		Level: "exploration",
		Rule: "library CRC (table, single steps, whole messages, piecewise updates, residue) compared with a bit-serial shift register; enumerated sub-domains " +
			"(256 table entries, all messages of length 0..2, the listed (state,byte) grids) are distinct by construction; random messages are distinct by content hash; " +
			"a case is non-trivial when the message is non-empty or the step changes the state",
		Assumptions: []string{"the reference is the 8-step shift register of ISO 13818-1 Annex A written in refts/crc.go, anchored on the check value 0x0376E6E7 and a known PAT",
			"hooks VerifComputeCRC32/VerifUpdateCRC32/VerifCRC32Table are thin wrappers (verif_hooks.go); the end-to-end stage ties them to the Demuxer/Muxer code path"},
		Shards: 32,
		Run:    runC10,
		Guards: func(m *mon.Merged, tier string) []string {
			var out []string
			need(m, &out, "table_entries_checked", 256)
			need(m, &out, "short_messages_checked", 65793)
			need(m, &out, "single_steps_checked", 1<<24)
			need(m, &out, "split_points_checked", 1000000)
			need(m, &out, "e2e_sections_accepted_by_demuxer", 500)
			need(m, &out, "e2e_muxer_sections_checked", 100)
			return out
		},
		Exhaustive: func(tier string) bool { return true },
	})
}

func runC10(c *mon.Ctx) {
	one := make([]byte, 1)
	step := func(s uint32, b byte) uint32 {
		one[0] = b
		return astits.VerifUpdateCRC32(s, one)
	}
	// stage table
	if c.Mine("table", 0) {
		t := astits.VerifCRC32Table()
		for i := 0; i < 256; i++ {
			want := refts.CRC32Step(0, byte(i)) // register 0, byte i: exactly the table entry definition
			if t[i] != want {
				c.Violate(fmt.Sprintf("C10/table/entry-bit-error"), "table", 0, fmt.Sprintf("table[%d]=%#08x, bit-serial value %#08x", i, t[i], want), map[string]any{"index": i})
			}
			c.Count("table_entries_checked")
		}
		c.CaseN(256)
		c.Sample("table", map[string]any{"entry": 1, "library": fmt.Sprintf("%#08x", t[1]), "reference": fmt.Sprintf("%#08x", refts.CRC32Step(0, 1))})
	}
	// stage short: all messages of length 0..2, partitioned by first byte
	for fb := int64(0); fb < 257; fb++ {
		if !c.Mine("short", fb) {
			continue
		}
		check := func(m []byte) {
			got, want := astits.VerifComputeCRC32(m), refts.CRC32(m)
			if got != want {
				c.Violate("C10/compute/short-message", "short", fb, fmt.Sprintf("crc(%x)=%#08x want %#08x", m, got, want), map[string]any{"msg": mon.Hex(m, 8)})
			}
			c.Count("short_messages_checked")
		}
		if fb == 256 {
			check(nil)
			c.CaseN(1)
			continue
		}
		check([]byte{byte(fb)})
		for b := 0; b < 256; b++ {
			check([]byte{byte(fb), byte(b)})
		}
		c.CaseN(257)
	}
	// stage step: single steps
	nblocks := int64(256)
	for blk := int64(0); blk < nblocks; blk++ {
		if !c.Mine("step", blk) {
			continue
		}
		var n int64
		bad := func(s uint32, b byte, got, want uint32) {
			c.Violate("C10/step/state-byte", "step", blk, fmt.Sprintf("update(%#08x,%#02x)=%#08x want %#08x", s, b, got, want), map[string]any{"state": s, "byte": b})
		}
		// (a) high-half states: blk selects the top byte, all 256 next-byte values, all 256 second bytes of the state
		for hi2 := 0; hi2 < 256; hi2++ {
			s := uint32(blk)<<24 | uint32(hi2)<<16
			for b := 0; b < 256; b++ {
				got, want := step(s, byte(b)), refts.CRC32Step(s, byte(b))
				if got != want {
					bad(s, byte(b), got, want)
				}
				n++
			}
		}
		// (b) random pairs
		r := c.Rng("step", blk)
		for i := 0; i < (1<<22)/int(nblocks); i++ {
			s, b := r.Uint32(), byte(r.UintN(256))
			got, want := step(s, b), refts.CRC32Step(s, b)
			if got != want {
				bad(s, b, got, want)
			}
			n++
		}
		if c.Thorough() {
			// (c) all 2^32 states for byte 0: this block covers states [blk<<24, (blk+1)<<24)
			base := uint32(blk) << 24
			for lo := uint32(0); lo < 1<<24; lo++ {
				s := base | lo
				got, want := step(s, 0), refts.CRC32Step(s, 0)
				if got != want {
					bad(s, 0, got, want)
				}
			}
			n += 1 << 24
			// (d) 2^24 stratified states for the byte value == blk: the top byte sweeps all values, 2^16 stratified low parts
			for top := uint32(0); top < 256; top++ {
				for k := uint32(0); k < 1<<16; k++ {
					s := top<<24 | (k*0x9E37+uint32(blk)*977)&0xffffff
					got, want := step(s, byte(blk)), refts.CRC32Step(s, byte(blk))
					if got != want {
						bad(s, byte(blk), got, want)
					}
				}
			}
			n += 1 << 24
		}
		c.Add("single_steps_checked", n)
		c.CaseN(n)
	}
	// stage msgs: random messages, every split point
	nm := c.Pick(20000, 500000)
	for i := int64(0); i < nm; i++ {
		if !c.Mine("msgs", i) {
			continue
		}
		r := c.Rng("msgs", i)
		var l int
		switch r.IntN(5) {
		case 0:
			l = r.IntN(16)
		case 1:
			l = 4096 - r.IntN(4)
		default:
			l = r.IntN(4097)
		}
		m := gen.Bytes(r, l)
		switch r.IntN(6) {
		case 0:
			for j := range m {
				m[j] = 0
			}
		case 1:
			for j := range m {
				m[j] = 0xff
			}
		}
		want := refts.CRC32(m)
		if got := astits.VerifComputeCRC32(m); got != want {
			c.Violate("C10/compute/random-message", "msgs", i, fmt.Sprintf("crc of %d byte message = %#08x want %#08x", l, got, want), map[string]any{"msg": mon.Hex(m, 64)})
		}
		pre := uint32(0xFFFFFFFF)
		for sp := 0; sp <= l; sp++ {
			if sp > 0 {
				pre = astits.VerifUpdateCRC32(pre, m[sp-1:sp])
			}
			if got := astits.VerifUpdateCRC32(pre, m[sp:]); got != want {
				c.Violate("C10/update/split-differs-from-one-pass", "msgs", i, fmt.Sprintf("split at %d of %d: %#08x want %#08x", sp, l, got, want), map[string]any{"msg": mon.Hex(m, 64), "split": sp})
				break
			}
		}
		c.Add("split_points_checked", int64(l+1))
		for k := 0; k < 4 && l >= 2; k++ {
			a := r.IntN(l)
			b := a + r.IntN(l-a)
			got := astits.VerifUpdateCRC32(astits.VerifUpdateCRC32(astits.VerifUpdateCRC32(0xFFFFFFFF, m[:a]), m[a:b]), m[b:])
			if got != want {
				c.Violate("C10/update/three-way-split", "msgs", i, fmt.Sprintf("splits %d,%d: %#08x want %#08x", a, b, got, want), nil)
			}
			c.Count("three_way_splits_checked")
		}
		// residue
		var tail [4]byte
		binary.BigEndian.PutUint32(tail[:], want)
		if res := astits.VerifComputeCRC32(append(append([]byte{}, m...), tail[:]...)); res != 0 {
			c.Violate("C10/residue/nonzero", "msgs", i, fmt.Sprintf("residue %#08x for a %d byte message", res, l), nil)
		}
		c.Count("residues_checked")
		c.Case(mon.HashBytes("msg", m), l > 0)
		if i < 2 {
			c.Sample("msgs", map[string]any{"len": l, "head": mon.Hex(m, 16), "crc": fmt.Sprintf("%#08x", want)})
		}
	}
	// stage e2e: reference-signed sections must be accepted by the Demuxer; Muxer sections must carry the reference CRC
	ne := c.Pick(2000, 20000)
	for i := int64(0); i < ne; i++ {
		if !c.Mine("e2e", i) {
			continue
		}
		r := c.Rng("e2e", i)
		sec := gen.SimpleSection(r, refts.KindPAT, int(i)+1, r.IntN(160))
		u := gen.NewPSIUnit(r, 0, int(i), []*astits.PSISection{sec}, 0, true)
		u.PlanChunks(gen.RandomChunks(r, len(u.Payload), 0, 0, true))
		u.TailPad = true
		s := gen.Mux(map[uint16][]*gen.Unit{0: {u}}, repeatPID(0, len(u.Plan)), nil)
		dmx := astits.NewDemuxer(context.Background(), bytes.NewReader(s.Bytes), astits.DemuxerOptPacketSize(188))
		d, err := dmx.NextData()
		if err != nil || d == nil || d.PAT == nil {
			c.Violate("C10/e2e/reference-signed-section-rejected", "e2e", i, fmt.Sprintf("NextData: %v, %v", d, err), map[string]any{"stream": mon.Hex(s.Bytes, 400)})
		} else if df := mon.Diff(d.PAT, u.Sections[0].Syntax.Data.PAT, nil); df != "" {
			c.Violate("C10/e2e/section-altered", "e2e", i, df, nil)
		} else {
			c.Count("e2e_sections_accepted_by_demuxer")
		}
		// one flipped CRC bit must not be delivered
		bad := append([]byte{}, s.Bytes...)
		off := 4 + len(u.Payload) - 1 - r.IntN(4)
		if len(u.Plan) == 1 {
			bad[off] ^= 1 << uint(r.IntN(8))
			dmx = astits.NewDemuxer(context.Background(), bytes.NewReader(bad), astits.DemuxerOptPacketSize(188))
			if d, err := dmx.NextData(); err == nil && d != nil && d.PAT != nil {
				c.Violate("C10/e2e/bad-crc-accepted", "e2e", i, "a section whose CRC_32 field has one flipped bit was delivered", map[string]any{"stream": mon.Hex(bad, 400)})
			}
			c.Count("e2e_flipped_crc_rejected")
		}
		c.Case(mon.HashBytes("e2e", s.Bytes), true)
		if i%10 == 0 {
			n := muxSectionsCRC(c, r.IntN(5)+1, i)
			c.Add("e2e_muxer_sections_checked", int64(n))
		}
	}
}

func repeatPID(p uint16, n int) []uint16 {
	out := make([]uint16, n)
	for i := range out {
		out[i] = p
	}
	return out
}

// muxSectionsCRC runs a small Muxer and checks the CRC of every PAT/PMT section it emits with the reference.
func muxSectionsCRC(c *mon.Ctx, nes int, idx int64) int {
	buf := &bytes.Buffer{}
	m := astits.NewMuxer(context.Background(), buf)
	for k := 0; k < nes; k++ {
		m.AddElementaryStream(astits.PMTElementaryStream{ElementaryPID: uint16(0x100 + k), StreamType: astits.StreamTypeH264Video})
	}
	m.SetPCRPID(0x100)
	if _, err := m.WriteTables(); err != nil {
		return 0
	}
	n := 0
	b := buf.Bytes()
	for o := 0; o+188 <= len(b); o += 188 {
		p, err := refts.DecodePacket(b[o : o+188])
		if err != nil || !p.Header.PayloadUnitStartIndicator || len(p.Payload) < 4 {
			continue
		}
		pl := p.Payload
		st := 1 + int(pl[0])
		if st+3 > len(pl) {
			continue
		}
		l := int(pl[st+1]&0xf)<<8 | int(pl[st+2])
		if st+3+l > len(pl) || l < 4 {
			c.Violate("C10/e2e/muxer-section-length", "e2e", idx, "section does not fit its packet", nil)
			continue
		}
		sec := pl[st : st+3+l]
		got := binary.BigEndian.Uint32(sec[len(sec)-4:])
		if want := refts.CRC32(sec[:len(sec)-4]); got != want {
			c.Violate("C10/e2e/muxer-section-crc", "e2e", idx, fmt.Sprintf("muxer CRC %#08x, reference %#08x", got, want), map[string]any{"section": mon.Hex(sec, 200)})
		}
		n++
	}
	return n
}
