package props

import (
	"bytes"
	"fmt"
	"math/rand/v2"

	astits "github.com/asticode/go-astits"

	"verifharness/gen"
	"verifharness/mon"
	"verifharness/refts"
)

func init() {
	register(&Prop{
		ID:    "C14",
		Level: "exploration",
		Rule: "per tag (23 typed + user-defined + unknown + extension with unknown sub-tag) boundary-biased descriptor models: reference-encoded then parsed by the library " +
			"(parseDescriptors hook, loops of 1 and of mixed descriptors, random reserved bits); the same models written by the library (writeDescriptorsWithLength hook) with the struct's " +
			"Length correct / 0 / wrong and compared with the reference bytes and with the emitted length fields (a third of the write models with all their byte slices cut from one backing array); malformed descriptor_length followed by a sentinel descriptor (an error on a loop whose lengths are consistent counts as a violation, whether 1100 bytes follow the loop or it is the last thing in its section), declared lengths that run past the end of the loop or loops that end inside a descriptor header (error, or the parse ends where the loop ends); " +
			"distinct = hash of the reference bytes; non-trivial = body length > 0",
		Assumptions: []string{"reference = refts/descriptors.go written from ISO 13818-1 2.6 and EN 300 468 6.2/6.4/Annex D, validated by 29 known-answer vectors in its unit test",
			"models stay inside what the structs can represent (one ISO 639 entry, VBI services of unknown ids without lines, BCD digits valid, page ≤ 99, bitrate multiple of 50)",
			"a zero-length descriptor has no typed part", "AC-3 descriptor: reserved_flags are written as ones by reference and library (EN 300 468 D.3 says they should be 0: a recommendation; pinned by the library's own test)", "teletext pages: the generators draw decimal digits; page bytes with a hex digit A-F are the known finding D43 (stage teletext-pages)"},
		Shards: 32,
		Run:    runC14,
		Guards: func(m *mon.Merged, tier string) []string {
			var out []string
			need(m, &out, "descriptors_parsed_and_compared", 50000)
			need(m, &out, "descriptors_written_and_compared", 50000)
			need(m, &out, "loops_parsed_and_compared", 10000)
			need(m, &out, "malformed_length_cases", 10000)
			need(m, &out, "malformed_sentinel_intact", 2000)
			need(m, &out, "malformed_last_in_section", 2000)
			needSet(m, &out, "tags", 26)
			needSet(m, &out, "length_modes", 3)
			return out
		},
	})
}

func tagClass(tag uint8) string {
	for _, t := range gen.TypedTags() {
		if t == tag {
			return fmt.Sprintf("%02x", tag)
		}
	}
	if tag >= 0x80 && tag <= 0xfe {
		return "user-defined"
	}
	return "unknown"
}

func encLoop(ds []*astits.Descriptor, r *rand.Rand) ([]byte, error) {
	w := &refts.W{Rnd: r}
	err := refts.EncodeDescriptorLoop(w, ds)
	return w.B, err
}

func checkDescParse(c *mon.Ctx, stage string, idx int64, r *rand.Rand, ds []*astits.Descriptor, cls string) {
	b, err := encLoop(ds, r)
	if err != nil {
		c.Note("unencodable descriptor model: " + err.Error())
		return
	}
	want, err := refts.DecodeDescriptorLoop(&refts.R{B: b})
	if err != nil {
		c.Note("reference cannot decode its own loop: " + err.Error())
		return
	}
	// trailing bytes after the loop must not be touched
	in := append(append([]byte{}, b...), 0xAA, 0xBB, 0xCC)
	if idx%2 == 1 {
		in = reusedBuf("c14", in)
	}
	var got []*astits.Descriptor
	var off int
	var gerr error
	data := map[string]any{"loop": mon.Hex(b, 700)}
	if p, v, st := mon.Guarded(func() { got, off, gerr = astits.VerifParseDescriptors(in) }); p {
		c.Violate("C14/parse/panic:"+cls, stage, idx, fmt.Sprintf("%v\n%s", v, st), data)
		return
	}
	switch {
	case gerr != nil:
		c.Violate("C14/parse/error-on-conformant:"+cls, stage, idx, gerr.Error(), data)
	case off != len(b):
		c.Violate("C14/parse/end-offset:"+cls, stage, idx, fmt.Sprintf("parse ended at %d, loop ends at %d", off, len(b)), data)
	default:
		if d := mon.Diff(got, want, nil); d != "" {
			c.Violate("C14/parse/field-differs:"+cls+":"+fieldOf(d), stage, idx, "library vs reference: "+d, data)
			return
		}
		// the parsed value must be a value of its own: overwriting the buffer it was parsed from (the demuxer parses from a pooled,
		// reused buffer) must not change it
		for k := range in {
			in[k] ^= 0xA5
		}
		if d := mon.Diff(got, want, nil); d != "" {
			c.Violate("C14/parse/value-aliases-parse-buffer:"+cls+":"+fieldOf(d), stage, idx, "after the parse buffer was overwritten: "+d, data)
		}
	}
}

func checkDescWrite(c *mon.Ctx, stage string, idx int64, ds []*astits.Descriptor, mode string, cls string) {
	want, err := encLoop(ds, nil)
	if err != nil {
		return
	}
	if hasReservedVBIService(ds) {
		// the library spends one reserved byte on a VBI service without line entries; skip models that only fit without it
		total := 0
		for _, d := range ds {
			n, _ := refts.DescriptorBodyLen(d)
			if d.VBIData != nil {
				for _, sv := range d.VBIData.Services {
					switch sv.DataServiceID {
					case 1, 2, 4, 5, 6, 7:
					default:
						n++
					}
				}
			}
			if n > 255 {
				c.Count("write_skipped_vbi_reserved_byte_overflow")
				return
			}
			total += 2 + n
		}
		if total > 4095 {
			c.Count("write_skipped_vbi_reserved_byte_overflow")
			return
		}
	}
	lib := mon.Clone(ds)
	for _, d := range lib {
		switch mode {
		case "zero":
			d.Length = 0
		case "wrong":
			d.Length = d.Length/2 + 7
		}
	}
	if idx%3 == 1 {
		// the caller cut its names, texts and private bytes out of one buffer: every byte slice of the descriptors sits right in
		// front of the next one
		if mon.PackBytes(lib) >= 2 {
			c.Count("write_models_with_byte_fields_cut_from_one_buffer")
		}
	}
	var out []byte
	var n int
	var werr error
	data := map[string]any{"reference": mon.Hex(want, 700), "length_mode": mode}
	if p, v, st := mon.Guarded(func() { out, n, werr = astits.VerifWriteDescriptorsWithLength(lib) }); p {
		c.Violate("C14/write/panic:"+cls, stage, idx, fmt.Sprintf("%v\n%s", v, st), data)
		return
	}
	data["library"] = mon.Hex(out, 700)
	c.Seen("length_modes", mode)
	if werr != nil {
		c.Violate("C14/write/error:"+cls, stage, idx, werr.Error(), data)
		return
	}
	if n != len(out) {
		c.Violate("C14/write/returned-count:"+cls+":length-"+mode, stage, idx, fmt.Sprintf("returned %d, emitted %d bytes", n, len(out)), data)
	}
	// structural: loop length and every descriptor_length must match the emitted bytes
	if len(out) < 2 {
		c.Violate("C14/write/short:"+cls, stage, idx, "less than 2 bytes emitted", data)
		return
	}
	ll := int(out[0]&0xf)<<8 | int(out[1])
	if ll != len(out)-2 {
		c.Violate("C14/write/loop-length:"+cls+":length-"+mode, stage, idx, fmt.Sprintf("loop length %d but %d bytes follow", ll, len(out)-2), data)
	}
	if !bytes.Equal(out, want) && hasReservedVBIService(ds) {
		// a VBI data service of an id without line entries may carry any number of reserved bytes: both encodings are conformant
		// and decode to the same value, so the library's bytes are judged by reference-decoding them
		back, derr := refts.DecodeDescriptorLoop(&refts.R{B: out})
		wantBack, _ := refts.DecodeDescriptorLoop(&refts.R{B: want})
		for _, d := range back {
			d.Length = 0
		}
		for _, d := range wantBack {
			d.Length = 0
		}
		if derr != nil {
			c.Violate("C14/write/undecodable:"+cls+":length-"+mode, stage, idx, derr.Error(), data)
		} else if df := mon.Diff(back, wantBack, nil); df != "" {
			c.Violate("C14/write/decodes-differently:"+cls+":length-"+mode, stage, idx, df, data)
		}
		c.Count("written_compared_semantically_vbi_reserved")
		return
	}
	if !bytes.Equal(out, want) {
		// decide whether a declared descriptor_length disagrees with the emitted body (walk with the reference's lengths)
		kind := "bytes-differ"
		o, wo := 2, 2
		for _, d := range ds {
			_ = d
			if wo+2 > len(want) || o+2 > len(out) {
				break
			}
			wl := int(want[wo+1])
			if out[o] != want[wo] || int(out[o+1]) != wl {
				kind = "descriptor-length-or-tag"
				break
			}
			if o+2+wl > len(out) || !bytes.Equal(out[o+2:o+2+wl], want[wo+2:wo+2+wl]) {
				if o+2+wl > len(out) || (o+2+wl <= len(out) && len(out) < len(want)) {
					kind = "body-shorter-than-declared"
				}
				break
			}
			o += 2 + wl
			wo += 2 + wl
		}
		c.Violate("C14/write/"+kind+":"+cls+":length-"+mode, stage, idx, fmt.Sprintf("first difference at byte %d", firstDiff(out, want)), data)
	}
}

// teletextPages: teletext_page_number is "an 8-bit field giving two 4-bit hex digits" (EN 300 468 6.2.43; the VBI teletext
// descriptor has the same body). Whatever number the struct gives a page, two different page bytes are two different pages: they must
// not decode to the same value, and a decoded descriptor written back must give the byte it came from. Every page byte is tried,
// for both tags.
func teletextPages(c *mon.Ctx) {
	if !c.Mine("teletext-pages", 0) {
		return
	}
	for _, tag := range []byte{0x56, 0x46} {
		seen := map[string]int{}
		for pb := 0; pb < 256; pb++ {
			in := []byte{0xF0, 0x07, tag, 0x05, 'e', 'n', 'g', 0x11, byte(pb)}
			var got []*astits.Descriptor
			var gerr error
			if p, v, st := mon.Guarded(func() { got, _, gerr = astits.VerifParseDescriptors(in) }); p {
				c.Violate("C14/parse/panic:"+fmt.Sprintf("%02x", tag), "teletext-pages", int64(pb), fmt.Sprintf("%v\n%s", v, st), nil)
				return
			}
			c.Count("teletext_page_bytes_decoded")
			if gerr != nil || len(got) != 1 {
				continue // refusing a page is not losing one
			}
			hex := func(b int) bool { return b>>4 > 9 || b&15 > 9 }
			cls := func(bs ...int) string {
				for _, b := range bs {
					if hex(b) {
						return "C14/parse/teletext-page-hex-digits-not-distinguished" // the known finding: only bytes with a digit A-F
					}
				}
				return "C14/parse/teletext-page-decimal-digits-wrong"
			}
			key := mon.DumpString(got[0])
			if prev, dup := seen[key]; dup {
				c.Violate(cls(prev, pb), "teletext-pages", int64(pb), fmt.Sprintf("tag %#02x: page bytes %#02x and %#02x decode to the same descriptor", tag, prev, pb), map[string]any{"loop": mon.Hex(in, 16)})
				continue
			}
			seen[key] = pb
			var out []byte
			var werr error
			if p, v, st := mon.Guarded(func() { out, _, werr = astits.VerifWriteDescriptorsWithLength(got) }); p {
				c.Violate("C14/write/panic:"+fmt.Sprintf("%02x", tag), "teletext-pages", int64(pb), fmt.Sprintf("%v\n%s", v, st), nil)
				return
			}
			if werr == nil && !bytes.Equal(out, in) {
				c.Violate(cls(pb), "teletext-pages", int64(pb), fmt.Sprintf("tag %#02x: page byte %#02x decoded and written back gives % x", tag, pb, out), map[string]any{"loop": mon.Hex(in, 16)})
			}
		}
	}
}

func runC14(c *mon.Ctx) {
	teletextPages(c)
	tags := gen.TypedTags()
	classes := append([]uint8{}, tags...)
	classes = append(classes, 0x80, 0xC7, 0xFE, 0x02, 0x7E, 0xFF) // user-defined and unknown tags
	// stage tag: per tag
	per := c.Pick(8000, 300000)
	for ti, tag := range classes {
		for k := int64(0); k < per; k++ {
			idx := int64(ti)*per + k
			if !c.Mine("tag", idx) {
				continue
			}
			r := c.Rng("tag", idx)
			maxBody := 255
			if k%4 == 0 {
				maxBody = r.IntN(256)
			}
			d := gen.Descriptor(r, tag, maxBody)
			cls := tagClass(d.Tag)
			if d.Extension != nil && d.Extension.Unknown != nil {
				cls = "7f-unknown-ext"
			}
			c.Seen("tags", cls)
			ds := []*astits.Descriptor{d}
			checkDescParse(c, "tag", idx, r, ds, cls)
			c.Count("descriptors_parsed_and_compared")
			mode := []string{"right", "zero", "wrong"}[k%3]
			checkDescWrite(c, "tag", idx, ds, mode, cls)
			c.Count("descriptors_written_and_compared")
			c.Add("items_class_"+itemClass(d), 1)
			b, _ := encLoop(ds, nil)
			c.Case(mon.HashBytes("desc", b), d.Length > 0)
			if k < 1 && ti < 2 {
				c.Sample("tag", map[string]any{"tag": fmt.Sprintf("%#02x", d.Tag), "reference_bytes": mon.Hex(b, 64)})
			}
		}
	}
	// stage loops: mixed loops
	nl := c.Pick(60000, 600000)
	for i := int64(0); i < nl; i++ {
		if !c.Mine("loops", i) {
			continue
		}
		r := c.Rng("loops", i)
		max := 4095
		if i%3 != 0 {
			max = r.IntN(600)
		}
		ds := gen.Descriptors(r, max)
		checkDescParse(c, "loops", i, r, ds, "loop")
		checkDescWrite(c, "loops", i, ds, []string{"right", "zero", "wrong"}[i%3], "loop")
		c.Count("loops_parsed_and_compared")
		c.Max("max_loop_descriptors", int64(len(ds)))
		b, _ := encLoop(ds, nil)
		c.Case(mon.HashBytes("loop", b), len(ds) > 0)
	}
	// stage malformed: declared length shorter / longer than the body the tag implies, then a sentinel
	nm := c.Pick(150000, 6000000)
	for i := int64(0); i < nm; i++ {
		if !c.Mine("malformed", i) {
			continue
		}
		r := c.Rng("malformed", i)
		tag := classes[r.IntN(len(classes))]
		d := gen.Descriptor(r, tag, 200)
		w := &refts.W{}
		if err := refts.EncodeDescriptor(w, d); err != nil {
			continue
		}
		body := w.B[2:]
		var nb []byte
		kind := "shorter"
		if r.IntN(2) == 0 && len(body) > 0 {
			nb = append([]byte{}, body[:r.IntN(len(body))]...)
		} else {
			kind = "longer"
			nb = append(append([]byte{}, body...), gen.Bytes(r, 1+r.IntN(40))...)
		}
		sent := &astits.Descriptor{Tag: 0xA5, Length: 6, UserDefined: []byte{0x5E, byte(i >> 24), byte(i >> 16), byte(i >> 8), byte(i), 0xE5}}
		var pre []*astits.Descriptor
		if r.IntN(3) == 0 {
			pre = gen.Descriptors(r, 60)
		}
		if i%8 == 5 {
			// the declared length runs past the end of the LOOP (or the loop ends inside the two bytes of a descriptor header): what
			// follows the loop — the next loop entry — may not be shifted by it: an error, or the parse ends where the loop ends
			lw := &refts.W{}
			for _, p := range pre {
				refts.EncodeDescriptor(lw, p)
			}
			over := 1 + r.IntN(12)
			kind = "beyond-loop"
			if r.IntN(4) == 0 {
				kind = "loop-ends-inside-a-header"
				lw.Bytes([]byte{d.Tag})
			} else {
				if len(body)+over > 255 {
					continue
				}
				lw.Bytes([]byte{d.Tag, byte(len(body) + over)})
				lw.Bytes(body)
			}
			loop := append([]byte{0xF0 | byte(lw.Len()>>8), byte(lw.Len())}, lw.B...)
			in := append(append([]byte{}, loop...), gen.Bytes(r, 300)...) // the entries that follow the loop
			cls := tagClass(d.Tag) + ":" + kind
			data := map[string]any{"loop": mon.Hex(loop, 700), "malformed_tag": fmt.Sprintf("%#02x", d.Tag), "followed_by": mon.Hex(in[len(loop):], 16)}
			var off int
			var gerr error
			if p, v, st := mon.Guarded(func() { _, off, gerr = astits.VerifParseDescriptors(in) }); p {
				c.Violate("C14/malformed/panic:"+tagClass(d.Tag), "malformed", i, fmt.Sprintf("%v\n%s", v, st), data)
				continue
			}
			c.Count("malformed_length_cases")
			c.Count("malformed_" + kind)
			if gerr == nil && off != len(loop) {
				c.Violate("C14/malformed/end-offset:"+cls, "malformed", i, fmt.Sprintf("parse ended at %d without an error, the loop ends at %d: what follows the loop is read from the wrong place", off, len(loop)), data)
			}
			c.Case(mon.HashBytes("malformed", loop), true)
			continue
		}
		lw := &refts.W{}
		for _, p := range pre {
			refts.EncodeDescriptor(lw, p)
		}
		lw.Bytes([]byte{d.Tag, byte(len(nb))})
		lw.Bytes(nb)
		refts.EncodeDescriptor(lw, sent)
		// a second loop entry follows the loop: it must be found at the right offset too
		loop := append([]byte{0xF0 | byte(lw.Len()>>8), byte(lw.Len())}, lw.B...)
		// what follows the loop: enough bytes for any body parser that reads past a too short declared length (it is pulled back to
		// the declared end afterwards) not to hit the end of the buffer
		in := append(append([]byte{}, loop...), 0xDE, 0xAD)
		in = append(in, bytes.Repeat([]byte{0x5a}, 1100)...)
		cls := tagClass(d.Tag) + ":" + kind
		if i%3 == 0 {
			// ... or the loop is the last thing in its section: four bytes (a CRC_32) follow and nothing else. Whether the descriptors
			// and entries around a malformed body are delivered must not depend on how many bytes happen to follow the loop
			in = append(append([]byte{}, loop...), 0xDE, 0xAD, 0xBE, 0xEF)
			cls += ":last-in-section"
			c.Count("malformed_last_in_section")
		}
		data := map[string]any{"loop": mon.Hex(loop, 700), "malformed_tag": fmt.Sprintf("%#02x", d.Tag)}
		var got []*astits.Descriptor
		var off int
		var gerr error
		if p, v, st := mon.Guarded(func() { got, off, gerr = astits.VerifParseDescriptors(in) }); p {
			c.Violate("C14/malformed/panic:"+tagClass(d.Tag), "malformed", i, fmt.Sprintf("%v\n%s", v, st), data)
			continue
		}
		c.Count("malformed_length_cases")
		c.Count("malformed_" + kind)
		if gerr != nil {
			// the loop is consistent (the declared lengths add up to its length) and nothing runs out of bytes: a body that is
			// shorter or longer than its tag implies is skipped by its declared length, not a reason to lose the whole loop — and an
			// error here is what a parse that went on from the wrong place usually ends in
			c.Count("malformed_rejected_with_error")
			c.Violate("C14/malformed/error-instead-of-skipping:"+cls, "malformed", i, gerr.Error(), data)
			c.Case(mon.HashBytes("malformed", loop), true)
			continue
		}
		switch {
		case off != len(loop):
			c.Violate("C14/malformed/end-offset:"+cls, "malformed", i, fmt.Sprintf("parse ended at %d, loop ends at %d", off, len(loop)), data)
		case len(got) != len(pre)+2:
			c.Violate("C14/malformed/descriptor-count:"+cls, "malformed", i, fmt.Sprintf("%d descriptors, want %d", len(got), len(pre)+2), data)
		default:
			if df := mon.Diff(got[len(got)-1], sent, nil); df != "" {
				c.Violate("C14/malformed/sentinel-shifted:"+cls, "malformed", i, df, data)
			} else {
				c.Count("malformed_sentinel_intact")
			}
			if m := got[len(pre)]; m.Tag != d.Tag || int(m.Length) != len(nb) {
				c.Violate("C14/malformed/header:"+cls, "malformed", i, fmt.Sprintf("tag %#x len %d, want %#x len %d", m.Tag, m.Length, d.Tag, len(nb)), data)
			}
		}
		c.Case(mon.HashBytes("malformed", loop), true)
	}
}

func itemClass(d *astits.Descriptor) string {
	n := -1
	switch {
	case d.Content != nil:
		n = len(d.Content.Items)
	case d.ExtendedEvent != nil:
		n = len(d.ExtendedEvent.Items)
	case d.LocalTimeOffset != nil:
		n = len(d.LocalTimeOffset.Items)
	case d.ParentalRating != nil:
		n = len(d.ParentalRating.Items)
	case d.Subtitling != nil:
		n = len(d.Subtitling.Items)
	case d.Teletext != nil:
		n = len(d.Teletext.Items)
	case d.VBITeletext != nil:
		n = len(d.VBITeletext.Items)
	case d.VBIData != nil:
		n = len(d.VBIData.Services)
	}
	switch {
	case n < 0:
		return "no-loop"
	case n == 0:
		return "0"
	case n == 1:
		return "1"
	}
	return "many"
}

func hasReservedVBIService(ds []*astits.Descriptor) bool {
	for _, d := range ds {
		if d.VBIData == nil {
			continue
		}
		for _, sv := range d.VBIData.Services {
			switch sv.DataServiceID {
			case 1, 2, 4, 5, 6, 7:
			default:
				return true
			}
		}
	}
	return false
}
