package props

import (
	"bytes"
	"context"
	"errors"
	"fmt"
	"math"
	"math/rand/v2"

	astits "github.com/asticode/go-astits"

	"verifharness/gen"
	"verifharness/mon"
	"verifharness/refts"
)

var writePktPIDs = []uint16{0x1500, 0x1501, 0x1fff}

func init() {
	register(&Prop{
		ID:    "C04",
		Level: "exploration",
		Rule: "random Muxer histories over Add/Remove/SetPCRPID/WriteTables/WriteData/WritePacket with valid and rejected arguments (unknown PID, duplicate PID, oversize WritePacket payload / adaptation field, " +
			"invalid PCR PID, PMT too large for one packet), payload sizes around every packet boundary, first-packet adaptation fields leaving 0,1,2,few,many bytes, retransmit periods 1..50, edge-of-contract PES optional headers in a quarter of the histories, automatic PID assignment until the range is exhausted, automatic PID assignment until the range is exhausted, plus an exhaustive " +
			"WritePacket size grid; plus long sessions (stage endurance: units of 256 packets to 2 MiB, 131 500 calls, thousands of automatic PIDs); after every call the bytes that reached the writer tap are judged by the independent packet decoder; distinct = hash of the output bytes; non-trivial = ≥1 rejected and ≥1 accepted call or ≥3 packets; every PES unit written is decoded by the reference decoder (fields within PES_header_data_length, data behind the header = data handed to WriteData), with PES_private_data of other lengths than 16 and PTS_DTS_flags values above 3 among the inputs",
		Assumptions: []string{"writer tap accepts everything (I/O failures are C18's subject)", "WritePacket traffic uses PIDs the Muxer does not own"},
		Shards:      32,
		Run:         func(c *mon.Ctx) { runMuxStruct(c, "C04") },
		Guards: func(m *mon.Merged, tier string) []string {
			var out []string
			need(m, &out, "calls_checked", 10000)
			need(m, &out, "packets_decoded", 30000)
			need(m, &out, "rejected_calls", 500)
			need(m, &out, "auto_pid_exhaustion_runs", 2)
			need(m, &out, "rejected_then_successful_calls", 300)
			need(m, &out, "writepacket_grid_cases", 2000)
			need(m, &out, "writepacket_exact_fit_cases", 2000)
			need(m, &out, "stuffing_class_0", 100)
			need(m, &out, "stuffing_class_1", 100)
			need(m, &out, "stuffing_class_2", 100)
			need(m, &out, "pes_units_length_checked", 3000)
			return out
		},
	})
	register(&Prop{
		ID:    "C05",
		Level: "exploration",
		Rule: "the C04 histories (incl. failing WriteTables followed by successful ones, WriteData whose adaptation field leaves no room for the PES header, removals and re-adds, ≥40 packets per PID; in a quarter of them PES optional headers at the edge of the write contract: forbidden PTS_DTS flags, CRC flag, out-of-range clock/rate values) executed on a " +
			"fresh Muxer; an online trace checker follows continuity_counter per PID (PAT, PMT, every elementary PID between its Add and its Remove) over the writer's byte stream; " +
			"plus long sessions (stage endurance: 131 500 units on one PID with adaptation-only packets at every 2^k ± 2 units, hundreds of table emissions); distinct = hash of the output bytes; non-trivial = some tracked PID carried ≥17 payload packets (wrap-around)",
		Assumptions: []string{"packets without payload need not advance the counter and must not consume a value", "continuity is followed per PID over the whole output, also across Remove + Add of the same PID (a receiver of that PID must not observe a discontinuity)"},
		Shards:      32,
		Run:         func(c *mon.Ctx) { runMuxStruct(c, "C05") },
		Guards: func(m *mon.Merged, tier string) []string {
			var out []string
			need(m, &out, "payload_packets_tracked", 30000)
			need(m, &out, "counter_wraps_observed", 500)
			need(m, &out, "failed_then_successful_table_emissions", 40)
			need(m, &out, "af_without_room_for_pes_header", 50)
			need(m, &out, "removals_followed_by_readd", 20)
			need(m, &out, "data_calls_with_edge_headers", 500)
			return out
		},
	})
}

func histOptsStruct() HistOpts {
	return HistOpts{MaxOps: 80, AllowPacket: true, AllowInvalid: true, AutoPIDs: true, BigAF: true, LongPayloads: true, OversizePMT: true, ManyPackets: true, WritePktPIDs: writePktPIDs, ReuseAF: true, OddPrivateData: true}
}

func runMuxStruct(c *mon.Ctx, prop string) {
	enduranceSessions(c, func(stage string, i int64, shape string, hr *HistRun) {
		if prop == "C04" {
			checkStructure(c, stage, i, hr)
		} else {
			checkContinuity(c, stage, i, hr)
		}
	})
	n := c.Pick(1600, 200000)
	for i := int64(0); i < n; i++ {
		if !c.Mine("histories", i) {
			continue
		}
		r := c.Rng("histories", i)
		o := histOptsStruct()
		if c.Thorough() {
			o.MaxOps = 200
		}
		ops, period := RandomHistory(r, o)
		if i%8 == 0 {
			ops = readdAutoScenario(r)
		}
		if i%16 == 4 {
			ops = autoCollisionScenario(r)
		}
		if i%16 == 10 {
			ops = churnScenario(r)
		}
		if i%16 == 12 {
			ops = reservedPIDScenario(r)
			c.Count("histories_asking_for_streams_on_reserved_pids")
		}
		if i%16 == 3 {
			ops = wrapPMTScenario(r)
			if (i/16)%2 == 1 {
				ops = wrapDescriptorScenario(r)
			}
			c.Count("histories_with_a_pmt_of_65536_bytes")
		}
		if i%16 == 7 {
			ops = oversizeReaddScenario(r)
			c.Count("histories_readding_a_pid_after_an_addition_that_cannot_be_announced")
		}
		if i%16 == 2 {
			// a rejected call, repaired on the same adaptation field object, and repeated
			ops = retryScenario(r)
			c.Count("rejected_calls_repaired_on_the_same_object")
		}
		if i%16 == 9 {
			ops = extensionEditScenario(r)
			c.Count("histories_editing_the_extension_of_a_kept_adaptation_field")
		}
		if i%16 == 6 || i%16 == 14 {
			// remultiplexing: parsed PES and parsed first-packet adaptation fields handed to the Muxer as they are
			if rops, n, _ := remuxScenario(r, i%16 == 14); n > 0 {
				ops = rops
				c.Add("parsed_units_remultiplexed", int64(n))
			}
		}
		if i%4 == 1 {
			// PES headers at the edge of the write contract (forbidden or unsupported flag combinations, out-of-range values): whether
			// the Muxer accepts or refuses such a unit, what reaches the output must be whole packets with gapless counters
			c.Add("data_calls_with_edge_headers", int64(edgeHeaders(r, ops)))
		}
		hr := runHistory(ops, period)
		if prop == "C04" {
			checkStructure(c, "histories", i, hr)
		} else {
			checkContinuity(c, "histories", i, hr)
		}
		if i < 2 {
			c.Sample("histories", histSample(hr))
		}
	}
	if prop == "C04" {
		// automatic PID assignment until the range is exhausted: every call terminates, the refusal is an error (not a PID the Muxer
		// must not use: the PMT PID, the null PID, a PID already taken), and only PIDs below 0x1FFF ever become known to WriteData
		for v := int64(0); v < c.Pick(2, 6); v++ {
			if !c.Mine("auto-exhaust", v) {
				continue
			}
			autoExhaust(c, v, c.Rng("auto-exhaust", v))
		}
		// WritePacket exact-fit boundaries: for every subset of adaptation parts x extension parts the payload is sized to fit
		// exactly, one byte short, and 1 / 2 / many bytes too long (the rejected ones must leave nothing in the output)
		for sub := int64(0); sub < 32*8; sub++ {
			if !c.Mine("fit", sub) {
				continue
			}
			r := c.Rng("fit", sub)
			for rep := 0; rep < int(c.Pick(3, 20)); rep++ {
				a := gen.RandomAF(r, 1+r.IntN(150), int(sub)&31, int(sub)>>5)
				a.StuffingLength = []int{0, 0, 1, r.IntN(20)}[r.IntN(4)]
				fit := 184 - 1 - gen.AFBodySize(a)
				if fit < 1 {
					continue
				}
				for _, d := range []int{-1, 0, 1, 2, 3 + r.IntN(60)} {
					if fit+d < 1 {
						continue
					}
					p := &astits.Packet{Header: astits.PacketHeader{PID: 0x1500, HasPayload: true, HasAdaptationField: true, ContinuityCounter: uint8(rep)}, AdaptationField: mon.Clone(a), Payload: gen.Bytes(r, fit+d)}
					hr := runHistory([]HOp{{Kind: "packet", Pkt: p}, {Kind: "packet", Pkt: &astits.Packet{Header: astits.PacketHeader{PID: 0x1501, HasPayload: true}, Payload: []byte{1, 2, 3}}}}, 40)
					checkStructure(c, "fit", sub, hr)
					if d > 0 && hr.Calls[0].Err == nil {
						c.Violate("C04/oversize-packet-accepted", "fit", sub, fmt.Sprintf("payload %d bytes longer than what fits was accepted", d), nil)
					}
					if d <= 0 && hr.Calls[0].Err != nil {
						c.Violate("C04/fitting-packet-rejected", "fit", sub, fmt.Sprintf("payload of %d bytes with %d available: %v", fit+d, fit, hr.Calls[0].Err), nil)
					}
					c.Count("writepacket_exact_fit_cases")
				}
			}
		}
		// exhaustive WritePacket size grid: payload 0..190 x adaptation field shapes
		for pl := int64(0); pl <= 190; pl++ {
			if !c.Mine("grid", pl) {
				continue
			}
			r := c.Rng("grid", pl)
			for shape := 0; shape < 20; shape++ {
				p := &astits.Packet{Header: astits.PacketHeader{PID: 0x1500, HasPayload: pl > 0, ContinuityCounter: uint8(shape)}, Payload: gen.Bytes(r, int(pl))}
				switch shape / 2 {
				case 1:
					p.Header.HasAdaptationField = true
					p.AdaptationField = &astits.PacketAdaptationField{IsOneByteStuffing: true}
				case 2:
					p.Header.HasAdaptationField = true
					p.AdaptationField = &astits.PacketAdaptationField{StuffingLength: r.IntN(10)}
				case 3:
					p.Header.HasAdaptationField = true
					p.AdaptationField = gen.RandomAF(r, 1+r.IntN(60), -1, -1)
				case 4:
					p.Header.HasAdaptationField = true
					p.AdaptationField = &astits.PacketAdaptationField{StuffingLength: 182 - int(pl) - 2 + r.IntN(5)} // around the exact fit
					if p.AdaptationField.StuffingLength < 0 {
						p.AdaptationField.StuffingLength = 0
					}
				case 5:
					p.Header.HasAdaptationField = true
					p.AdaptationField = &astits.PacketAdaptationField{StuffingLength: 183 + r.IntN(80)} // alone exceeds the packet
				case 6:
					// private data whose redundant length field says something else (an application replaced the data of a parsed
					// packet): whichever of the two the library goes by, or if it refuses the packet, the output stays whole packets
					p.Header.HasAdaptationField = true
					a := gen.RandomAF(r, 1+r.IntN(40), -1, -1)
					a.HasTransportPrivateData = true
					a.TransportPrivateData = gen.Bytes(r, 1+r.IntN(20))
					a.TransportPrivateDataLength = []int{0, len(a.TransportPrivateData) - 1, len(a.TransportPrivateData) + 1, 255}[r.IntN(4)]
					p.AdaptationField = a
					c.Count("writepacket_private_data_length_field_inconsistent")
				case 7:
					// more reserved bytes at the end of the adaptation extension than a packet (or the 8 bit extension length) holds
					p.Header.HasAdaptationField = true
					a := gen.RandomAF(r, 1+r.IntN(30), 16|r.IntN(16), -1)
					a.HasAdaptationExtensionField = true
					if a.AdaptationExtensionField == nil {
						a.AdaptationExtensionField = &astits.PacketAdaptationExtensionField{}
					}
					a.AdaptationExtensionField.ReservedLength = []int{170, 184, 245, 246, 250, 254, 255, 256, 300, 511, 512, math.MaxInt, math.MaxInt - 3, math.MaxInt32}[r.IntN(14)]
					if a.AdaptationExtensionField.ReservedLength > 1<<20 && r.IntN(2) == 0 {
						// two terms that each fit no packet and whose sum wraps around
						a.StuffingLength = []int{math.MaxInt, math.MaxInt - 1, math.MaxInt - 7}[r.IntN(3)]
					}
					p.AdaptationField = a
					c.Count("writepacket_oversized_extension_reserved_bytes")
				case 8:
					// field values wider than their fields (a splice countdown an old parse left as 200, a 40 bit clock, ...): whether they
					// are masked or refused, whole packets or nothing
					p.Header.HasAdaptationField = true
					a := gen.RandomAF(r, 1+r.IntN(40), 4|1|r.IntN(32), -1)
					a.HasSplicingCountdown = true
					a.SpliceCountdown = []int{128, 200, 255, 256, -129, -200, 1 << 20, -(1 << 20)}[r.IntN(8)]
					if a.HasPCR && r.IntN(2) == 0 {
						a.PCR.Base = []int64{1 << 33, 1<<40 + 7, -1}[r.IntN(3)]
						a.PCR.Extension = []int64{512, 1 << 12, -1}[r.IntN(3)]
					}
					p.AdaptationField = a
					c.Count("writepacket_field_values_wider_than_their_fields")
				case 9:
					// a negative StuffingLength, as a failed WriteData leaves it on the caller's adaptation field: no stuffing
					p.Header.HasAdaptationField = true
					p.AdaptationField = &astits.PacketAdaptationField{HasPCR: true, PCR: &astits.ClockReference{Base: 4242 + pl, Extension: 3}, StuffingLength: []int{-1, -7, -9, -100, -188}[r.IntN(5)]}
					c.Count("writepacket_negative_stuffing_length")
				}
				if shape/2 == 0 && shape == 1 && pl > 0 && pl < 150 {
					// a packet object re-armed without payload (a PCR-only packet after a data packet) whose Payload slice was left
					// in place: HasPayload says there is none. Whatever WritePacket makes of the left-over bytes, what reaches the
					// writer is whole packets and the count it returns (conformance of adaptation-only packets that do not fill
					// the packet is the caller's business: WritePacket documents that it pads them)
					p.Header.HasPayload, p.Header.HasAdaptationField = false, true
					p.AdaptationField = &astits.PacketAdaptationField{HasPCR: true, PCR: &astits.ClockReference{Base: 90000 * pl, Extension: 1}, StuffingLength: r.IntN(40)}
					hr := runHistory([]HOp{{Kind: "packet", Pkt: p}, {Kind: "tables"}}, 40)
					c.Count("writepacket_left_over_payload_cases")
					for k, cl := range hr.Calls {
						if cl.Panic != "" {
							c.Violate("C04/panic:"+cl.Op.Kind, "grid", pl, cl.Panic, nil)
						} else if cl.End%188 != 0 || cl.N != cl.End-cl.Start || (cl.End > cl.Start && hr.Out[cl.Start] != 0x47) {
							c.Violate("C04/partial-packet-in-output:packet:left-over-payload", "grid", pl, fmt.Sprintf("call %d (%s): returned n=%d err=%v, %d bytes delivered, output length %d", k, cl.Op.Kind, cl.N, cl.Err, cl.End-cl.Start, cl.End), map[string]any{"left_over_payload_bytes": pl})
						}
					}
					continue
				}
				if !p.Header.HasPayload {
					// self-consistent adaptation-only packet: the field fills the packet (oversize shapes stay as they are)
					if !p.Header.HasAdaptationField {
						continue // adaptation_field_control 00 is not a packet a caller may ask for
					}
					if sz := gen.AFBodySize(p.AdaptationField); sz < 183 && !p.AdaptationField.IsOneByteStuffing {
						p.AdaptationField.StuffingLength += 183 - sz
					} else if p.AdaptationField.IsOneByteStuffing {
						continue
					}
				}
				hr := runHistory([]HOp{{Kind: "packet", Pkt: p}, {Kind: "packet", Pkt: &astits.Packet{Header: astits.PacketHeader{PID: 0x1501, HasPayload: true}, Payload: []byte{1, 2, 3}}}}, 40)
				checkStructure(c, "grid", pl, hr)
				c.Count("writepacket_grid_cases")
			}
		}
	}
}

func autoExhaust(c *mon.Ctx, idx int64, r *rand.Rand) {
	out := &bytes.Buffer{}
	m := astits.NewMuxer(context.Background(), out)
	explicit := map[uint16]bool{}
	for k := 0; k < int(idx)*3; k++ {
		pid := []uint16{0x1ffe, 0x1ffd, 0x100, 0x101, 0xfff, 0x1001, uint16(0x100 + r.IntN(0x1eff))}[r.IntN(7)]
		if pid == 0x1000 || explicit[pid] {
			continue
		}
		if err := m.AddElementaryStream(astits.PMTElementaryStream{ElementaryPID: pid, StreamType: astits.StreamTypeMPEG2Audio}); err == nil {
			explicit[pid] = true
		}
	}
	ok, refused := 0, 0
	pn, v, st := mon.Guarded(func() {
		for k := 0; k < 0x2100 && refused < 3; k++ {
			if err := m.AddElementaryStream(astits.PMTElementaryStream{StreamType: astits.StreamTypeH264Video}); err != nil {
				refused++
			} else {
				ok++
			}
		}
	})
	c.Count("auto_pid_exhaustion_runs")
	c.Add("auto_pids_assigned", int64(ok))
	c.Case(mon.HashStr("auto-exhaust", fmt.Sprint(idx)), true)
	data := map[string]any{"explicit_pids_first": len(explicit), "automatic_assignments": ok, "refusals": refused}
	if pn {
		c.Violate("C04/auto-pid/panic", "auto-exhaust", idx, fmt.Sprintf("%v\n%s", v, st), data)
		return
	}
	// which PIDs does the Muxer own now? RemoveElementaryStream tells (ErrPIDNotFound for a PID that is not a stream of the Muxer); the
	// scenario ends here, so removing them is harmless. Whatever the numbering policy: every successful Add made one more distinct
	// PID a stream (explicit+ok of them; with only 8190 usable values more successes than that cannot all be distinct), and none
	// of them is the PAT, PMT or null PID
	owned := 0
	for pid := 0; pid <= 0x1fff; pid++ {
		var err error
		if pn, v, st = mon.Guarded(func() { err = m.RemoveElementaryStream(uint16(pid)) }); pn {
			c.Violate("C04/auto-pid/panic", "auto-exhaust", idx, fmt.Sprintf("%v\n%s", v, st), data)
			return
		}
		if err != nil {
			continue
		}
		owned++
		if pid == 0 || pid == 0x1000 || pid == 0x1fff {
			c.Violate("C04/auto-pid/reserved-pid-assigned", "auto-exhaust", idx, fmt.Sprintf("pid %#x (PAT / PMT / null packets) was an elementary stream of the Muxer", pid), data)
			return
		}
	}
	if owned != len(explicit)+ok {
		c.Violate("C04/auto-pid/assignments-not-distinct", "auto-exhaust", idx, fmt.Sprintf("%d explicit and %d automatic additions succeeded, RemoveElementaryStream found %d PIDs", len(explicit), ok, owned), data)
		return
	}
	if out.Len()%188 != 0 {
		c.Violate("C04/partial-packet-in-output:auto-exhaust", "auto-exhaust", idx, fmt.Sprintf("%d bytes", out.Len()), data)
	}
}

// edgeHeaders rewrites the optional PES header of about a third of the data operations into one that a stricter Muxer could refuse.
func edgeHeaders(r *rand.Rand, ops []HOp) int {
	n := 0
	for k := range ops {
		if ops[k].Kind != "data" || ops[k].Data == nil || ops[k].Data.PES == nil || ops[k].Data.PES.Header == nil || r.IntN(3) != 0 {
			continue
		}
		h := ops[k].Data.PES.Header
		if h.OptionalHeader == nil {
			continue
		}
		oh := mon.Clone(h.OptionalHeader)
		switch r.IntN(9) {
		case 8:
			// extension 2 data longer than its 7 bit length field can say, up to longer than any packet: a header that fits no
			// packet has to be refused, there is no way to send it
			oh.HasExtension, oh.HasExtension2 = true, true
			oh.Extension2Data = gen.Bytes(r, []int{128, 130, 160, 172, 180, 200, 250, 255, 300}[r.IntN(9)])
			oh.Extension2Length = uint8(len(oh.Extension2Data))
		case 0:
			oh.PTSDTSIndicator = astits.PTSDTSIndicatorIsForbidden
		case 1:
			oh.PTSDTSIndicator = 5 // only the two low bits can be coded
			oh.PTS, oh.DTS = &astits.ClockReference{Base: 1}, &astits.ClockReference{Base: 2}
		case 2:
			oh.HasCRC = true
			oh.CRC = uint16(r.UintN(1 << 16))
		case 3:
			oh.MarkerBits = uint8(r.UintN(4))
		case 4:
			oh.PTSDTSIndicator = astits.PTSDTSIndicatorOnlyPTS
			oh.PTS = &astits.ClockReference{Base: []int64{-1, 1 << 33, 1<<40 + 5}[r.IntN(3)]}
		case 5:
			oh.HasESRate = true
			oh.ESRate = 1<<22 + uint32(r.UintN(1<<9))
		case 6:
			oh.PTSDTSIndicator = astits.PTSDTSIndicatorBothPresent
			oh.PTS, oh.DTS = &astits.ClockReference{Base: 10}, &astits.ClockReference{Base: 5000} // DTS after PTS
		case 7:
			oh.ScramblingControl = 4 + uint8(r.UintN(4))
		}
		h.OptionalHeader = oh
		ops[k].Edge = true
		n++
	}
	return n
}

func histSample(hr *HistRun) map[string]any {
	var ops []string
	for k, cl := range hr.Calls {
		if k >= 14 {
			ops = append(ops, "…")
			break
		}
		s := cl.Op.Kind
		switch cl.Op.Kind {
		case "add", "remove", "pcr":
			s += fmt.Sprintf("(%#x)", cl.Op.PID)
		case "data":
			s += fmt.Sprintf("(%#x,%dB)", cl.PID, len(cl.Op.Data.PES.Data))
		}
		if cl.Err != nil {
			s += "!err"
		}
		ops = append(ops, s)
	}
	return map[string]any{"period": hr.Period, "ops": ops, "output_bytes": len(hr.Out)}
}

func errClass(err error) string {
	switch {
	case err == nil:
		return "ok"
	case errors.Is(err, astits.ErrPIDNotFound):
		return "ErrPIDNotFound"
	case errors.Is(err, astits.ErrPIDAlreadyExists):
		return "ErrPIDAlreadyExists"
	case errors.Is(err, astits.ErrPCRPIDInvalid):
		return "ErrPCRPIDInvalid"
	}
	return "other-error"
}

// checkStructure is C04's monitor.
func checkStructure(c *mon.Ctx, stage string, idx int64, hr *HistRun) {
	data := map[string]any{"history": histSample(hr)}
	rejectedBefore := false
	accepted, rejected := 0, 0
	for k, cl := range hr.Calls {
		cls := cl.Op.Kind + ":" + errClass(cl.Err)
		c.Count("calls_checked")
		c.Count("calls_" + cls)
		if cl.Panic != "" {
			c.Violate("C04/panic:"+cl.Op.Kind, stage, idx, cl.Panic, data)
			return
		}
		delivered := cl.End - cl.Start
		if cl.End%188 != 0 {
			c.Violate("C04/partial-packet-in-output:"+cls, stage, idx, fmt.Sprintf("call %d (%s): %d bytes delivered, output length %d is not a multiple of 188", k, cl.Op.Kind, delivered, cl.End), data)
			return
		}
		if (cl.Op.Kind == "tables" || cl.Op.Kind == "data" || cl.Op.Kind == "packet") && cl.N != delivered {
			c.Violate("C04/returned-count-differs-from-delivered:"+cls, stage, idx, fmt.Sprintf("call %d (%s) returned n=%d, err=%v; %d bytes reached the writer", k, cl.Op.Kind, cl.N, cl.Err, delivered), data)
			return
		}
		if cl.Err != nil {
			rejected++
			c.Count("rejected_calls")
			rejectedBefore = true
		} else {
			accepted++
			if rejectedBefore && delivered > 0 {
				c.Count("rejected_then_successful_calls")
			}
		}
		// decode the packets of this call
		var pk []*astits.Packet
		for o := cl.Start; o+188 <= cl.End; o += 188 {
			p, err := refts.DecodePacket(hr.Out[o : o+188])
			c.Count("packets_decoded")
			if err != nil {
				c.Violate("C04/nonconformant-packet:"+cl.Op.Kind, stage, idx, fmt.Sprintf("call %d (%s), packet at offset %d: %v\n%x", k, cl.Op.Kind, o, err, hr.Out[o:o+188]), data)
				return
			}
			if !p.Header.HasPayload && p.Header.PayloadUnitStartIndicator && cl.Op.Kind != "packet" {
				c.Violate("C04/payload-unit-start-on-packet-without-payload", stage, idx, fmt.Sprintf("call %d (%s), packet at offset %d: payload_unit_start_indicator is set on an adaptation-only packet (no unit starts there)", k, cl.Op.Kind, o), data)
				return
			}
			pk = append(pk, p)
		}
		switch cl.Op.Kind {
		case "tables", "data":
			// table packets: PID 0 / 0x1000, each a unit of its own with a pointer_field and a decodable section
			var es []*astits.Packet
			for _, p := range pk {
				switch p.Header.PID {
				case 0, 0x1000:
					if !p.Header.PayloadUnitStartIndicator || !p.Header.HasPayload {
						c.Violate("C04/table-packet-without-unit-start", stage, idx, fmt.Sprintf("call %d: pid %#x", k, p.Header.PID), data)
						return
					}
					if _, secs, err := refts.DecodeUnit(p.Payload); err != nil || len(secs) != 1 || secs[0].Err != nil {
						c.Violate("C04/table-packet-undecodable", stage, idx, fmt.Sprintf("call %d: pid %#x: %v %v", k, p.Header.PID, err, secs), data)
						return
					}
				default:
					es = append(es, p)
				}
			}
			if cl.Op.Kind == "tables" && len(es) > 0 {
				c.Violate("C04/writetables-emitted-foreign-packets", stage, idx, fmt.Sprintf("call %d", k), data)
				return
			}
			if cl.Op.Kind == "data" && cl.Err == nil {
				// exactly one PES unit on the call's PID
				var unit []byte
				first := true
				for _, p := range es {
					if p.Header.PID != cl.PID {
						c.Violate("C04/writedata-emitted-foreign-pid", stage, idx, fmt.Sprintf("call %d: pid %#x in the output of WriteData(%#x)", k, p.Header.PID, cl.PID), data)
						return
					}
					if !p.Header.HasPayload {
						continue
					}
					if p.Header.PayloadUnitStartIndicator != first {
						c.Violate("C04/payload-unit-start-misplaced", stage, idx, fmt.Sprintf("call %d: payload_unit_start=%v on a packet that is first=%v of its unit", k, p.Header.PayloadUnitStartIndicator, first), data)
						return
					}
					first = false
					unit = append(unit, p.Payload...)
				}
				if len(unit) < 6 || unit[0] != 0 || unit[1] != 0 || unit[2] != 1 {
					c.Violate("C04/pes-unit-without-start-code", stage, idx, fmt.Sprintf("call %d: unit of %d bytes begins %x", k, len(unit), clipBytes(unit, 8)), data)
					return
				}
				pl := int(unit[4])<<8 | int(unit[5])
				if pl != 0 && len(unit) != 6+pl {
					c.Violate("C04/pes-length-contradicts-unit", stage, idx, fmt.Sprintf("call %d: PES_packet_length %d but the unit has %d bytes after it", k, pl, len(unit)-6), data)
					return
				}
				if len(unit) < len(cl.Op.Data.PES.Data)+6 {
					c.Violate("C04/pes-unit-shorter-than-payload", stage, idx, fmt.Sprintf("call %d: unit %d bytes, payload %d", k, len(unit), len(cl.Op.Data.PES.Data)), data)
					return
				}
				// the PES header as an independent decoder reads it: the fields its flags announce fit PES_header_data_length, and
				// the data that follow the header are the data handed to WriteData
				if dec, derr := refts.DecodePES(unit); derr != nil {
					c.Violate("C04/pes-header-inconsistent", stage, idx, fmt.Sprintf("call %d: the reference decoder rejects the PES packet written (%v): %x", k, derr, clipBytes(unit, 24)), data)
					return
				} else if !bytes.Equal(dec.Data, cl.Op.Data.PES.Data) {
					c.Violate("C04/pes-header-inconsistent", stage, idx, fmt.Sprintf("call %d: behind the header as its flags and PES_header_data_length describe it the reference decoder finds %d data bytes (%x), %d were handed to WriteData (%x)", k, len(dec.Data), clipBytes(dec.Data, 12), len(cl.Op.Data.PES.Data), clipBytes(cl.Op.Data.PES.Data, 12)), data)
					return
				}
				c.Count("pes_units_length_checked")
				// stuffing class of the last packet
				if len(es) > 0 {
					last := es[len(es)-1]
					free := 184 - len(last.Payload)
					switch {
					case free == 0:
						c.Count("stuffing_class_0")
					case free == 1:
						c.Count("stuffing_class_1")
					case free == 2:
						c.Count("stuffing_class_2")
					default:
						c.Count("stuffing_class_many")
					}
				}
			}
		case "packet":
			if cl.Err == nil && len(pk) != 1 {
				c.Violate("C04/writepacket-packet-count", stage, idx, fmt.Sprintf("call %d: %d packets", k, len(pk)), data)
				return
			}
		}
	}
	c.Case(mon.HashBytes("c04", hr.Out), (accepted > 0 && rejected > 0) || len(hr.Out) >= 3*188)
}

// checkContinuity is C05's monitor: an online trace checker over the packet log.
func checkContinuity(c *mon.Ctx, stage string, idx int64, hr *HistRun) {
	data := map[string]any{"history": histSample(hr)}
	last := map[uint16]int{}
	first := map[uint16]int{} // counter of a packet without payload that was the first packet of its PID
	count := map[uint16]int{}
	tracked := func(pid uint16, cl *HCall) bool {
		if pid == 0 || pid == 0x1000 {
			return true
		}
		for _, w := range writePktPIDs {
			if pid == w {
				return false
			}
		}
		return true
	}
	tablesFailed := false
	removed := map[uint16]bool{}
	maxCount := 0
	for k, cl := range hr.Calls {
		if cl.Panic != "" {
			return // C04's subject
		}
		if cl.Op.Kind == "remove" && cl.Err == nil {
			// the counter is followed per PID over the whole output: a PID that is added again must go on counting, otherwise
			// a receiver of that PID observes a discontinuity and discards the unit it was assembling
			removed[cl.PID] = true
		}
		if cl.Op.Kind == "add" && cl.Err == nil && ((removed[cl.Op.PID] && cl.Op.PID != 0) || (cl.Op.Auto && len(removed) > 0)) {
			c.Count("removals_followed_by_readd")
			delete(removed, cl.Op.PID)
		}
		if (cl.Op.Kind == "tables" || cl.Op.Kind == "data") && cl.Err != nil && (errors.Is(cl.Err, astits.ErrPCRPIDInvalid) || cl.End == cl.Start) && cl.Op.Kind == "tables" {
			tablesFailed = true
		}
		if cl.Op.Kind == "data" && cl.Op.Data.AdaptationField != nil {
			hdr := 6
			if oh := cl.Op.Data.PES.Header.OptionalHeader; oh != nil && cl.Op.Data.PES.Header.StreamID != 0xBE && cl.Op.Data.PES.Header.StreamID != 0xBF {
				b, _ := refts.EncodePES(&astits.PESHeader{StreamID: 0xC0, OptionalHeader: oh}, nil, refts.PESEnc{}, nil)
				hdr = len(b)
			}
			if 183-gen.AFBodySize(cl.Op.Data.AdaptationField) < hdr {
				c.Count("af_without_room_for_pes_header")
			}
		}
		sawTables := false
		for o := cl.Start; o+188 <= cl.End; o += 188 {
			// the trace checker reads the three header fields it needs straight from the bytes (whether the rest of the packet is
			// well-formed is C04's subject; a malformed packet still reaches the receiver's continuity check)
			raw := hr.Out[o : o+188]
			if raw[0] != 0x47 {
				return // not a packet boundary any more: C04's subject
			}
			pid := uint16(raw[1]&0x1f)<<8 | uint16(raw[2])
			hasPayload := raw[3]&0x10 != 0
			if pid == 0 {
				sawTables = true
			}
			if !tracked(pid, cl) {
				continue
			}
			cc := int(raw[3] & 15)
			if !hasPayload {
				// a packet without payload does not advance the counter: it repeats the one of the last payload packet (ISO 13818-1
				// 2.4.3.3), and when it is the first packet of the PID the first payload packet continues from it. A receiver
				// that sees anything else reports a discontinuity or takes the next packet for a duplicate
				c.Count("packets_without_payload_tracked")
				if l, ok := last[pid]; ok {
					if cc != l {
						c.Violate("C05/counter-gap:es:packet-without-payload", stage, idx, fmt.Sprintf("call %d (%s): pid %#x packet without payload carries continuity_counter %d after %d (packet at offset %d)", k, cl.Op.Kind, pid, cc, l, o), data)
						return
					}
				} else {
					first[pid] = cc
				}
				continue
			}
			c.Count("payload_packets_tracked")
			if f, ok := first[pid]; ok {
				delete(first, pid)
				if _, seen := last[pid]; !seen && cc != (f+1)&15 {
					c.Violate("C05/counter-gap:es:first-packet-without-payload", stage, idx, fmt.Sprintf("call %d (%s): pid %#x first payload packet carries continuity_counter %d after a packet without payload carrying %d (packet at offset %d)", k, cl.Op.Kind, pid, cc, f, o), data)
					return
				}
			}
			if l, ok := last[pid]; ok {
				if cc != (l+1)&15 {
					kind := "es"
					switch pid {
					case 0:
						kind = "pat"
					case 0x1000:
						kind = "pmt"
					}
					cause := "plain"
					if tablesFailed && kind != "es" {
						cause = "after-failed-table-emission"
					}
					if kind == "es" && cl.Op.Kind == "data" && cl.Op.Data.AdaptationField != nil {
						cause = "call-with-adaptation-field"
					}
					c.Violate("C05/counter-gap:"+kind+":"+cause, stage, idx, fmt.Sprintf("call %d (%s): pid %#x continuity_counter %d follows %d (packet at offset %d)", k, cl.Op.Kind, pid, cc, l, o), data)
					return
				}
				if cc == 0 {
					c.Count("counter_wraps_observed")
				}
			}
			last[pid] = cc
			count[pid]++
			if count[pid] > maxCount {
				maxCount = count[pid]
			}
		}
		if sawTables && tablesFailed && cl.Err == nil {
			c.Count("failed_then_successful_table_emissions")
			tablesFailed = false
		}
	}
	c.Case(mon.HashBytes("c05", hr.Out), maxCount >= 17)
}
