package props

import (
	"fmt"
	"math/rand/v2"

	astits "github.com/asticode/go-astits"

	"verifharness/gen"
	"verifharness/mon"
	"verifharness/refts"
)

func init() {
	register(&Prop{
		ID:    "C17",
		Level: "exploration",
		Rule: "bounded-exhaustive Muxer histories (every word up to length 5 in quick / 6 in thorough over {Add(auto), Add(a), Add(b), Remove(a), SetPCRPID(a), SetPCRPID(b), WriteTables, WriteData(a), WriteData(a,RAI)}) x " +
			"retransmit periods {1,2,3}, plus random histories up to 200 operations x periods 1..50 incl. >32 content changes (version wrap) and failing emissions; the packet log is judged by a reference " +
			"state machine written from the property statement (required emission points are a lower bound); plus long sessions (stage endurance: thousands of add/remove cycles with automatic PIDs, hundreds of emissions, 131 500 calls); distinct = hash(history word / output); non-trivial = ≥1 table emission and ≥1 WriteData; every PAT and PMT emitted is section 0 of 0 with current_next_indicator set",
		Assumptions: []string{"extra table emissions are tolerated but must be current and version-consistent", "WriteData calls that fail are not counted towards the retransmit period",
			"SetPCRPID counts as a change even when it sets the same value (the statement says 'was set')"},
		Shards: 32,
		Run:    runC17,
		Guards: func(m *mon.Merged, tier string) []string {
			var out []string
			need(m, &out, "exhaustive_histories", 150000)
			need(m, &out, "random_histories", 300)
			need(m, &out, "emissions_checked", 20000)
			need(m, &out, "emission_cause_period", 1000)
			need(m, &out, "emission_cause_rai", 1000)
			need(m, &out, "emission_cause_first", 1000)
			need(m, &out, "emission_cause_explicit", 1000)
			need(m, &out, "version_wraps", 10)
			need(m, &out, "auto_pids_assigned", 1000)
			need(m, &out, "failed_emissions", 1000)
			return out
		},
		Exhaustive: func(tier string) bool { return true },
	})
}

// emission is one PAT+PMT pair found in the output.
type emission struct {
	call     int
	off      int
	pat, pmt *astits.PSISection
}

// tablesOracle judges a history run against the reference state machine. It is shared by C17 (all clauses) and C01 (contents).
func tablesOracle(c *mon.Ctx, prop, stage string, idx int64, hr *HistRun, timing bool) (ems []emission, ok bool) {
	data := map[string]any{"history": histSample(hr)}
	bad := func(class, detail string) {
		ok = false
		c.Violate(prop+"/"+class, stage, idx, detail, data)
	}
	ok = true
	sinceAuto := -1 // successful WriteData calls since the last emission made inside a WriteData call; -1 = none yet
	changedSince := false
	lastPMTVersion, lastPATVersion := -1, -1
	seenTables := false
	for k, cl := range hr.Calls {
		if cl.Panic != "" {
			bad("panic:"+cl.Op.Kind, cl.Panic)
			return
		}
		// packets of this call
		var pk []*astits.Packet
		for o := cl.Start; o+188 <= cl.End; o += 188 {
			p, err := refts.DecodePacket(hr.Out[o : o+188])
			if err != nil {
				bad("nonconformant-packet", fmt.Sprintf("call %d: %v", k, err))
				return
			}
			pk = append(pk, p)
		}
		var callEms []emission
		for j := 0; j < len(pk); j++ {
			p := pk[j]
			if p.Header.PID == 0 {
				if j+1 >= len(pk) || pk[j+1].Header.PID != 0x1000 {
					bad("pat-without-pmt", fmt.Sprintf("call %d: a PAT packet is not followed by a PMT packet", k))
					return
				}
				e := emission{call: k, off: cl.Start + j*188}
				for t, q := range []*astits.Packet{p, pk[j+1]} {
					_, secs, err := refts.DecodeUnit(q.Payload)
					if err != nil || len(secs) != 1 || secs[0].Err != nil {
						bad("table-undecodable", fmt.Sprintf("call %d: pid %#x: %v", k, q.Header.PID, err))
						return
					}
					if t == 0 {
						e.pat = secs[0].Section
					} else {
						e.pmt = secs[0].Section
					}
				}
				if e.pat.Syntax.Data.PAT == nil || e.pmt.Syntax.Data.PMT == nil {
					bad("table-kind", fmt.Sprintf("call %d: PID 0 / 0x1000 do not carry a PAT / PMT", k))
					return
				}
				callEms = append(callEms, e)
				j++
				continue
			}
			if p.Header.PID == 0x1000 {
				bad("pmt-without-pat", fmt.Sprintf("call %d", k))
				return
			}
			if !seenTables && len(callEms) == 0 && p.Header.HasPayload && cl.Op.Kind == "data" {
				bad("pes-before-first-tables", fmt.Sprintf("call %d: a PES packet (pid %#x) precedes the first PAT/PMT", k, p.Header.PID))
				return
			}
		}
		if cl.Changed {
			changedSince = true
		}
		if (cl.Op.Kind == "tables" || cl.Op.Kind == "data") && cl.Err != nil && len(callEms) == 0 {
			c.Count("failed_emissions")
		}
		// timing requirements of a successful WriteData
		if timing && cl.Op.Kind == "data" && cl.Err == nil {
			rai := cl.Op.Data.AdaptationField != nil && cl.Op.Data.AdaptationField.RandomAccessIndicator && cl.PID == cl.PCRPID
			cause := ""
			switch {
			case sinceAuto < 0:
				cause = "first"
			case sinceAuto+1 >= hr.Period:
				cause = "period"
			case rai:
				cause = "rai"
			}
			startsWithTables := len(callEms) > 0 && callEms[0].off == cl.Start
			if cause != "" {
				c.Count("emission_cause_" + cause)
				if !startsWithTables {
					bad("required-emission-missing:"+cause, fmt.Sprintf("call %d WriteData(pid %#x): tables required (%s; %d WriteData calls since the last automatic emission, period %d) but the call's output does not begin with PAT+PMT", k, cl.PID, cause, sinceAuto+1, hr.Period))
					return
				}
			}
			if len(callEms) > 0 {
				sinceAuto = 0
			} else {
				sinceAuto++
			}
		}
		if cl.Op.Kind == "tables" && cl.Err == nil {
			c.Count("emission_cause_explicit")
			if len(callEms) != 1 {
				bad("writetables-emission-count", fmt.Sprintf("call %d: %d emissions", k, len(callEms)))
				return
			}
		}
		// contents and versions of every emission
		for _, e := range callEms {
			seenTables = true
			c.Count("emissions_checked")
			pat, pmt := e.pat.Syntax.Data.PAT, e.pmt.Syntax.Data.PMT
			if len(pat.Programs) != 1 || pat.Programs[0].ProgramNumber != 1 || pat.Programs[0].ProgramMapID != 0x1000 {
				bad("pat-content", fmt.Sprintf("call %d: PAT programs %+v, want program 1 -> 0x1000", k, pat.Programs))
				return
			}
			// each table is one section: it says so itself (a receiver collects sections 0 .. last_section_number before it takes
			// the table for current), whatever its size
			for name, sec := range map[string]*astits.PSISection{"pat": e.pat, "pmt": e.pmt} {
				if h := sec.Syntax.Header; h.SectionNumber != 0 || h.LastSectionNumber != 0 || !h.CurrentNextIndicator {
					bad(name+"-section-numbering", fmt.Sprintf("call %d: section_number %d, last_section_number %d, current_next_indicator %v: the table is sent as the one section 0 of 0, current", k, h.SectionNumber, h.LastSectionNumber, h.CurrentNextIndicator))
					return
				}
			}
			if pmt.ProgramNumber != 1 {
				bad("pmt-program-number", fmt.Sprintf("call %d: %d", k, pmt.ProgramNumber))
				return
			}
			if pmt.PCRPID != cl.PCRPID {
				bad("pmt-pcr-pid-stale", fmt.Sprintf("call %d: PMT PCR PID %#x, current %#x", k, pmt.PCRPID, cl.PCRPID))
				return
			}
			if len(pmt.ElementaryStreams) != len(cl.Streams) {
				bad("pmt-stream-list-stale", fmt.Sprintf("call %d: PMT lists %d streams, %d are added", k, len(pmt.ElementaryStreams), len(cl.Streams)))
				return
			}
			pids := map[uint16]bool{}
			for i, es := range pmt.ElementaryStreams {
				s := cl.Streams[i]
				if s.Known && s.PID != es.ElementaryPID {
					bad("pmt-stream-order-or-pid", fmt.Sprintf("call %d: stream %d has pid %#x, want %#x", k, i, es.ElementaryPID, s.PID))
					return
				}
				if es.StreamType != s.ES.StreamType {
					bad("pmt-stream-type", fmt.Sprintf("call %d: stream %d type %#x want %#x", k, i, es.StreamType, s.ES.StreamType))
					return
				}
				want := normDescs(s.ES.ElementaryStreamDescriptors)
				if d := mon.Diff(es.ElementaryStreamDescriptors, want, nil); d != "" {
					bad("pmt-stream-descriptors", fmt.Sprintf("call %d: stream %d: %s", k, i, d))
					return
				}
				if pids[es.ElementaryPID] {
					bad("duplicate-pid-in-pmt", fmt.Sprintf("call %d: pid %#x twice", k, es.ElementaryPID))
					return
				}
				pids[es.ElementaryPID] = true
				if s.ES != nil && cl.Streams[i].Slot >= 0 && isAuto(hr, cl.Streams[i]) {
					p := es.ElementaryPID
					if p <= 0x1f || p == 0x1fff || p == 0x1000 {
						bad("auto-pid-reserved", fmt.Sprintf("call %d: automatically assigned pid %#x", k, p))
						return
					}
				}
			}
			v := int(e.pmt.Syntax.Header.VersionNumber)
			if lastPMTVersion >= 0 {
				switch {
				case changedSince && v != (lastPMTVersion+1)&31:
					bad("pmt-version-not-incremented-after-change", fmt.Sprintf("call %d: version %d after %d although the stream set / PCR PID was changed in between", k, v, lastPMTVersion))
					return
				case !changedSince && v != lastPMTVersion:
					bad("pmt-version-changed-without-change", fmt.Sprintf("call %d: version %d after %d without any change in between", k, v, lastPMTVersion))
					return
				}
				if changedSince && v == 0 {
					c.Count("version_wraps")
				}
			}
			lastPMTVersion = v
			changedSince = false
			pv := int(e.pat.Syntax.Header.VersionNumber)
			if lastPATVersion >= 0 && pv != lastPATVersion {
				bad("pat-version-changed", fmt.Sprintf("call %d: PAT version %d after %d", k, pv, lastPATVersion))
				return
			}
			lastPATVersion = pv
			if !e.pat.Syntax.Header.CurrentNextIndicator || !e.pmt.Syntax.Header.CurrentNextIndicator {
				bad("current-next-indicator", fmt.Sprintf("call %d", k))
				return
			}
		}
		ems = append(ems, callEms...)
	}
	return
}

func isAuto(hr *HistRun, s *hStream) bool {
	for _, cl := range hr.Calls {
		if cl.Op.Kind == "add" && cl.Op.Auto && cl.Op.ES == s.ES {
			return true
		}
	}
	return false
}

// normDescs is what a descriptor loop decodes to: Length filled in, typed part dropped when the body is empty.
func normDescs(ds []*astits.Descriptor) []*astits.Descriptor {
	if len(ds) == 0 {
		return nil
	}
	w := &refts.W{}
	if err := refts.EncodeDescriptorLoop(w, ds); err != nil {
		return ds
	}
	out, err := refts.DecodeDescriptorLoop(&refts.R{B: w.B})
	if err != nil {
		return ds
	}
	return out
}

func runC17(c *mon.Ctx) {
	enduranceSessions(c, func(stage string, i int64, shape string, hr *HistRun) { tablesOracle(c, "C17", stage, i, hr, true) })
	// bounded exhaustive
	const L = 9
	maxLen := int(c.Pick(5, 6))
	a, b := uint16(0x40), uint16(0x41) // outside the automatic range: the model cannot attribute an unseen automatic PID
	esA := &astits.PMTElementaryStream{StreamType: astits.StreamTypeH264Video}
	esB := &astits.PMTElementaryStream{StreamType: astits.StreamTypeAACAudio, ElementaryStreamDescriptors: []*astits.Descriptor{{Tag: 0x0a, Length: 4, ISO639LanguageAndAudioType: &astits.DescriptorISO639LanguageAndAudioType{Language: []byte("eng"), Type: 1}}}}
	payload := gen.Bytes(rand.New(rand.NewPCG(1, 2)), 200)
	mkData := func(rai bool) *astits.MuxerData {
		d := &astits.MuxerData{PES: &astits.PESData{Header: &astits.PESHeader{StreamID: 0xE0, OptionalHeader: &astits.PESOptionalHeader{MarkerBits: 2}}, Data: payload}}
		if rai {
			d.AdaptationField = &astits.PacketAdaptationField{RandomAccessIndicator: true}
		}
		return d
	}
	letter := func(x, pos int) HOp {
		switch x {
		case 0:
			return HOp{Kind: "add", PID: 0, Auto: true, Slot: pos, ES: &astits.PMTElementaryStream{StreamType: astits.StreamTypeMPEG2Audio}}
		case 1:
			return HOp{Kind: "add", PID: a, ES: esA, Slot: -1}
		case 2:
			return HOp{Kind: "add", PID: b, ES: esB, Slot: -1}
		case 3:
			return HOp{Kind: "remove", PID: a}
		case 4:
			return HOp{Kind: "pcr", PID: a}
		case 5:
			return HOp{Kind: "pcr", PID: b}
		case 6:
			return HOp{Kind: "tables"}
		case 7:
			return HOp{Kind: "data", PID: a, Data: mkData(false)}
		}
		return HOp{Kind: "data", PID: a, Data: mkData(true)}
	}
	total := int64(0)
	for l, n := 1, int64(L); l <= maxLen; l, n = l+1, n*L {
		for w := int64(0); w < n; w++ {
			id := total + w
			if !c.Mine("words", id) {
				continue
			}
			ops := make([]HOp, l)
			x := w
			autos, datas := 0, 0
			for p := 0; p < l; p++ {
				ops[p] = letter(int(x%L), p)
				if x%L == 0 {
					autos++
				}
				if x%L >= 7 {
					datas++
				}
				x /= L
			}
			for _, period := range []int{1, 2, 3} {
				hr := runHistory(ops, period)
				ems, _ := tablesOracle(c, "C17", "words", id, hr, true)
				c.Count("exhaustive_histories")
				c.Add("auto_pids_assigned", int64(autos))
				if len(ems) > 0 && datas > 0 {
					c.Case(mon.HashStr("w", fmt.Sprint(id, period)), true)
				} else {
					c.Case(mon.HashStr("w", fmt.Sprint(id, period)), false)
				}
			}
		}
		total += n
	}
	// collisions: explicit PIDs equal to what auto-assignment would pick next
	if c.Mine("collide", 0) {
		for k := 0; k < 40; k++ {
			var ops []HOp
			for j := 0; j < 6; j++ {
				if (k>>uint(j))&1 == 0 {
					ops = append(ops, HOp{Kind: "add", PID: uint16(0x100 + j), ES: esA, Slot: -1})
				} else {
					ops = append(ops, HOp{Kind: "add", PID: 0, Auto: true, Slot: j, ES: &astits.PMTElementaryStream{StreamType: astits.StreamTypeMPEG2Audio}})
				}
			}
			ops = append(ops, HOp{Kind: "pcr", PID: 0x100}, HOp{Kind: "tables"})
			hr := runHistory(ops, 5)
			tablesOracle(c, "C17", "collide", 0, hr, true)
			c.Count("explicit_vs_auto_collision_histories")
		}
	}
	// the same with explicit PIDs added out of ascending order (a high PID first, then the next automatic candidate)
	for k := int64(1); k <= c.Pick(200, 5000); k++ {
		if !c.Mine("collide", k) {
			continue
		}
		r := c.Rng("collide", k)
		hr := runHistory(autoCollisionScenario(r), 1+r.IntN(5))
		tablesOracle(c, "C17", "collide", k, hr, true)
		c.Count("explicit_vs_auto_collision_histories")
	}
	// random histories
	n := c.Pick(2000, 200000)
	for i := int64(0); i < n; i++ {
		if !c.Mine("random", i) {
			continue
		}
		r := c.Rng("random", i)
		o := HistOpts{MaxOps: 200, AllowInvalid: true, AutoPIDs: true, OversizePMT: true, RichHeaders: true, FewPIDs: i%2 == 0}
		ops, period := RandomHistory(r, o)
		if i%5 == 0 {
			// many content changes: version wrap
			for q := 0; q < 40; q++ {
				ops = append(ops, HOp{Kind: "pcr", PID: esPIDPool[0]}, HOp{Kind: "tables"})
			}
		}
		if i%16 == 3 {
			ops = wrapPMTScenario(r)
			if (i/16)%2 == 1 {
				ops = wrapDescriptorScenario(r)
			}
			c.Count("histories_with_a_pmt_of_65536_bytes")
		}
		if i%16 == 7 {
			ops = oversizeReaddScenario(r)
		}
		hr := runHistory(ops, period)
		ems, _ := tablesOracle(c, "C17", "random", i, hr, true)
		c.Count("random_histories")
		c.Case(mon.HashBytes("c17", hr.Out), len(ems) > 0)
		if i < 2 {
			c.Sample("random", histSample(hr))
		}
	}
}
