package refts

import (
	"fmt"

	astits "github.com/asticode/go-astits"
)

// RUnit is a payload unit reassembled from a packet log by the reference demultiplexer.
type RUnit struct {
	PID     uint16
	Pkts    []int // indexes of the payload carrying packets
	First   *astits.Packet
	Payload []byte
	Started bool // began with payload_unit_start_indicator
}

// PacketLog is the decoded form of a byte stream of 188 byte packets.
type PacketLog struct {
	Packets []*astits.Packet
	Errs    []error // per packet conformance error (nil when conformant)
}

// DecodeLog decodes every 188 byte packet; a trailing partial packet is reported in tail.
func DecodeLog(ts []byte) (log *PacketLog, tail int) {
	log = &PacketLog{}
	n := len(ts) / PacketSize
	for i := 0; i < n; i++ {
		p, err := DecodePacket(ts[i*PacketSize : (i+1)*PacketSize])
		log.Packets = append(log.Packets, p)
		log.Errs = append(log.Errs, err)
	}
	return log, len(ts) - n*PacketSize
}

// Reassemble groups payload packets per PID into units: a unit starts at payload_unit_start_indicator. It returns the
// units in order of their first packet and the continuity errors found (pid, packet index).
func Reassemble(pkts []*astits.Packet) (units []*RUnit, ccErrs []string) {
	cur := map[uint16]*RUnit{}
	last := map[uint16]int{}
	for i, p := range pkts {
		if p == nil || !p.Header.HasPayload {
			continue
		}
		pid := p.Header.PID
		if l, ok := last[pid]; ok {
			if int(p.Header.ContinuityCounter) != (l+1)&15 {
				ccErrs = append(ccErrs, fmt.Sprintf("pid %#x packet %d: continuity_counter %d after %d", pid, i, p.Header.ContinuityCounter, l))
			}
		}
		last[pid] = int(p.Header.ContinuityCounter)
		u := cur[pid]
		if p.Header.PayloadUnitStartIndicator || u == nil {
			u = &RUnit{PID: pid, First: p, Started: p.Header.PayloadUnitStartIndicator}
			cur[pid] = u
			units = append(units, u)
		}
		u.Pkts = append(u.Pkts, i)
		u.Payload = append(u.Payload, p.Payload...)
	}
	return
}
