// Package refts is an independent reference codec for MPEG transport streams, written from the syntax tables of
// ISO/IEC 13818-1 and ETSI EN 300 468. It shares no code, table or constant with the library under test; only the
// library's exported struct types are used as the data model, so that results can be compared field by field.
package refts

import (
	"errors"
	"math/rand/v2"
)

var ErrShort = errors.New("refts: not enough bytes")

// W is an MSB-first bit writer.
type W struct {
	B    []byte
	nbit uint // number of bits used in the last byte (0 = byte aligned)
	// Rnd, when set, supplies the value of reserved bits whose value a decoder must ignore; otherwise they are all ones.
	Rnd *rand.Rand
}

func (w *W) Bit(v bool) {
	if w.nbit == 0 {
		w.B = append(w.B, 0)
	}
	if v {
		w.B[len(w.B)-1] |= 1 << (7 - w.nbit)
	}
	w.nbit = (w.nbit + 1) & 7
}

// U writes the n low bits of v, most significant first.
func (w *W) U(v uint64, n int) {
	for i := n - 1; i >= 0; i-- {
		w.Bit(v>>uint(i)&1 == 1)
	}
}

// Res writes n reserved bits (ones, or random when Rnd is set).
func (w *W) Res(n int) {
	for i := 0; i < n; i++ {
		if w.Rnd != nil {
			w.Bit(w.Rnd.IntN(2) == 1)
		} else {
			w.Bit(true)
		}
	}
}

func (w *W) Bytes(b []byte) {
	if w.nbit != 0 {
		panic("refts: unaligned byte write")
	}
	w.B = append(w.B, b...)
}

func (w *W) Len() int { return len(w.B) }

// R is an MSB-first bit reader with bounds checking.
type R struct {
	B   []byte
	pos int // bit position
	Err error
}

func (r *R) Bit() bool {
	if r.Err != nil {
		return false
	}
	if r.pos>>3 >= len(r.B) {
		r.Err = ErrShort
		return false
	}
	v := r.B[r.pos>>3]>>(7-uint(r.pos&7))&1 == 1
	r.pos++
	return v
}

func (r *R) U(n int) uint64 {
	var v uint64
	for i := 0; i < n; i++ {
		v <<= 1
		if r.Bit() {
			v |= 1
		}
	}
	return v
}

func (r *R) Skip(nbits int) {
	if r.Err != nil {
		return
	}
	if r.pos+nbits > len(r.B)*8 {
		r.Err = ErrShort
		return
	}
	r.pos += nbits
}

// Take returns the next n whole bytes (the reader must be byte aligned).
func (r *R) Take(n int) []byte {
	if r.Err != nil {
		return nil
	}
	if r.pos&7 != 0 {
		panic("refts: unaligned byte read")
	}
	o := r.pos >> 3
	if n < 0 || o+n > len(r.B) {
		r.Err = ErrShort
		return nil
	}
	r.pos += n * 8
	out := make([]byte, n)
	copy(out, r.B[o:o+n])
	return out
}

func (r *R) Off() int  { return r.pos >> 3 }
func (r *R) Left() int { return len(r.B) - r.pos>>3 }
