package refts

import (
	"errors"
	"fmt"

	astits "github.com/asticode/go-astits"
)

// PSI / SI sections: ISO/IEC 13818-1 2.4.4 (PAT, PMT), ETSI EN 300 468 5.2 (NIT, SDT, EIT, TOT).

var ErrCRC = errors.New("refts: CRC_32 mismatch")

type TableKind int

const (
	KindOther TableKind = iota
	KindPAT
	KindPMT
	KindNIT
	KindSDT
	KindEIT
	KindTOT
)

// KindOf classifies a table_id.
func KindOf(id uint8) TableKind {
	switch {
	case id == 0x00:
		return KindPAT
	case id == 0x02:
		return KindPMT
	case id == 0x40 || id == 0x41:
		return KindNIT
	case id == 0x42 || id == 0x46:
		return KindSDT
	case id >= 0x4e && id <= 0x6f:
		return KindEIT
	case id == 0x73:
		return KindTOT
	}
	return KindOther
}

func (k TableKind) String() string {
	return [...]string{"other", "PAT", "PMT", "NIT", "SDT", "EIT", "TOT"}[k]
}

// EncodeSection returns the bytes of one section. section_length and CRC_32 are computed; reserved bits come from w.Res.
func EncodeSection(s *astits.PSISection, rnd *W) ([]byte, error) {
	id := uint8(s.Header.TableID)
	kind := KindOf(id)
	if kind == KindOther {
		return nil, fmt.Errorf("refts: table id %#x not modelled", id)
	}
	body := &W{}
	if rnd != nil {
		body.Rnd = rnd.Rnd
	}
	if s.Syntax == nil || s.Syntax.Data == nil {
		return nil, fmt.Errorf("refts: section without data")
	}
	d := s.Syntax.Data
	if kind != KindTOT {
		sh := s.Syntax.Header
		if sh == nil {
			return nil, fmt.Errorf("refts: section without syntax header")
		}
		body.U(uint64(sh.TableIDExtension), 16)
		body.Res(2)
		body.U(uint64(sh.VersionNumber), 5)
		body.Bit(sh.CurrentNextIndicator)
		body.U(uint64(sh.SectionNumber), 8)
		body.U(uint64(sh.LastSectionNumber), 8)
	}
	var err error
	switch kind {
	case KindPAT:
		for _, p := range d.PAT.Programs {
			body.U(uint64(p.ProgramNumber), 16)
			body.Res(3)
			body.U(uint64(p.ProgramMapID), 13)
		}
	case KindPMT:
		body.Res(3)
		body.U(uint64(d.PMT.PCRPID), 13)
		if err = EncodeDescriptorLoop(body, d.PMT.ProgramDescriptors); err != nil {
			return nil, err
		}
		for _, es := range d.PMT.ElementaryStreams {
			body.U(uint64(es.StreamType), 8)
			body.Res(3)
			body.U(uint64(es.ElementaryPID), 13)
			if err = EncodeDescriptorLoop(body, es.ElementaryStreamDescriptors); err != nil {
				return nil, err
			}
		}
	case KindSDT:
		body.U(uint64(d.SDT.OriginalNetworkID), 16)
		body.Res(8)
		for _, sv := range d.SDT.Services {
			body.U(uint64(sv.ServiceID), 16)
			body.Res(6)
			body.Bit(sv.HasEITSchedule)
			body.Bit(sv.HasEITPresentFollowing)
			body.U(uint64(sv.RunningStatus), 3)
			body.Bit(sv.HasFreeCSAMode)
			if err = encodeLoop12(body, sv.Descriptors); err != nil {
				return nil, err
			}
		}
	case KindNIT:
		if err = EncodeDescriptorLoop(body, d.NIT.NetworkDescriptors); err != nil {
			return nil, err
		}
		loop := &W{Rnd: body.Rnd}
		for _, t := range d.NIT.TransportStreams {
			loop.U(uint64(t.TransportStreamID), 16)
			loop.U(uint64(t.OriginalNetworkID), 16)
			if err = EncodeDescriptorLoop(loop, t.TransportDescriptors); err != nil {
				return nil, err
			}
		}
		if loop.Len() > 0xfff {
			return nil, fmt.Errorf("refts: transport stream loop too long")
		}
		body.Res(4)
		body.U(uint64(loop.Len()), 12)
		body.Bytes(loop.B)
	case KindEIT:
		body.U(uint64(d.EIT.TransportStreamID), 16)
		body.U(uint64(d.EIT.OriginalNetworkID), 16)
		body.U(uint64(d.EIT.SegmentLastSectionNumber), 8)
		body.U(uint64(d.EIT.LastTableID), 8)
		for _, e := range d.EIT.Events {
			body.U(uint64(e.EventID), 16)
			body.Bytes(EncodeDVBTime(e.StartTime))
			body.Bytes(EncodeBCDHMS(e.Duration))
			body.U(uint64(e.RunningStatus), 3)
			body.Bit(e.HasFreeCSAMode)
			if err = encodeLoop12(body, e.Descriptors); err != nil {
				return nil, err
			}
		}
	case KindTOT:
		body.Bytes(EncodeDVBTime(d.TOT.UTCTime))
		if err = EncodeDescriptorLoop(body, d.TOT.Descriptors); err != nil {
			return nil, err
		}
	}
	l := body.Len() + 4
	if l > 0xfff {
		return nil, fmt.Errorf("refts: section_length %d", l)
	}
	w := &W{Rnd: body.Rnd}
	w.U(uint64(id), 8)
	w.Bit(s.Header.SectionSyntaxIndicator)
	w.Bit(s.Header.PrivateBit)
	w.Res(2)
	w.U(uint64(l), 12)
	w.Bytes(body.B)
	crc := CRC32(w.B)
	w.U(uint64(crc), 32)
	return w.B, nil
}

// encodeLoop12 writes a 12 bit descriptors_loop_length (the 4 bits before it belong to the caller's fields) + descriptors.
func encodeLoop12(w *W, ds []*astits.Descriptor) error {
	x := &W{Rnd: w.Rnd}
	for _, d := range ds {
		if err := EncodeDescriptor(x, d); err != nil {
			return err
		}
	}
	if x.Len() > 0xfff {
		return fmt.Errorf("refts: descriptor loop of %d bytes", x.Len())
	}
	w.U(uint64(x.Len()), 12)
	w.Bytes(x.B)
	return nil
}

// decodeLoop12 is the counterpart of encodeLoop12: the reader stands right before the 12 bit length (4 bits into a byte).
func decodeLoop12(r *R) ([]*astits.Descriptor, error) {
	// re-use DecodeDescriptorLoop by stepping back over the 4 bits already consumed: it skips 4 bits itself
	r.pos -= 4
	return DecodeDescriptorLoop(r)
}

// DecodeSection decodes the section starting at the reader's position. The returned section has all generic header fields
// set (incl. SectionLength, CRC32 and TableType left empty). A CRC mismatch returns ErrCRC.
func DecodeSection(r *R) (*astits.PSISection, error) {
	start := r.Off()
	s := &astits.PSISection{Header: &astits.PSISectionHeader{}}
	id := uint8(r.U(8))
	s.Header.TableID = astits.PSITableID(id)
	s.Header.SectionSyntaxIndicator = r.Bit()
	s.Header.PrivateBit = r.Bit()
	r.Skip(2)
	l := int(r.U(12))
	s.Header.SectionLength = uint16(l)
	if r.Err != nil {
		return nil, r.Err
	}
	if r.Left() < l {
		return nil, fmt.Errorf("refts: section_length %d exceeds the %d available bytes: %w", l, r.Left(), ErrShort)
	}
	kind := KindOf(id)
	if kind == KindOther {
		r.Take(l)
		return s, nil
	}
	if l < 4 {
		return nil, fmt.Errorf("refts: section too short for a CRC_32")
	}
	all := r.B[start : start+3+l]
	crc := uint32(all[len(all)-4])<<24 | uint32(all[len(all)-3])<<16 | uint32(all[len(all)-2])<<8 | uint32(all[len(all)-1])
	s.CRC32 = crc
	if CRC32(all[:len(all)-4]) != crc {
		r.Take(l)
		return s, ErrCRC
	}
	b := &R{B: all[3 : len(all)-4]}
	r.Take(l)
	s.Syntax = &astits.PSISectionSyntax{Data: &astits.PSISectionSyntaxData{}}
	d := s.Syntax.Data
	var ext uint16
	if kind != KindTOT {
		sh := &astits.PSISectionSyntaxHeader{}
		sh.TableIDExtension = uint16(b.U(16))
		b.Skip(2)
		sh.VersionNumber = uint8(b.U(5))
		sh.CurrentNextIndicator = b.Bit()
		sh.SectionNumber = uint8(b.U(8))
		sh.LastSectionNumber = uint8(b.U(8))
		s.Syntax.Header = sh
		ext = sh.TableIDExtension
	}
	var err error
	switch kind {
	case KindPAT:
		d.PAT = &astits.PATData{TransportStreamID: ext}
		for b.Left() > 0 && b.Err == nil {
			p := &astits.PATProgram{}
			p.ProgramNumber = uint16(b.U(16))
			b.Skip(3)
			p.ProgramMapID = uint16(b.U(13))
			d.PAT.Programs = append(d.PAT.Programs, p)
		}
	case KindPMT:
		d.PMT = &astits.PMTData{ProgramNumber: ext}
		b.Skip(3)
		d.PMT.PCRPID = uint16(b.U(13))
		if d.PMT.ProgramDescriptors, err = DecodeDescriptorLoop(b); err != nil {
			return s, err
		}
		for b.Left() > 0 && b.Err == nil {
			es := &astits.PMTElementaryStream{}
			es.StreamType = astits.StreamType(b.U(8))
			b.Skip(3)
			es.ElementaryPID = uint16(b.U(13))
			if es.ElementaryStreamDescriptors, err = DecodeDescriptorLoop(b); err != nil {
				return s, err
			}
			d.PMT.ElementaryStreams = append(d.PMT.ElementaryStreams, es)
		}
	case KindSDT:
		d.SDT = &astits.SDTData{TransportStreamID: ext}
		d.SDT.OriginalNetworkID = uint16(b.U(16))
		b.Skip(8)
		for b.Left() > 0 && b.Err == nil {
			sv := &astits.SDTDataService{}
			sv.ServiceID = uint16(b.U(16))
			b.Skip(6)
			sv.HasEITSchedule = b.Bit()
			sv.HasEITPresentFollowing = b.Bit()
			sv.RunningStatus = uint8(b.U(3))
			sv.HasFreeCSAMode = b.Bit()
			if b.Err != nil {
				break
			}
			if sv.Descriptors, err = decodeLoop12(b); err != nil {
				return s, err
			}
			d.SDT.Services = append(d.SDT.Services, sv)
		}
	case KindNIT:
		d.NIT = &astits.NITData{NetworkID: ext}
		if d.NIT.NetworkDescriptors, err = DecodeDescriptorLoop(b); err != nil {
			return s, err
		}
		b.Skip(4)
		tl := int(b.U(12))
		lb := &R{B: b.Take(tl)}
		if b.Err != nil {
			break
		}
		for lb.Left() > 0 && lb.Err == nil {
			t := &astits.NITDataTransportStream{}
			t.TransportStreamID = uint16(lb.U(16))
			t.OriginalNetworkID = uint16(lb.U(16))
			if t.TransportDescriptors, err = DecodeDescriptorLoop(lb); err != nil {
				return s, err
			}
			d.NIT.TransportStreams = append(d.NIT.TransportStreams, t)
		}
		if lb.Err != nil {
			return s, lb.Err
		}
	case KindEIT:
		d.EIT = &astits.EITData{ServiceID: ext}
		d.EIT.TransportStreamID = uint16(b.U(16))
		d.EIT.OriginalNetworkID = uint16(b.U(16))
		d.EIT.SegmentLastSectionNumber = uint8(b.U(8))
		d.EIT.LastTableID = uint8(b.U(8))
		for b.Left() > 0 && b.Err == nil {
			e := &astits.EITDataEvent{}
			e.EventID = uint16(b.U(16))
			tb := b.Take(5)
			db := b.Take(3)
			if b.Err != nil {
				break
			}
			e.StartTime, _ = DecodeDVBTime(tb)
			e.Duration = DecodeBCDHMS(db)
			e.RunningStatus = uint8(b.U(3))
			e.HasFreeCSAMode = b.Bit()
			if b.Err != nil {
				break
			}
			if e.Descriptors, err = decodeLoop12(b); err != nil {
				return s, err
			}
			d.EIT.Events = append(d.EIT.Events, e)
		}
	case KindTOT:
		d.TOT = &astits.TOTData{}
		tb := b.Take(5)
		if b.Err == nil {
			d.TOT.UTCTime, _ = DecodeDVBTime(tb)
			if d.TOT.Descriptors, err = DecodeDescriptorLoop(b); err != nil {
				return s, err
			}
		}
	}
	if b.Err != nil {
		return s, fmt.Errorf("refts: section body overruns section_length: %w", b.Err)
	}
	return s, nil
}

// UnitSection is the outcome of one section of a PSI unit.
type UnitSection struct {
	Section    *astits.PSISection
	Err        error
	Start, End int // offsets inside the unit payload
}

// DecodeUnit decodes a PSI unit payload (pointer_field, filler, sections, 0xFF stuffing) the way an ISO decoder does.
// Sections of table ids outside the six modelled types are skipped by their section_length.
func DecodeUnit(payload []byte) (ptr int, out []UnitSection, err error) {
	if len(payload) < 1 {
		return 0, nil, ErrShort
	}
	ptr = int(payload[0])
	if 1+ptr > len(payload) {
		return ptr, nil, fmt.Errorf("refts: pointer_field %d past the unit end", ptr)
	}
	r := &R{B: payload}
	r.Take(1 + ptr)
	for r.Left() > 0 {
		if payload[r.Off()] == 0xff {
			break
		}
		st := r.Off()
		s, e := DecodeSection(r)
		out = append(out, UnitSection{Section: s, Err: e, Start: st, End: r.Off()})
		if e != nil && !errors.Is(e, ErrCRC) && (s == nil || r.Off() == st) {
			break // framing lost
		}
		if e != nil && errors.Is(e, ErrShort) {
			break
		}
	}
	return ptr, out, nil
}
