package refts

import (
	"fmt"
	"time"
)

// MJD 0 is 1858-11-17. Civil date from a day count by pure integer arithmetic
// (days-from-civil / civil-from-days algorithms on the proleptic Gregorian calendar).

const mjdToUnixDays = 40587 // 1970-01-01 is MJD 40587

func civilFromDays(z int64) (y int64, m, d int) { // z = days since 1970-01-01
	z += 719468
	era := z / 146097
	if z < 0 {
		era = (z - 146096) / 146097
	}
	doe := z - era*146097
	yoe := (doe - doe/1460 + doe/36524 - doe/146096) / 365
	y = yoe + era*400
	doy := doe - (365*yoe + yoe/4 - yoe/100)
	mp := (5*doy + 2) / 153
	d = int(doy - (153*mp+2)/5 + 1)
	if mp < 10 {
		m = int(mp + 3)
	} else {
		m = int(mp - 9)
	}
	if m <= 2 {
		y++
	}
	return
}

func daysFromCivil(y int64, m, d int) int64 {
	if m <= 2 {
		y--
	}
	era := y / 400
	if y < 0 {
		era = (y - 399) / 400
	}
	yoe := y - era*400
	mm := int64(m)
	var doy int64
	if mm > 2 {
		doy = (153*(mm-3)+2)/5 + int64(d) - 1
	} else {
		doy = (153*(mm+9)+2)/5 + int64(d) - 1
	}
	doe := yoe*365 + yoe/4 - yoe/100 + doy
	return era*146097 + doe - 719468
}

// MJDToDate returns the civil date of a Modified Julian Date.
func MJDToDate(mjd int) (y, m, d int) {
	yy, m, d := civilFromDays(int64(mjd) - mjdToUnixDays)
	return int(yy), m, d
}

// DateToMJD returns the Modified Julian Date of a civil date.
func DateToMJD(y, m, d int) int { return int(daysFromCivil(int64(y), m, d) + mjdToUnixDays) }

func bcd(b byte) int { return int(b>>4)*10 + int(b&0xf) }

func toBCD(v int) byte { return byte(v/10)<<4 | byte(v%10) }

// DecodeDVBTime decodes the 40-bit UTC_time / start_time field (EN 300 468 Annex C): 16 bit MJD + 6 BCD digits.
func DecodeDVBTime(b []byte) (time.Time, error) {
	if len(b) < 5 {
		return time.Time{}, ErrShort
	}
	mjd := int(b[0])<<8 | int(b[1])
	y, m, d := MJDToDate(mjd)
	secs := bcd(b[2])*3600 + bcd(b[3])*60 + bcd(b[4])
	return time.Date(y, time.Month(m), d, 0, 0, 0, 0, time.UTC).Add(time.Duration(secs) * time.Second), nil
}

// EncodeDVBTime encodes a UTC time (sub-second part dropped).
func EncodeDVBTime(t time.Time) []byte {
	t = t.UTC()
	mjd := DateToMJD(t.Year(), int(t.Month()), t.Day())
	return []byte{byte(mjd >> 8), byte(mjd), toBCD(t.Hour()), toBCD(t.Minute()), toBCD(t.Second())}
}

// DecodeBCDHM / HMS decode the 4 / 6 digit BCD durations digit-wise.
func DecodeBCDHM(b []byte) time.Duration {
	return time.Duration(bcd(b[0]))*time.Hour + time.Duration(bcd(b[1]))*time.Minute
}

func DecodeBCDHMS(b []byte) time.Duration {
	return time.Duration(bcd(b[0]))*time.Hour + time.Duration(bcd(b[1]))*time.Minute + time.Duration(bcd(b[2]))*time.Second
}

func EncodeBCDHM(d time.Duration) []byte {
	s := int64(d / time.Second)
	return []byte{toBCD(int(s / 3600)), toBCD(int(s / 60 % 60))}
}

func EncodeBCDHMS(d time.Duration) []byte {
	s := int64(d / time.Second)
	return []byte{toBCD(int(s / 3600)), toBCD(int(s / 60 % 60)), toBCD(int(s % 60))}
}

func selfCheckDVB() error {
	// EN 300 468 Annex C example: 93/10/13 12:45:00 is coded as 0xC079124500
	tm, _ := DecodeDVBTime([]byte{0xC0, 0x79, 0x12, 0x45, 0x00})
	if !tm.Equal(time.Date(1993, 10, 13, 12, 45, 0, 0, time.UTC)) {
		return fmt.Errorf("MJD anchor 0xC079 decodes to %v", tm)
	}
	if DateToMJD(1858, 11, 17) != 0 || DateToMJD(1900, 3, 1) != 15079 || DateToMJD(2038, 4, 22) != 65535 || DateToMJD(1970, 1, 1) != 40587 {
		return fmt.Errorf("MJD anchors wrong")
	}
	// cross-check against time.Date normalisation on a coarse grid and round trip
	base := time.Date(1858, 11, 17, 0, 0, 0, 0, time.UTC)
	for mjd := 15079; mjd <= 65535; mjd += 7 {
		y, m, d := MJDToDate(mjd)
		want := base.AddDate(0, 0, mjd)
		if want.Year() != y || int(want.Month()) != m || want.Day() != d {
			return fmt.Errorf("MJD %d -> %d-%d-%d, time package says %v", mjd, y, m, d, want)
		}
		if DateToMJD(y, m, d) != mjd {
			return fmt.Errorf("MJD %d does not round trip", mjd)
		}
	}
	return nil
}
