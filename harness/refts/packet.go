package refts

import (
	"errors"
	"fmt"

	astits "github.com/asticode/go-astits"
)

// Transport packet and adaptation field, ISO/IEC 13818-1 2.4.3.2 – 2.4.3.5.

const PacketSize = 188

var ErrNonConformant = errors.New("refts: packet is not conformant")

func clock42(w *W, c *astits.ClockReference) { // PCR / OPCR: base 33, reserved 6, extension 9
	w.U(uint64(c.Base), 33)
	w.Res(6)
	w.U(uint64(c.Extension), 9)
}

// ts33 writes a 33 bit time stamp in the 3/15/15 layout with marker bits after a 4 bit prefix.
func ts33(w *W, prefix uint64, v int64) {
	w.U(prefix, 4)
	w.U(uint64(v)>>30, 3)
	w.Bit(true)
	w.U(uint64(v)>>15, 15)
	w.Bit(true)
	w.U(uint64(v), 15)
	w.Bit(true)
}

func readTS33(r *R) (prefix uint64, v int64) {
	prefix = r.U(4)
	a := r.U(3)
	r.Skip(1)
	b := r.U(15)
	r.Skip(1)
	c := r.U(15)
	r.Skip(1)
	return prefix, int64(a<<30 | b<<15 | c)
}

// AFBody encodes the adaptation field *after* its length byte, following the write contract of the struct:
// flags and optional parts from the Has* fields, StuffingLength stuffing bytes.
func afBody(w *W, a *astits.PacketAdaptationField) error {
	w.Bit(a.DiscontinuityIndicator)
	w.Bit(a.RandomAccessIndicator)
	w.Bit(a.ElementaryStreamPriorityIndicator)
	w.Bit(a.HasPCR)
	w.Bit(a.HasOPCR)
	w.Bit(a.HasSplicingCountdown)
	w.Bit(a.HasTransportPrivateData)
	w.Bit(a.HasAdaptationExtensionField)
	if a.HasPCR {
		if a.PCR == nil {
			return fmt.Errorf("refts: HasPCR without PCR")
		}
		clock42(w, a.PCR)
	}
	if a.HasOPCR {
		if a.OPCR == nil {
			return fmt.Errorf("refts: HasOPCR without OPCR")
		}
		clock42(w, a.OPCR)
	}
	if a.HasSplicingCountdown {
		w.U(uint64(a.SpliceCountdown)&0xff, 8)
	}
	if a.HasTransportPrivateData {
		w.U(uint64(len(a.TransportPrivateData)), 8)
		w.Bytes(a.TransportPrivateData)
	}
	if a.HasAdaptationExtensionField {
		e := a.AdaptationExtensionField
		if e == nil {
			return fmt.Errorf("refts: extension flag without extension")
		}
		x := &W{Rnd: w.Rnd}
		x.Bit(e.HasLegalTimeWindow)
		x.Bit(e.HasPiecewiseRate)
		x.Bit(e.HasSeamlessSplice)
		x.Res(5)
		if e.HasLegalTimeWindow {
			x.Bit(e.LegalTimeWindowIsValid)
			x.U(uint64(e.LegalTimeWindowOffset), 15)
		}
		if e.HasPiecewiseRate {
			x.Res(2)
			x.U(uint64(e.PiecewiseRate), 22)
		}
		if e.HasSeamlessSplice {
			if e.DTSNextAccessUnit == nil {
				return fmt.Errorf("refts: seamless splice without DTS")
			}
			ts33(x, uint64(e.SpliceType), e.DTSNextAccessUnit.Base)
		}
		for i := 0; i < e.ReservedLength; i++ {
			x.U(0xff, 8)
		}
		w.U(uint64(x.Len()), 8)
		w.Bytes(x.B)
	}
	for i := 0; i < a.StuffingLength; i++ {
		w.U(0xff, 8)
	}
	return nil
}

// EncodePacketRaw returns sync byte + header + adaptation field + payload without padding.
func EncodePacketRaw(p *astits.Packet, rnd *W) ([]byte, error) {
	w := &W{}
	if rnd != nil {
		w.Rnd = rnd.Rnd
	}
	h := p.Header
	w.U(0x47, 8)
	w.Bit(h.TransportErrorIndicator)
	w.Bit(h.PayloadUnitStartIndicator)
	w.Bit(h.TransportPriority)
	w.U(uint64(h.PID), 13)
	w.U(uint64(h.TransportScramblingControl), 2)
	w.Bit(h.HasAdaptationField)
	w.Bit(h.HasPayload)
	w.U(uint64(h.ContinuityCounter), 4)
	if h.HasAdaptationField {
		a := p.AdaptationField
		if a == nil {
			return nil, fmt.Errorf("refts: adaptation flag without field")
		}
		if a.IsOneByteStuffing {
			w.U(0, 8)
		} else {
			b := &W{Rnd: w.Rnd}
			if err := afBody(b, a); err != nil {
				return nil, err
			}
			if b.Len() > 183 {
				return nil, fmt.Errorf("refts: adaptation field of %d bytes", b.Len())
			}
			w.U(uint64(b.Len()), 8)
			w.Bytes(b.B)
		}
	}
	if h.HasPayload {
		w.Bytes(p.Payload)
	}
	return w.B, nil
}

// EncodePacket returns the reference encoding of p padded with 0xFF to 188 bytes.
func EncodePacket(p *astits.Packet, rnd *W) ([]byte, error) {
	b, err := EncodePacketRaw(p, rnd)
	if err != nil {
		return nil, err
	}
	if len(b) > PacketSize {
		return nil, fmt.Errorf("refts: packet of %d bytes", len(b))
	}
	for len(b) < PacketSize {
		b = append(b, 0xff)
	}
	return b, nil
}

// DecodePacket decodes one 188 byte packet. Conformance problems (no sync byte, adaptation_field_control 00, adaptation
// field not matching the packet, stuffing other than 0xFF, internal lengths exceeding the field) return ErrNonConformant.
func DecodePacket(b []byte) (*astits.Packet, error) {
	if len(b) != PacketSize {
		return nil, fmt.Errorf("%w: %d bytes", ErrNonConformant, len(b))
	}
	r := &R{B: b}
	if r.U(8) != 0x47 {
		return nil, fmt.Errorf("%w: no sync byte", ErrNonConformant)
	}
	p := &astits.Packet{}
	h := &p.Header
	h.TransportErrorIndicator = r.Bit()
	h.PayloadUnitStartIndicator = r.Bit()
	h.TransportPriority = r.Bit()
	h.PID = uint16(r.U(13))
	h.TransportScramblingControl = uint8(r.U(2))
	h.HasAdaptationField = r.Bit()
	h.HasPayload = r.Bit()
	h.ContinuityCounter = uint8(r.U(4))
	if !h.HasAdaptationField && !h.HasPayload {
		return p, fmt.Errorf("%w: adaptation_field_control 00", ErrNonConformant)
	}
	if h.HasAdaptationField {
		l := int(r.U(8))
		if h.HasPayload && l > 182 || !h.HasPayload && l != 183 {
			return p, fmt.Errorf("%w: adaptation_field_length %d with payload=%v", ErrNonConformant, l, h.HasPayload)
		}
		a, err := decodeAF(r.Take(l))
		if err != nil {
			return p, err
		}
		p.AdaptationField = a
	}
	if h.HasPayload {
		p.Payload = r.Take(r.Left())
	}
	return p, nil
}

func readClock42(r *R) *astits.ClockReference {
	base := r.U(33)
	r.Skip(6)
	ext := r.U(9)
	return &astits.ClockReference{Base: int64(base), Extension: int64(ext)}
}

func decodeAF(b []byte) (*astits.PacketAdaptationField, error) {
	a := &astits.PacketAdaptationField{Length: len(b)}
	if len(b) == 0 {
		return a, nil
	}
	r := &R{B: b}
	a.DiscontinuityIndicator = r.Bit()
	a.RandomAccessIndicator = r.Bit()
	a.ElementaryStreamPriorityIndicator = r.Bit()
	a.HasPCR = r.Bit()
	a.HasOPCR = r.Bit()
	a.HasSplicingCountdown = r.Bit()
	a.HasTransportPrivateData = r.Bit()
	a.HasAdaptationExtensionField = r.Bit()
	if a.HasPCR {
		a.PCR = readClock42(r)
	}
	if a.HasOPCR {
		a.OPCR = readClock42(r)
	}
	if a.HasSplicingCountdown {
		a.SpliceCountdown = int(int8(r.U(8))) // tcimsbf: two's complement (ISO 13818-1 2.4.3.4/2.4.3.5)
	}
	if a.HasTransportPrivateData {
		n := int(r.U(8))
		a.TransportPrivateDataLength = n
		a.TransportPrivateData = r.Take(n)
	}
	if a.HasAdaptationExtensionField {
		n := int(r.U(8))
		eb := r.Take(n)
		if r.Err == nil {
			e := &astits.PacketAdaptationExtensionField{Length: n}
			x := &R{B: eb}
			e.HasLegalTimeWindow = x.Bit()
			e.HasPiecewiseRate = x.Bit()
			e.HasSeamlessSplice = x.Bit()
			x.Skip(5)
			if e.HasLegalTimeWindow {
				e.LegalTimeWindowIsValid = x.Bit()
				e.LegalTimeWindowOffset = uint16(x.U(15))
			}
			if e.HasPiecewiseRate {
				x.Skip(2)
				e.PiecewiseRate = uint32(x.U(22))
			}
			if e.HasSeamlessSplice {
				st, v := readTS33(x)
				e.SpliceType = uint8(st)
				e.DTSNextAccessUnit = &astits.ClockReference{Base: v}
			}
			if x.Err != nil {
				return a, fmt.Errorf("%w: adaptation extension overruns its length", ErrNonConformant)
			}
			// for (i = 0; i < N; i++) reserved: whole bytes of ones close the extension
			for _, rb := range x.Take(x.Left()) {
				if rb != 0xff {
					return a, fmt.Errorf("%w: reserved bytes of the adaptation extension are not all ones", ErrNonConformant)
				}
				e.ReservedLength++
			}
			a.AdaptationExtensionField = e
		}
	}
	if r.Err != nil {
		return a, fmt.Errorf("%w: adaptation field parts overrun adaptation_field_length", ErrNonConformant)
	}
	a.StuffingLength = r.Left()
	for _, s := range r.Take(r.Left()) {
		if s != 0xff {
			return a, fmt.Errorf("%w: stuffing byte %#x", ErrNonConformant, s)
		}
	}
	return a, nil
}

// Reframe converts a stream of 188 byte packets into the library's 188+k convention: sync byte, k extra bytes, the other
// 187 bytes. extra supplies the extra bytes (k per packet).
func Reframe(ts []byte, k int, extra func(pkt, i int) byte) []byte {
	n := len(ts) / PacketSize
	out := make([]byte, 0, n*(PacketSize+k))
	for p := 0; p < n; p++ {
		pk := ts[p*PacketSize : (p+1)*PacketSize]
		out = append(out, pk[0])
		for i := 0; i < k; i++ {
			out = append(out, extra(p, i))
		}
		out = append(out, pk[1:]...)
	}
	return out
}
