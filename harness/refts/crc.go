package refts

// CRC32 is CRC-32/MPEG-2 computed with a bit-serial shift register (ISO/IEC 13818-1 Annex A):
// polynomial x^32+x^26+x^23+x^22+x^16+x^12+x^11+x^10+x^8+x^7+x^5+x^4+x^2+x+1, register preset to all ones,
// data fed most significant bit first, no reflection, no final inversion.
func CRC32(msg []byte) uint32 { return CRC32Update(^uint32(0), msg) }

// CRC32Update feeds msg into the shift register state s.
func CRC32Update(s uint32, msg []byte) uint32 {
	for _, b := range msg {
		s = CRC32Step(s, b)
	}
	return s
}

// polyTaps lists the exponents of the generator polynomial below 32.
var polyTaps = [...]uint{26, 23, 22, 16, 12, 11, 10, 8, 7, 5, 4, 2, 1, 0}

func poly() uint32 {
	var p uint32
	for _, t := range polyTaps {
		p |= 1 << t
	}
	return p
}

var polyV = poly()

// CRC32Step feeds one byte, bit by bit.
func CRC32Step(s uint32, b byte) uint32 {
	for i := 7; i >= 0; i-- {
		in := uint32(b>>uint(i)) & 1
		top := s >> 31
		s <<= 1
		if top^in == 1 {
			s ^= polyV
		}
	}
	return s
}
