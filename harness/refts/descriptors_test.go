package refts_test

import (
	"bytes"
	"errors"
	"fmt"
	"math/rand/v2"
	"reflect"
	"testing"
	"time"

	"github.com/asticode/go-astits"

	"verifharness/gen"
	"verifharness/refts"
)

var timeType = reflect.TypeOf(time.Time{})

// normEqual is a deep-equal in which nil and empty slices are equal, a nil pointer to a slice equals a pointer to an
// empty slice, and time.Time values are compared with Equal. It returns the path of the first difference.
func normEqual(a, b reflect.Value, path string) error {
	if a.Type() != b.Type() {
		return fmt.Errorf("%s: types %v / %v", path, a.Type(), b.Type())
	}
	switch a.Kind() {
	case reflect.Ptr:
		if a.Type().Elem().Kind() == reflect.Slice {
			la, lb := 0, 0
			if !a.IsNil() {
				la = a.Elem().Len()
			}
			if !b.IsNil() {
				lb = b.Elem().Len()
			}
			if la == 0 && lb == 0 {
				return nil
			}
		}
		if a.IsNil() != b.IsNil() {
			return fmt.Errorf("%s: nil=%v / nil=%v", path, a.IsNil(), b.IsNil())
		}
		if a.IsNil() {
			return nil
		}
		return normEqual(a.Elem(), b.Elem(), path)
	case reflect.Slice:
		if a.Len() != b.Len() {
			return fmt.Errorf("%s: len %d / %d", path, a.Len(), b.Len())
		}
		for i := 0; i < a.Len(); i++ {
			if err := normEqual(a.Index(i), b.Index(i), fmt.Sprintf("%s[%d]", path, i)); err != nil {
				return err
			}
		}
		return nil
	case reflect.Struct:
		if a.Type() == timeType {
			ta, tb := a.Interface().(time.Time), b.Interface().(time.Time)
			if !ta.Equal(tb) {
				return fmt.Errorf("%s: %v / %v", path, ta, tb)
			}
			return nil
		}
		for i := 0; i < a.NumField(); i++ {
			if err := normEqual(a.Field(i), b.Field(i), path+"."+a.Type().Field(i).Name); err != nil {
				return err
			}
		}
		return nil
	default:
		if a.Interface() != b.Interface() {
			return fmt.Errorf("%s: %v / %v", path, a.Interface(), b.Interface())
		}
		return nil
	}
}

func descEqual(a, b *astits.Descriptor) error {
	return normEqual(reflect.ValueOf(a), reflect.ValueOf(b), "d")
}

// typedPartCount counts the non-nil typed pointers / non-empty payload fields of a descriptor.
func typedPartCount(d *astits.Descriptor) int {
	n := 0
	v := reflect.ValueOf(d).Elem()
	for i := 0; i < v.NumField(); i++ {
		f := v.Field(i)
		if (f.Kind() == reflect.Ptr && !f.IsNil()) || (f.Kind() == reflect.Slice && f.Len() > 0) {
			n++
		}
	}
	return n
}

func newRand(seed uint64) *rand.Rand { return rand.New(rand.NewPCG(seed, 0x9E3779B97F4A7C15)) }

func pickMaxBody(r *rand.Rand) int {
	if r.IntN(2) == 0 {
		return 255
	}
	return gen.Len(r, 255)
}

func TestDescriptorRoundTrip(t *testing.T) {
	type class struct {
		name string
		tag  func(r *rand.Rand) uint8
	}
	var classes []class
	for _, tag := range gen.TypedTags() {
		tag := tag
		classes = append(classes, class{fmt.Sprintf("typed_%02X", tag), func(*rand.Rand) uint8 { return tag }})
	}
	if len(classes) != 23 {
		t.Fatalf("%d typed tags", len(classes))
	}
	typed := map[uint8]bool{}
	for _, tag := range gen.TypedTags() {
		typed[tag] = true
	}
	classes = append(classes,
		class{"user_defined", func(r *rand.Rand) uint8 { return 0x80 + uint8(r.IntN(0x7F)) }},
		class{"unknown", func(r *rand.Rand) uint8 {
			for {
				tag := uint8(r.IntN(256))
				if !typed[tag] && (tag < 0x80 || tag == 0xFF) {
					return tag
				}
			}
		}},
	)
	const perClass = 20000
	for ci, c := range classes {
		c := c
		seed := uint64(1000 + ci)
		t.Run(c.name, func(t *testing.T) {
			r := newRand(seed)
			sawZero, sawMax := false, false
			for i := 0; i < perClass; i++ {
				tag, maxBody := c.tag(r), pickMaxBody(r)
				d := gen.Descriptor(r, tag, maxBody)
				if d.Tag != tag && !(d.Tag == 0x80 && int(d.Length) == maxBody) {
					t.Fatalf("#%d: asked for tag 0x%02X maxBody %d, got tag 0x%02X length %d", i, tag, maxBody, d.Tag, d.Length)
				}
				if want := 1; d.Length == 0 {
					if typedPartCount(d) != 0 {
						t.Fatalf("#%d tag 0x%02X: zero-length descriptor with a payload: %+v", i, d.Tag, d)
					}
				} else if typedPartCount(d) != want {
					t.Fatalf("#%d tag 0x%02X: %d payload fields set: %+v", i, d.Tag, typedPartCount(d), d)
				}
				w := &refts.W{}
				if i%2 == 1 {
					w.Rnd = r // reserved bits must not matter
				}
				if err := refts.EncodeDescriptor(w, d); err != nil {
					t.Fatalf("#%d tag 0x%02X: encode: %v\n%+v", i, d.Tag, err, d)
				}
				b := w.B
				if len(b) < 2 || b[0] != d.Tag || int(b[1]) != len(b)-2 {
					t.Fatalf("#%d tag 0x%02X: header % X for %d bytes", i, d.Tag, b[:min(2, len(b))], len(b))
				}
				if int(d.Length) != len(b)-2 {
					t.Fatalf("#%d tag 0x%02X: generator Length %d, encoded body %d", i, d.Tag, d.Length, len(b)-2)
				}
				if len(b)-2 > maxBody {
					t.Fatalf("#%d tag 0x%02X: body %d > maxBody %d", i, d.Tag, len(b)-2, maxBody)
				}
				if n, err := refts.DescriptorBodyLen(d); err != nil || n != len(b)-2 {
					t.Fatalf("#%d tag 0x%02X: DescriptorBodyLen = %d, %v; body %d", i, d.Tag, n, err, len(b)-2)
				}
				sawZero = sawZero || len(b) == 2
				sawMax = sawMax || len(b)-2 == 255

				lw := &refts.W{Rnd: w.Rnd}
				if err := refts.EncodeDescriptorLoop(lw, []*astits.Descriptor{d}); err != nil {
					t.Fatal(err)
				}
				if len(lw.B) != len(b)+2 || int(lw.B[0]&0x0F)<<8|int(lw.B[1]) != len(b) {
					t.Fatalf("#%d: loop header % X for a %d byte descriptor", i, lw.B[:2], len(b))
				}
				if w.Rnd == nil && !bytes.Equal(lw.B[2:], b) {
					t.Fatalf("#%d: loop content differs from the single descriptor", i)
				}
				rd := &refts.R{B: lw.B}
				got, err := refts.DecodeDescriptorLoop(rd)
				if err != nil {
					t.Fatalf("#%d tag 0x%02X: decode % X: %v", i, d.Tag, lw.B, err)
				}
				if len(got) != 1 || rd.Left() != 0 {
					t.Fatalf("#%d tag 0x%02X: %d descriptors, %d bytes left", i, d.Tag, len(got), rd.Left())
				}
				if err := descEqual(d, got[0]); err != nil {
					t.Fatalf("#%d tag 0x%02X: round trip differs at %v\nbytes % X", i, d.Tag, err, lw.B)
				}
			}
			// every class can reach 255 bytes except the fixed-size ones
			if !sawMax {
				switch c.name {
				case "typed_06", "typed_0A", "typed_0E", "typed_0F", "typed_28", "typed_52", "typed_5F":
				case "typed_58": // 19 * 13 = 247
				case "typed_54", "typed_55", "typed_59": // item sizes 2, 4, 8 do not divide 255
				default:
					t.Errorf("no 255-byte body generated")
				}
			}
			_ = sawZero
		})
	}
}

func TestDescriptorLoopMixed(t *testing.T) {
	r := newRand(77)
	maxCount, total := 0, 0
	for i := 0; i < 20000; i++ {
		maxBytes := [...]int{0, 1, 2, 3, 64, 255, 1021, 4095}[r.IntN(8)]
		if r.IntN(2) == 0 {
			maxBytes = r.IntN(4096)
		}
		ds := gen.Descriptors(r, maxBytes)
		w := &refts.W{}
		if i%2 == 1 {
			w.Rnd = r
		}
		w.U(0xAB, 8) // something before the loop
		if err := refts.EncodeDescriptorLoop(w, ds); err != nil {
			t.Fatalf("#%d: %v", i, err)
		}
		w.U(0xCD, 8) // and after
		want := 0
		for _, d := range ds {
			want += 2 + int(d.Length)
		}
		if want > maxBytes {
			t.Fatalf("#%d: loop of %d bytes > maxBytes %d", i, want, maxBytes)
		}
		if len(w.B) != 1+2+want+1 {
			t.Fatalf("#%d: %d bytes emitted, want %d", i, len(w.B), 4+want)
		}
		if w.Rnd == nil && w.B[1]>>4 != 0xF {
			t.Fatalf("#%d: reserved bits %X", i, w.B[1]>>4)
		}
		rd := &refts.R{B: w.B}
		if rd.U(8) != 0xAB {
			t.Fatal("prefix")
		}
		got, err := refts.DecodeDescriptorLoop(rd)
		if err != nil {
			t.Fatalf("#%d: decode: %v", i, err)
		}
		if rd.U(8) != 0xCD || rd.Left() != 0 || rd.Err != nil {
			t.Fatalf("#%d: loop did not end where it should", i)
		}
		if len(got) != len(ds) {
			t.Fatalf("#%d: %d descriptors decoded, %d encoded", i, len(got), len(ds))
		}
		for k := range ds {
			if err := descEqual(ds[k], got[k]); err != nil {
				t.Fatalf("#%d descriptor %d (tag 0x%02X): %v", i, k, ds[k].Tag, err)
			}
		}
		maxCount = max(maxCount, len(ds))
		total += len(ds)
	}
	if maxCount < 100 || total < 50000 {
		t.Errorf("generator too timid: max %d descriptors in a loop, %d in total", maxCount, total)
	}
}

// Known answers worked out by hand from the syntax tables (reserved bits are ones).
func TestDescriptorKnownAnswers(t *testing.T) {
	u := []byte{0x7E}
	cases := []struct {
		name string
		d    *astits.Descriptor
		want []byte
	}{
		{"ac3", &astits.Descriptor{Tag: 0x6A, AC3: &astits.DescriptorAC3{HasComponentType: true, ComponentType: 0x42, HasASVC: true, ASVC: 0x9C, AdditionalInfo: []byte{0xDE, 0xAD}}},
			[]byte{0x6A, 0x05, 0x9F, 0x42, 0x9C, 0xDE, 0xAD}},
		{"eac3", &astits.Descriptor{Tag: 0x7A, EnhancedAC3: &astits.DescriptorEnhancedAC3{HasBSID: true, BSID: 0x10, MixInfoExists: true, HasSubStream1: true, SubStream1: 0x21, HasSubStream3: true, SubStream3: 0x23, AdditionalInfo: []byte{0x01}}},
			[]byte{0x7A, 0x05, 0x4D, 0x10, 0x21, 0x23, 0x01}},
		{"avc", &astits.Descriptor{Tag: 0x28, AVCVideo: &astits.DescriptorAVCVideo{ProfileIDC: 100, ConstraintSet1Flag: true, CompatibleFlags: 3, LevelIDC: 40, AVCStillPresent: true}},
			[]byte{0x28, 0x04, 0x64, 0x43, 0x28, 0xBF}},
		{"component", &astits.Descriptor{Tag: 0x50, Component: &astits.DescriptorComponent{StreamContentExt: 0xF, StreamContent: 1, ComponentType: 3, ComponentTag: 7, ISO639LanguageCode: []byte("eng"), Text: []byte("x")}},
			[]byte{0x50, 0x07, 0xF1, 0x03, 0x07, 'e', 'n', 'g', 'x'}},
		{"content", &astits.Descriptor{Tag: 0x54, Content: &astits.DescriptorContent{Items: []*astits.DescriptorContentItem{{ContentNibbleLevel1: 1, ContentNibbleLevel2: 4, UserByte: 0x99}, {ContentNibbleLevel1: 0xA, ContentNibbleLevel2: 0, UserByte: 0}}}},
			[]byte{0x54, 0x04, 0x14, 0x99, 0xA0, 0x00}},
		{"alignment", &astits.Descriptor{Tag: 0x06, DataStreamAlignment: &astits.DescriptorDataStreamAlignment{Type: 2}},
			[]byte{0x06, 0x01, 0x02}},
		{"extended_event", &astits.Descriptor{Tag: 0x4E, ExtendedEvent: &astits.DescriptorExtendedEvent{Number: 1, LastDescriptorNumber: 2, ISO639LanguageCode: []byte("eng"), Items: []*astits.DescriptorExtendedEventItem{{Description: []byte("ab"), Content: []byte("c")}}, Text: []byte("hi")}},
			[]byte{0x4E, 0x0D, 0x12, 'e', 'n', 'g', 0x05, 0x02, 'a', 'b', 0x01, 'c', 0x02, 'h', 'i'}},
		{"supplementary_audio", &astits.Descriptor{Tag: 0x7F, Extension: &astits.DescriptorExtension{Tag: 0x06, SupplementaryAudio: &astits.DescriptorExtensionSupplementaryAudio{MixType: true, EditorialClassification: 1, HasLanguageCode: true, LanguageCode: []byte("fra"), PrivateData: []byte{0x55}}}},
			[]byte{0x7F, 0x06, 0x06, 0x87, 'f', 'r', 'a', 0x55}},
		{"extension_other", &astits.Descriptor{Tag: 0x7F, Extension: &astits.DescriptorExtension{Tag: 0x04, Unknown: &u}},
			[]byte{0x7F, 0x02, 0x04, 0x7E}},
		{"iso639", &astits.Descriptor{Tag: 0x0A, ISO639LanguageAndAudioType: &astits.DescriptorISO639LanguageAndAudioType{Language: []byte("deu"), Type: 3}},
			[]byte{0x0A, 0x04, 'd', 'e', 'u', 0x03}},
		{"local_time_offset", &astits.Descriptor{Tag: 0x58, LocalTimeOffset: &astits.DescriptorLocalTimeOffset{Items: []*astits.DescriptorLocalTimeOffsetItem{{CountryCode: []byte("FRA"), CountryRegionID: 0, LocalTimeOffsetPolarity: false, LocalTimeOffset: time.Hour, TimeOfChange: time.Date(1993, 10, 13, 12, 45, 0, 0, time.UTC), NextTimeOffset: 2*time.Hour + 30*time.Minute}}}},
			[]byte{0x58, 0x0D, 'F', 'R', 'A', 0x02, 0x01, 0x00, 0xC0, 0x79, 0x12, 0x45, 0x00, 0x02, 0x30}},
		{"local_time_offset_region", &astits.Descriptor{Tag: 0x58, LocalTimeOffset: &astits.DescriptorLocalTimeOffset{Items: []*astits.DescriptorLocalTimeOffsetItem{{CountryCode: []byte("AUS"), CountryRegionID: 0x21, LocalTimeOffsetPolarity: true, LocalTimeOffset: 10 * time.Hour, TimeOfChange: time.Date(1993, 10, 13, 0, 0, 59, 0, time.UTC), NextTimeOffset: 11 * time.Hour}}}},
			[]byte{0x58, 0x0D, 'A', 'U', 'S', 0x87, 0x10, 0x00, 0xC0, 0x79, 0x00, 0x00, 0x59, 0x11, 0x00}},
		{"maximum_bitrate", &astits.Descriptor{Tag: 0x0E, MaximumBitrate: &astits.DescriptorMaximumBitrate{Bitrate: 0x2ABCDE * 50}},
			[]byte{0x0E, 0x03, 0xEA, 0xBC, 0xDE}},
		{"network_name", &astits.Descriptor{Tag: 0x40, NetworkName: &astits.DescriptorNetworkName{Name: []byte("net")}},
			[]byte{0x40, 0x03, 'n', 'e', 't'}},
		{"parental_rating", &astits.Descriptor{Tag: 0x55, ParentalRating: &astits.DescriptorParentalRating{Items: []*astits.DescriptorParentalRatingItem{{CountryCode: []byte("GBR"), Rating: 0x0F}}}},
			[]byte{0x55, 0x04, 'G', 'B', 'R', 0x0F}},
		{"private_data_indicator", &astits.Descriptor{Tag: 0x0F, PrivateDataIndicator: &astits.DescriptorPrivateDataIndicator{Indicator: 0x01020304}},
			[]byte{0x0F, 0x04, 0x01, 0x02, 0x03, 0x04}},
		{"private_data_specifier", &astits.Descriptor{Tag: 0x5F, PrivateDataSpecifier: &astits.DescriptorPrivateDataSpecifier{Specifier: 0x00000028}},
			[]byte{0x5F, 0x04, 0x00, 0x00, 0x00, 0x28}},
		{"registration", &astits.Descriptor{Tag: 0x05, Registration: &astits.DescriptorRegistration{FormatIdentifier: 0x48444D56, AdditionalIdentificationInfo: []byte{0xFF}}},
			[]byte{0x05, 0x05, 'H', 'D', 'M', 'V', 0xFF}},
		{"service", &astits.Descriptor{Tag: 0x48, Service: &astits.DescriptorService{Type: 1, Provider: []byte("pr"), Name: []byte("nam")}},
			[]byte{0x48, 0x08, 0x01, 0x02, 'p', 'r', 0x03, 'n', 'a', 'm'}},
		{"short_event", &astits.Descriptor{Tag: 0x4D, ShortEvent: &astits.DescriptorShortEvent{Language: []byte("eng"), EventName: []byte("n"), Text: nil}},
			[]byte{0x4D, 0x06, 'e', 'n', 'g', 0x01, 'n', 0x00}},
		{"stream_identifier", &astits.Descriptor{Tag: 0x52, StreamIdentifier: &astits.DescriptorStreamIdentifier{ComponentTag: 0x2A}},
			[]byte{0x52, 0x01, 0x2A}},
		{"subtitling", &astits.Descriptor{Tag: 0x59, Subtitling: &astits.DescriptorSubtitling{Items: []*astits.DescriptorSubtitlingItem{{Language: []byte("deu"), Type: 0x10, CompositionPageID: 1, AncillaryPageID: 0x0203}}}},
			[]byte{0x59, 0x08, 'd', 'e', 'u', 0x10, 0x00, 0x01, 0x02, 0x03}},
		{"teletext", &astits.Descriptor{Tag: 0x56, Teletext: &astits.DescriptorTeletext{Items: []*astits.DescriptorTeletextItem{{Language: []byte("eng"), Type: 2, Magazine: 1, Page: 88}}}},
			[]byte{0x56, 0x05, 'e', 'n', 'g', 0x11, 0x88}},
		{"vbi_teletext", &astits.Descriptor{Tag: 0x46, VBITeletext: &astits.DescriptorTeletext{Items: []*astits.DescriptorTeletextItem{{Language: []byte("swe"), Type: 0x1F, Magazine: 0, Page: 7}}}},
			[]byte{0x46, 0x05, 's', 'w', 'e', 0xF8, 0x07}},
		{"vbi_data", &astits.Descriptor{Tag: 0x45, VBIData: &astits.DescriptorVBIData{Services: []*astits.DescriptorVBIDataService{{DataServiceID: 1, Descriptors: []*astits.DescriptorVBIDataDescriptor{{FieldParity: true, LineOffset: 7}, {FieldParity: false, LineOffset: 22}}}, {DataServiceID: 3}}}},
			[]byte{0x45, 0x06, 0x01, 0x02, 0xE7, 0xD6, 0x03, 0x00}},
		{"user_defined", &astits.Descriptor{Tag: 0x83, UserDefined: []byte{1, 2}}, []byte{0x83, 0x02, 0x01, 0x02}},
		{"unknown", &astits.Descriptor{Tag: 0x02, Unknown: &astits.DescriptorUnknown{Tag: 0x02, Content: []byte{9}}}, []byte{0x02, 0x01, 0x09}},
		{"typed_nil", &astits.Descriptor{Tag: 0x28}, []byte{0x28, 0x00}},
	}
	var all []*astits.Descriptor
	var allBytes []byte
	for _, c := range cases {
		w := &refts.W{}
		if err := refts.EncodeDescriptor(w, c.d); err != nil {
			t.Errorf("%s: %v", c.name, err)
			continue
		}
		if !bytes.Equal(w.B, c.want) {
			t.Errorf("%s: encoded % X, want % X", c.name, w.B, c.want)
		}
		// decode the hand-made bytes with the reserved bits flipped to zero where the case has some: covered by the
		// random tests; here decode the expected bytes as they are.
		loop := append([]byte{0xF0, byte(len(c.want))}, c.want...)
		got, err := refts.DecodeDescriptorLoop(&refts.R{B: loop})
		if err != nil || len(got) != 1 {
			t.Errorf("%s: decode: %v (%d descriptors)", c.name, err, len(got))
			continue
		}
		exp := *c.d
		exp.Length = uint8(len(c.want) - 2)
		if err := descEqual(&exp, got[0]); err != nil {
			t.Errorf("%s: decoded model differs: %v", c.name, err)
		}
		all = append(all, &exp)
		allBytes = append(allBytes, c.want...)
	}
	w := &refts.W{}
	if err := refts.EncodeDescriptorLoop(w, all); err != nil {
		t.Fatal(err)
	}
	want := append([]byte{0xF0 | byte(len(allBytes)>>8), byte(len(allBytes))}, allBytes...)
	if !bytes.Equal(w.B, want) {
		t.Errorf("loop of all cases: % X, want % X", w.B, want)
	}
}

func TestDescriptorRejects(t *testing.T) {
	loop := func(b ...byte) *refts.R {
		return &refts.R{B: append([]byte{0x00 | byte(len(b)>>8), byte(len(b))}, b...)}
	}
	bad := map[string][]byte{
		"avc short":                 {0x28, 0x03, 0x64, 0x43, 0x28},
		"avc long":                  {0x28, 0x05, 0x64, 0x43, 0x28, 0xBF, 0x00},
		"content half item":         {0x54, 0x03, 0x14, 0x99, 0xA0},
		"iso639 two entries":        {0x0A, 0x08, 'd', 'e', 'u', 0x03, 'e', 'n', 'g', 0x00},
		"iso639 short":              {0x0A, 0x03, 'd', 'e', 'u'},
		"service name overruns":     {0x48, 0x05, 0x01, 0x00, 0x03, 'a', 'b'},
		"service trailing":          {0x48, 0x04, 0x01, 0x00, 0x00, 0x00},
		"short event no text len":   {0x4D, 0x05, 'e', 'n', 'g', 0x01, 'n'},
		"extended item overruns":    {0x4E, 0x09, 0x12, 'e', 'n', 'g', 0x03, 0x02, 'a', 'b', 0x00},
		"extended items overrun":    {0x4E, 0x06, 0x12, 'e', 'n', 'g', 0x03, 0x00},
		"ac3 flag without byte":     {0x6A, 0x01, 0x8F},
		"eac3 flags without bytes":  {0x7A, 0x02, 0x07, 0x00},
		"supp audio no language":    {0x7F, 0x04, 0x06, 0x01, 'f', 'r'},
		"supp audio only tag":       {0x7F, 0x01, 0x06},
		"lto 12 bytes":              {0x58, 0x0C, 'F', 'R', 'A', 0x02, 0x01, 0x00, 0xC0, 0x79, 0x12, 0x45, 0x00, 0x02},
		"max bitrate short":         {0x0E, 0x02, 0xEA, 0xBC},
		"parental 5 bytes":          {0x55, 0x05, 'G', 'B', 'R', 0x0F, 0x00},
		"registration short":        {0x05, 0x03, 'H', 'D', 'M'},
		"subtitling 7 bytes":        {0x59, 0x07, 'd', 'e', 'u', 0x10, 0x00, 0x01, 0x02},
		"teletext 6 bytes":          {0x56, 0x06, 'e', 'n', 'g', 0x11, 0x88, 0x00},
		"vbi lines overrun":         {0x45, 0x03, 0x01, 0x02, 0xE7},
		"vbi reserved overrun":      {0x45, 0x03, 0x03, 0x02, 0xE7},
		"vbi dangling id":           {0x45, 0x03, 0x01, 0x00, 0x01},
		"stream identifier 2 bytes": {0x52, 0x02, 0x2A, 0x00},
		"component short":           {0x50, 0x05, 0xF1, 0x03, 0x07, 'e', 'n'},
	}
	for name, b := range bad {
		if _, err := refts.DecodeDescriptorLoop(loop(b...)); !errors.Is(err, refts.ErrBadDescriptor) {
			t.Errorf("%s: error %v, want ErrBadDescriptor", name, err)
		}
	}
	short := map[string]*refts.R{
		"no header":              {B: []byte{0xF0}},
		"loop longer than input": {B: []byte{0xF0, 0x04, 0x52, 0x01, 0x2A}},
		"dangling tag":           loop(0x52, 0x01, 0x2A, 0x52),
		"descriptor overruns":    loop(0x52, 0x01, 0x2A, 0x80, 0x02, 0x00),
	}
	for name, r := range short {
		if _, err := refts.DecodeDescriptorLoop(r); !errors.Is(err, refts.ErrShort) || errors.Is(err, refts.ErrBadDescriptor) {
			t.Errorf("%s: error %v, want ErrShort", name, err)
		}
	}
	// reserved VBI bytes are skipped, zero-length descriptors have no payload
	got, err := refts.DecodeDescriptorLoop(loop(0x45, 0x06, 0x03, 0x02, 0xAA, 0xBB, 0x04, 0x00, 0x28, 0x00, 0x90, 0x00, 0x03, 0x00))
	if err != nil || len(got) != 4 {
		t.Fatalf("%v, %d descriptors", err, len(got))
	}
	if s := got[0].VBIData.Services; len(s) != 2 || s[0].DataServiceID != 3 || len(s[0].Descriptors) != 0 || s[1].DataServiceID != 4 || len(s[1].Descriptors) != 0 {
		t.Errorf("VBI data with reserved bytes: %+v", s)
	}
	for _, d := range got[1:] {
		if typedPartCount(d) != 0 || d.Length != 0 {
			t.Errorf("zero-length descriptor 0x%02X decoded with a payload: %+v", d.Tag, d)
		}
	}

	// models that cannot be represented
	lang := []byte("eng")
	unenc := map[string]*astits.Descriptor{
		"body of 256 bytes":     {Tag: 0x40, NetworkName: &astits.DescriptorNetworkName{Name: make([]byte, 256)}},
		"user defined 256":      {Tag: 0x80, UserDefined: make([]byte, 256)},
		"2-byte language":       {Tag: 0x0A, ISO639LanguageAndAudioType: &astits.DescriptorISO639LanguageAndAudioType{Language: []byte("en")}},
		"compatible flags wide": {Tag: 0x28, AVCVideo: &astits.DescriptorAVCVideo{CompatibleFlags: 32}},
		"nibble wide":           {Tag: 0x54, Content: &astits.DescriptorContent{Items: []*astits.DescriptorContentItem{{ContentNibbleLevel2: 16}}}},
		"bitrate not x50":       {Tag: 0x0E, MaximumBitrate: &astits.DescriptorMaximumBitrate{Bitrate: 51}},
		"bitrate too large":     {Tag: 0x0E, MaximumBitrate: &astits.DescriptorMaximumBitrate{Bitrate: (1 << 22) * 50}},
		"page 100":              {Tag: 0x56, Teletext: &astits.DescriptorTeletext{Items: []*astits.DescriptorTeletextItem{{Language: lang, Page: 100}}}},
		"vbi lines on id 3":     {Tag: 0x45, VBIData: &astits.DescriptorVBIData{Services: []*astits.DescriptorVBIDataService{{DataServiceID: 3, Descriptors: []*astits.DescriptorVBIDataDescriptor{{}}}}}},
		"offset with seconds":   {Tag: 0x58, LocalTimeOffset: &astits.DescriptorLocalTimeOffset{Items: []*astits.DescriptorLocalTimeOffsetItem{{CountryCode: lang, LocalTimeOffset: time.Second, TimeOfChange: time.Date(2000, 1, 1, 0, 0, 0, 0, time.UTC)}}}},
		"date after MJD 65535":  {Tag: 0x58, LocalTimeOffset: &astits.DescriptorLocalTimeOffset{Items: []*astits.DescriptorLocalTimeOffsetItem{{CountryCode: lang, TimeOfChange: time.Date(2038, 4, 23, 0, 0, 0, 0, time.UTC)}}}},
		"supp audio missing":    {Tag: 0x7F, Extension: &astits.DescriptorExtension{Tag: 0x06}},
	}
	for name, d := range unenc {
		w := &refts.W{}
		if err := refts.EncodeDescriptor(w, d); !errors.Is(err, refts.ErrBadDescriptor) || len(w.B) != 0 {
			t.Errorf("%s: error %v, %d bytes written", name, err, len(w.B))
		}
		if _, err := refts.DescriptorBodyLen(d); !errors.Is(err, refts.ErrBadDescriptor) {
			t.Errorf("%s: DescriptorBodyLen error %v", name, err)
		}
	}
	var many []*astits.Descriptor
	for i := 0; i < 16; i++ {
		many = append(many, &astits.Descriptor{Tag: 0x80, UserDefined: make([]byte, 254)})
	}
	w := &refts.W{}
	if err := refts.EncodeDescriptorLoop(w, many); err == nil || len(w.B) != 0 {
		t.Errorf("4096-byte loop: error %v, %d bytes written", err, len(w.B))
	}
	if err := refts.EncodeDescriptorLoop(w, append(many[:15:15], &astits.Descriptor{Tag: 0x80, UserDefined: make([]byte, 253)})); err != nil || len(w.B) != 2+4095 {
		t.Errorf("4095-byte loop: error %v, %d bytes written", err, len(w.B))
	}
}

// Arbitrary bytes never panic; whatever decodes and re-encodes decodes again to the same model.
func TestDescriptorDecodeArbitrary(t *testing.T) {
	r := newRand(4242)
	okCount, reenc := 0, 0
	for i := 0; i < 200000; i++ {
		n := r.IntN(40)
		body := gen.Bytes(r, n)
		tag := gen.RandomTag(r)
		b := append([]byte{byte(r.IntN(16)) << 4, byte(n + 2), tag, byte(n)}, body...)
		if r.IntN(4) == 0 { // fully random loop content
			b = append([]byte{0xF0, byte(n)}, body...)
		}
		got, err := refts.DecodeDescriptorLoop(&refts.R{B: b})
		if err != nil {
			if !errors.Is(err, refts.ErrBadDescriptor) && !errors.Is(err, refts.ErrShort) {
				t.Fatalf("% X: unexpected error %v", b, err)
			}
			continue
		}
		okCount++
		w := &refts.W{}
		if err := refts.EncodeDescriptorLoop(w, got); err != nil {
			if !errors.Is(err, refts.ErrBadDescriptor) {
				t.Fatalf("% X: re-encode: %v", b, err)
			}
			continue // e.g. hexadecimal teletext page digits
		}
		reenc++
		hasVBI := false // reserved bytes of VBI data services are not kept by the model
		for _, d := range got {
			hasVBI = hasVBI || d.Tag == 0x45
		}
		if hasVBI {
			continue
		}
		if len(w.B) != len(b) {
			t.Fatalf("% X: re-encoded to %d bytes: % X", b, len(w.B), w.B)
		}
		again, err := refts.DecodeDescriptorLoop(&refts.R{B: w.B})
		if err != nil || len(again) != len(got) {
			t.Fatalf("% X: second decode: %v", b, err)
		}
		for k := range got {
			if err := descEqual(got[k], again[k]); err != nil {
				t.Fatalf("% X: second decode differs: %v", b, err)
			}
		}
	}
	if okCount < 20000 || reenc < 10000 {
		t.Errorf("only %d decodable and %d re-encodable inputs", okCount, reenc)
	}
}
