package refts

import (
	"bytes"
	"fmt"

	astits "github.com/asticode/go-astits"
)

// SelfCheck validates the reference codec against fixed anchors and its own round trips. It runs at the start of every
// check; a failure makes the run inconclusive, never a violation.
func SelfCheck() error {
	if c := CRC32([]byte("123456789")); c != 0x0376E6E7 {
		return fmt.Errorf("CRC-32/MPEG-2 check value %#x", c)
	}
	if c := CRC32(nil); c != 0xFFFFFFFF {
		return fmt.Errorf("CRC of empty message %#x", c)
	}
	// a well known PAT section (single program 1 -> PID 0x1000, tsid 1) as emitted by common multiplexers
	pat := []byte{0x00, 0xb0, 0x0d, 0x00, 0x01, 0xc1, 0x00, 0x00, 0x00, 0x01, 0xf0, 0x00, 0x2a, 0xb1, 0x04, 0xb2}
	if c := CRC32(pat[:12]); c != 0x2ab104b2 {
		return fmt.Errorf("CRC of the anchor PAT %#x", c)
	}
	s, err := DecodeSection(&R{B: pat})
	if err != nil {
		return fmt.Errorf("anchor PAT: %v", err)
	}
	if len(s.Syntax.Data.PAT.Programs) != 1 || s.Syntax.Data.PAT.Programs[0].ProgramMapID != 0x1000 || s.Syntax.Data.PAT.Programs[0].ProgramNumber != 1 || s.Syntax.Header.VersionNumber != 0 || !s.Syntax.Header.CurrentNextIndicator {
		return fmt.Errorf("anchor PAT decoded wrongly")
	}
	enc, err := EncodeSection(s, nil)
	if err != nil || !bytes.Equal(enc, pat) {
		return fmt.Errorf("anchor PAT does not re-encode: %x (%v)", enc, err)
	}
	if err := selfCheckDVB(); err != nil {
		return err
	}
	// packet round trip with every optional part
	p := &astits.Packet{
		Header: astits.PacketHeader{PID: 0x1abc, ContinuityCounter: 9, HasAdaptationField: true, HasPayload: true, PayloadUnitStartIndicator: true, TransportScramblingControl: 2},
		AdaptationField: &astits.PacketAdaptationField{
			RandomAccessIndicator: true, HasPCR: true, PCR: &astits.ClockReference{Base: 1<<33 - 1, Extension: 299},
			HasOPCR: true, OPCR: &astits.ClockReference{Base: 1 << 32, Extension: 1},
			HasSplicingCountdown: true, SpliceCountdown: -2,
			HasTransportPrivateData: true, TransportPrivateData: []byte{1, 2, 3}, TransportPrivateDataLength: 3,
			HasAdaptationExtensionField: true,
			AdaptationExtensionField: &astits.PacketAdaptationExtensionField{HasLegalTimeWindow: true, LegalTimeWindowIsValid: true, LegalTimeWindowOffset: 0x7fff,
				HasPiecewiseRate: true, PiecewiseRate: 0x3fffff, HasSeamlessSplice: true, SpliceType: 0xa, DTSNextAccessUnit: &astits.ClockReference{Base: 0x1_5555_5555}},
			StuffingLength: 7,
		},
	}
	raw, err := EncodePacketRaw(p, nil)
	if err != nil {
		return err
	}
	p.Payload = bytes.Repeat([]byte{0x42}, PacketSize-len(raw))
	b, err := EncodePacket(p, nil)
	if err != nil {
		return err
	}
	q, err := DecodePacket(b)
	if err != nil {
		return fmt.Errorf("packet self check: %v", err)
	}
	if q.Header != p.Header || q.AdaptationField.PCR.Base != 1<<33-1 || q.AdaptationField.PCR.Extension != 299 || q.AdaptationField.OPCR.Base != 1<<32 ||
		q.AdaptationField.SpliceCountdown != -2 || !bytes.Equal(q.AdaptationField.TransportPrivateData, []byte{1, 2, 3}) ||
		q.AdaptationField.AdaptationExtensionField.PiecewiseRate != 0x3fffff || q.AdaptationField.AdaptationExtensionField.LegalTimeWindowOffset != 0x7fff ||
		q.AdaptationField.AdaptationExtensionField.DTSNextAccessUnit.Base != 0x1_5555_5555 || q.AdaptationField.AdaptationExtensionField.SpliceType != 0xa ||
		q.AdaptationField.StuffingLength != 7 || !bytes.Equal(q.Payload, p.Payload) {
		return fmt.Errorf("packet does not round trip through the reference codec")
	}
	// hand-assembled header bytes: PUSI, PID 0x1abc, scrambling 2, AF+payload, cc 9
	if b[0] != 0x47 || b[1] != 0x40|0x1a || b[2] != 0xbc || b[3] != 0x80|0x30|9 {
		return fmt.Errorf("packet header bytes %x", b[:4])
	}
	// PES anchor: PTS 0x1_2345_6789 → '0010' 100 1 000110100010101 1 110011110001001 1
	h := &astits.PESHeader{StreamID: 0xc0, OptionalHeader: &astits.PESOptionalHeader{PTSDTSIndicator: 2, PTS: &astits.ClockReference{Base: 0x123456789}}}
	pes, err := EncodePES(h, []byte{0xde, 0xad}, PESEnc{}, nil)
	if err != nil {
		return err
	}
	want := []byte{0, 0, 1, 0xc0, 0, 10, 0x80, 0x80, 5, 0x29, 0x1a, 0x2b, 0xcf, 0x13, 0xde, 0xad}
	// 0x123456789: bits32..30=100 → byte0 = 0010 100 1 = 0x29 ; bits29..15 = 0x468A<<0? computed below instead of trusted
	v := uint64(0x123456789)
	want[9] = byte(0x20 | (v>>30&7)<<1 | 1)
	mid := v >> 15 & 0x7fff
	want[10] = byte(mid >> 7)
	want[11] = byte(mid<<1) | 1
	low := v & 0x7fff
	want[12] = byte(low >> 7)
	want[13] = byte(low<<1) | 1
	if !bytes.Equal(pes, want) {
		return fmt.Errorf("PES anchor %x != %x", pes, want)
	}
	d, err := DecodePES(pes)
	if err != nil || d.Header.OptionalHeader.PTS.Base != 0x123456789 || !bytes.Equal(d.Data, []byte{0xde, 0xad}) || d.Header.PacketLength != 10 {
		return fmt.Errorf("PES anchor does not decode")
	}
	return nil
}
