package refts

// Descriptor codec written from the syntax tables of ISO/IEC 13818-1 clause 2.6 (registration 2.6.8, data stream
// alignment 2.6.10, ISO 639 language 2.6.18, maximum bitrate 2.6.26, private data indicator 2.6.28, AVC video 2.6.64)
// and ETSI EN 300 468 clause 6.2 (DVB descriptors), 6.4 (extension descriptors) and Annex D (AC-3 / enhanced AC-3).
// Only the exported struct types of the library are used, as the data model.

import (
	"errors"
	"fmt"
	"time"

	"github.com/asticode/go-astits"
)

// ErrBadDescriptor is wrapped by every error reporting that a descriptor body (or, when encoding, a model) does not
// fit the syntax of its tag.
var ErrBadDescriptor = errors.New("refts: descriptor body does not match its syntax")

// descriptor_tag values: ISO/IEC 13818-1 table 2-45 and EN 300 468 table 12; descriptor_tag_extension: table 109.
const (
	tagRegistration         = 0x05
	tagDataStreamAlignment  = 0x06
	tagISO639Language       = 0x0A
	tagMaximumBitrate       = 0x0E
	tagPrivateDataIndicator = 0x0F
	tagAVCVideo             = 0x28
	tagNetworkName          = 0x40
	tagVBIData              = 0x45
	tagVBITeletext          = 0x46
	tagService              = 0x48
	tagShortEvent           = 0x4D
	tagExtendedEvent        = 0x4E
	tagComponent            = 0x50
	tagStreamIdentifier     = 0x52
	tagContent              = 0x54
	tagParentalRating       = 0x55
	tagTeletext             = 0x56
	tagLocalTimeOffset      = 0x58
	tagSubtitling           = 0x59
	tagPrivateDataSpecifier = 0x5F
	tagAC3                  = 0x6A
	tagEnhancedAC3          = 0x7A
	tagExtension            = 0x7F

	extTagSupplementaryAudio = 0x06

	maxDescriptorBody = 255  // descriptor_length is 8 bits
	maxLoopBytes      = 4095 // loop lengths are 12 bits
)

func isUserDefinedTag(tag uint8) bool { return tag >= 0x80 && tag <= 0xFE }

// vbiServiceHasLines: EN 300 468 6.2.47, data_service_id values whose descriptor bytes carry field_parity/line_offset.
func vbiServiceHasLines(id uint8) bool {
	return id == 1 || id == 2 || id == 4 || id == 5 || id == 6 || id == 7
}

// VBIReservedBytes is the number of reserved bytes the reference encoding gives a VBI data service whose id has no line entries.
func VBIReservedBytes(id uint8) int {
	if vbiServiceHasLines(id) {
		return 0
	}
	return int(id>>2) % 4
}

func badf(format string, a ...any) error {
	return fmt.Errorf("%w: %s", ErrBadDescriptor, fmt.Sprintf(format, a...))
}

// ---------------------------------------------------------------------------------------------------------------------
// encoding

// enc writes a descriptor body and remembers the first reason why the model cannot be represented.
type enc struct {
	w   *W
	tag uint8
	err error
}

func (e *enc) fail(format string, a ...any) {
	if e.err == nil {
		e.err = badf("tag 0x%02X: %s", e.tag, fmt.Sprintf(format, a...))
	}
}

// u writes an n-bit field; a value that does not fit is not representable.
func (e *enc) u(name string, v uint64, n int) {
	if n < 64 && v>>uint(n) != 0 {
		e.fail("%s = %d does not fit %d bits", name, v, n)
	}
	e.w.U(v, n)
}

func (e *enc) flag(v bool) { e.w.Bit(v) }

func (e *enc) res(n int) { e.w.Res(n) }

func (e *enc) raw(b []byte) { e.w.Bytes(b) }

// code3 writes a 24-bit ISO 639-2 / ISO 3166 character code.
func (e *enc) code3(name string, b []byte) {
	if len(b) != 3 {
		e.fail("%s must be 3 bytes, has %d", name, len(b))
		b = []byte{0, 0, 0}
	}
	e.w.Bytes(b)
}

// lv8 writes an 8-bit length followed by that many bytes.
func (e *enc) lv8(name string, b []byte) {
	if len(b) > 255 {
		e.fail("%s is %d bytes long", name, len(b))
		b = b[:255]
	}
	e.w.U(uint64(len(b)), 8)
	e.w.Bytes(b)
}

// bcdHM writes a 16-bit field of 4 BCD digits hhmm.
func (e *enc) bcdHM(name string, d time.Duration) {
	if d < 0 || d%time.Minute != 0 || d/time.Hour > 99 {
		e.fail("%s = %v is not representable as BCD hhmm", name, d)
		d = 0
	}
	e.w.Bytes(EncodeBCDHM(d))
}

// mjdUTC writes a 40-bit MJD + BCD hhmmss field.
func (e *enc) mjdUTC(name string, t time.Time) {
	t = t.UTC()
	mjd := DateToMJD(t.Year(), int(t.Month()), t.Day())
	if mjd < 0 || mjd > 0xFFFF || t.Nanosecond() != 0 {
		e.fail("%s = %v is not representable as MJD+BCD", name, t)
		t = time.Date(1858, 11, 17, 0, 0, 0, 0, time.UTC)
	}
	e.w.Bytes(EncodeDVBTime(t))
}

func b2u(b bool) uint64 {
	if b {
		return 1
	}
	return 0
}

// encodeBody writes the body selected by d.Tag. A typed tag whose typed part is nil has an empty body.
func encodeBody(w *W, d *astits.Descriptor) error {
	e := &enc{w: w, tag: d.Tag}
	switch d.Tag {
	case tagAC3: // EN 300 468 D.3
		if a := d.AC3; a != nil {
			e.flag(a.HasComponentType)
			e.flag(a.HasBSID)
			e.flag(a.HasMainID)
			e.flag(a.HasASVC)
			e.res(4)
			if a.HasComponentType {
				e.u("component_type", uint64(a.ComponentType), 8)
			}
			if a.HasBSID {
				e.u("bsid", uint64(a.BSID), 8)
			}
			if a.HasMainID {
				e.u("mainid", uint64(a.MainID), 8)
			}
			if a.HasASVC {
				e.u("asvc", uint64(a.ASVC), 8)
			}
			e.raw(a.AdditionalInfo)
		}
	case tagEnhancedAC3: // EN 300 468 D.5
		if a := d.EnhancedAC3; a != nil {
			e.flag(a.HasComponentType)
			e.flag(a.HasBSID)
			e.flag(a.HasMainID)
			e.flag(a.HasASVC)
			e.flag(a.MixInfoExists)
			e.flag(a.HasSubStream1)
			e.flag(a.HasSubStream2)
			e.flag(a.HasSubStream3)
			if a.HasComponentType {
				e.u("component_type", uint64(a.ComponentType), 8)
			}
			if a.HasBSID {
				e.u("bsid", uint64(a.BSID), 8)
			}
			if a.HasMainID {
				e.u("mainid", uint64(a.MainID), 8)
			}
			if a.HasASVC {
				e.u("asvc", uint64(a.ASVC), 8)
			}
			if a.HasSubStream1 {
				e.u("substream1", uint64(a.SubStream1), 8)
			}
			if a.HasSubStream2 {
				e.u("substream2", uint64(a.SubStream2), 8)
			}
			if a.HasSubStream3 {
				e.u("substream3", uint64(a.SubStream3), 8)
			}
			e.raw(a.AdditionalInfo)
		}
	case tagAVCVideo: // ISO/IEC 13818-1 2.6.64
		if a := d.AVCVideo; a != nil {
			e.u("profile_idc", uint64(a.ProfileIDC), 8)
			e.flag(a.ConstraintSet0Flag)
			e.flag(a.ConstraintSet1Flag)
			e.flag(a.ConstraintSet2Flag)
			e.u("AVC_compatible_flags", uint64(a.CompatibleFlags), 5)
			e.u("level_idc", uint64(a.LevelIDC), 8)
			e.flag(a.AVCStillPresent)
			e.flag(a.AVC24HourPictureFlag)
			e.res(6)
		}
	case tagComponent: // EN 300 468 6.2.8
		if c := d.Component; c != nil {
			e.u("stream_content_ext", uint64(c.StreamContentExt), 4)
			e.u("stream_content", uint64(c.StreamContent), 4)
			e.u("component_type", uint64(c.ComponentType), 8)
			e.u("component_tag", uint64(c.ComponentTag), 8)
			e.code3("ISO_639_language_code", c.ISO639LanguageCode)
			e.raw(c.Text)
		}
	case tagContent: // EN 300 468 6.2.9
		if c := d.Content; c != nil {
			for _, it := range c.Items {
				if it == nil {
					e.fail("nil content item")
					continue
				}
				e.u("content_nibble_level_1", uint64(it.ContentNibbleLevel1), 4)
				e.u("content_nibble_level_2", uint64(it.ContentNibbleLevel2), 4)
				e.u("user_byte", uint64(it.UserByte), 8)
			}
		}
	case tagDataStreamAlignment: // ISO/IEC 13818-1 2.6.10
		if a := d.DataStreamAlignment; a != nil {
			e.u("alignment_type", uint64(a.Type), 8)
		}
	case tagExtendedEvent: // EN 300 468 6.2.15
		if x := d.ExtendedEvent; x != nil {
			e.u("descriptor_number", uint64(x.Number), 4)
			e.u("last_descriptor_number", uint64(x.LastDescriptorNumber), 4)
			e.code3("ISO_639_language_code", x.ISO639LanguageCode)
			iw := &W{}
			ie := &enc{w: iw, tag: d.Tag}
			for _, it := range x.Items {
				if it == nil {
					e.fail("nil extended event item")
					continue
				}
				ie.lv8("item_description", it.Description)
				ie.lv8("item", it.Content)
			}
			if ie.err != nil && e.err == nil {
				e.err = ie.err
			}
			e.lv8("items", iw.B)
			e.lv8("text", x.Text)
		}
	case tagExtension: // EN 300 468 6.2.16, 6.4
		if x := d.Extension; x != nil {
			e.u("descriptor_tag_extension", uint64(x.Tag), 8)
			if x.Tag == extTagSupplementaryAudio { // 6.4.11
				s := x.SupplementaryAudio
				if s == nil {
					e.fail("supplementary audio extension without its typed part")
					break
				}
				e.flag(s.MixType)
				e.u("editorial_classification", uint64(s.EditorialClassification), 5)
				e.res(1)
				e.flag(s.HasLanguageCode)
				if s.HasLanguageCode {
					e.code3("ISO_639_language_code", s.LanguageCode)
				}
				e.raw(s.PrivateData)
			} else if x.Unknown != nil {
				e.raw(*x.Unknown)
			}
		}
	case tagISO639Language: // ISO/IEC 13818-1 2.6.18; the model holds exactly one entry
		if l := d.ISO639LanguageAndAudioType; l != nil {
			e.code3("ISO_639_language_code", l.Language)
			e.u("audio_type", uint64(l.Type), 8)
		}
	case tagLocalTimeOffset: // EN 300 468 6.2.20
		if l := d.LocalTimeOffset; l != nil {
			for _, it := range l.Items {
				if it == nil {
					e.fail("nil local time offset item")
					continue
				}
				e.code3("country_code", it.CountryCode)
				e.u("country_region_id", uint64(it.CountryRegionID), 6)
				e.res(1)
				e.flag(it.LocalTimeOffsetPolarity)
				e.bcdHM("local_time_offset", it.LocalTimeOffset)
				e.mjdUTC("time_of_change", it.TimeOfChange)
				e.bcdHM("next_time_offset", it.NextTimeOffset)
			}
		}
	case tagMaximumBitrate: // ISO/IEC 13818-1 2.6.26: units of 50 bytes/second
		if m := d.MaximumBitrate; m != nil {
			if m.Bitrate%50 != 0 {
				e.fail("bitrate %d is not a multiple of 50 bytes/s", m.Bitrate)
			}
			e.res(2)
			e.u("maximum_bitrate", uint64(m.Bitrate/50), 22)
		}
	case tagNetworkName: // EN 300 468 6.2.27
		if n := d.NetworkName; n != nil {
			e.raw(n.Name)
		}
	case tagParentalRating: // EN 300 468 6.2.28
		if p := d.ParentalRating; p != nil {
			for _, it := range p.Items {
				if it == nil {
					e.fail("nil parental rating item")
					continue
				}
				e.code3("country_code", it.CountryCode)
				e.u("rating", uint64(it.Rating), 8)
			}
		}
	case tagPrivateDataIndicator: // ISO/IEC 13818-1 2.6.28
		if p := d.PrivateDataIndicator; p != nil {
			e.u("private_data_indicator", uint64(p.Indicator), 32)
		}
	case tagPrivateDataSpecifier: // EN 300 468 6.2.31
		if p := d.PrivateDataSpecifier; p != nil {
			e.u("private_data_specifier", uint64(p.Specifier), 32)
		}
	case tagRegistration: // ISO/IEC 13818-1 2.6.8
		if g := d.Registration; g != nil {
			e.u("format_identifier", uint64(g.FormatIdentifier), 32)
			e.raw(g.AdditionalIdentificationInfo)
		}
	case tagService: // EN 300 468 6.2.33
		if s := d.Service; s != nil {
			e.u("service_type", uint64(s.Type), 8)
			e.lv8("service_provider_name", s.Provider)
			e.lv8("service_name", s.Name)
		}
	case tagShortEvent: // EN 300 468 6.2.37
		if s := d.ShortEvent; s != nil {
			e.code3("ISO_639_language_code", s.Language)
			e.lv8("event_name", s.EventName)
			e.lv8("text", s.Text)
		}
	case tagStreamIdentifier: // EN 300 468 6.2.39
		if s := d.StreamIdentifier; s != nil {
			e.u("component_tag", uint64(s.ComponentTag), 8)
		}
	case tagSubtitling: // EN 300 468 6.2.41
		if s := d.Subtitling; s != nil {
			for _, it := range s.Items {
				if it == nil {
					e.fail("nil subtitling item")
					continue
				}
				e.code3("ISO_639_language_code", it.Language)
				e.u("subtitling_type", uint64(it.Type), 8)
				e.u("composition_page_id", uint64(it.CompositionPageID), 16)
				e.u("ancillary_page_id", uint64(it.AncillaryPageID), 16)
			}
		}
	case tagTeletext: // EN 300 468 6.2.43
		e.teletext(d.Teletext)
	case tagVBITeletext: // EN 300 468 6.2.48: same syntax as the teletext descriptor
		e.teletext(d.VBITeletext)
	case tagVBIData: // EN 300 468 6.2.47
		if v := d.VBIData; v != nil {
			for _, s := range v.Services {
				if s == nil {
					e.fail("nil VBI data service")
					continue
				}
				e.u("data_service_id", uint64(s.DataServiceID), 8)
				if !vbiServiceHasLines(s.DataServiceID) {
					if len(s.Descriptors) != 0 {
						e.fail("data_service_id %d cannot carry line descriptors", s.DataServiceID)
					}
					// the bytes of such a service are reserved: a decoder steps over them and keeps no line entry. The reference
					// encoding carries VBIReservedBytes(id) of them (a fixed function of the id, so that sizes stay predictable)
					n := VBIReservedBytes(s.DataServiceID)
					e.u("data_service_descriptor_length", uint64(n), 8)
					for k := 0; k < n; k++ {
						v := uint64(0xff)
						if e.w.Rnd != nil {
							v = uint64(e.w.Rnd.UintN(256))
						}
						e.u("reserved", v, 8)
					}
					continue
				}
				if len(s.Descriptors) > 255 {
					e.fail("%d line descriptors in one VBI data service", len(s.Descriptors))
					continue
				}
				e.u("data_service_descriptor_length", uint64(len(s.Descriptors)), 8)
				for _, l := range s.Descriptors {
					if l == nil {
						e.fail("nil VBI line descriptor")
						continue
					}
					e.res(2)
					e.flag(l.FieldParity)
					e.u("line_offset", uint64(l.LineOffset), 5)
				}
			}
		}
	default:
		if isUserDefinedTag(d.Tag) {
			e.raw(d.UserDefined)
		} else if d.Unknown != nil {
			e.raw(d.Unknown.Content)
		}
	}
	if e.err != nil {
		return e.err
	}
	if w.nbit != 0 {
		return fmt.Errorf("refts: internal error: body of tag 0x%02X is not byte aligned", d.Tag)
	}
	return nil
}

func (e *enc) teletext(t *astits.DescriptorTeletext) {
	if t == nil {
		return
	}
	for _, it := range t.Items {
		if it == nil {
			e.fail("nil teletext item")
			continue
		}
		e.code3("ISO_639_language_code", it.Language)
		e.u("teletext_type", uint64(it.Type), 5)
		e.u("teletext_magazine_number", uint64(it.Magazine), 3)
		if it.Page > 99 {
			e.fail("teletext page %d is not two decimal digits", it.Page)
		}
		e.u("teletext_page_number tens", uint64(it.Page/10), 4)
		e.u("teletext_page_number units", uint64(it.Page%10), 4)
	}
}

// putBytes appends whole bytes at any bit alignment.
func putBytes(w *W, b []byte) {
	if w.nbit == 0 {
		w.Bytes(b)
		return
	}
	for _, c := range b {
		w.U(uint64(c), 8)
	}
}

func descriptorBody(d *astits.Descriptor, rnd *W) ([]byte, error) {
	if d == nil {
		return nil, badf("nil descriptor")
	}
	bw := &W{}
	if rnd != nil {
		bw.Rnd = rnd.Rnd
	}
	if err := encodeBody(bw, d); err != nil {
		return nil, err
	}
	if len(bw.B) > maxDescriptorBody {
		return nil, badf("tag 0x%02X: body of %d bytes exceeds descriptor_length", d.Tag, len(bw.B))
	}
	return bw.B, nil
}

// DescriptorBodyLen returns the body length EncodeDescriptor would emit.
func DescriptorBodyLen(d *astits.Descriptor) (int, error) {
	b, err := descriptorBody(d, nil)
	return len(b), err
}

// EncodeDescriptor appends tag, descriptor_length and body. descriptor_length is computed from the body actually
// emitted; d.Length is ignored. The body is selected by d.Tag: the typed part of a typed tag, UserDefined for tags
// 0x80..0xFE, Unknown.Content otherwise. A nil part gives a zero-length descriptor (tag, 0). An error wrapping
// ErrBadDescriptor is returned, and nothing is appended, when the body exceeds 255 bytes or the model is not
// representable (a field value wider than its field, a code that is not 3 bytes, a non-BCD duration, ...).
func EncodeDescriptor(w *W, d *astits.Descriptor) error {
	body, err := descriptorBody(d, w)
	if err != nil {
		return err
	}
	w.U(uint64(d.Tag), 8)
	w.U(uint64(len(body)), 8)
	putBytes(w, body)
	return nil
}

// EncodeDescriptorLoop appends 4 reserved bits, the 12-bit loop length and the descriptors.
func EncodeDescriptorLoop(w *W, ds []*astits.Descriptor) error {
	lw := &W{Rnd: w.Rnd}
	for i, d := range ds {
		if err := EncodeDescriptor(lw, d); err != nil {
			return fmt.Errorf("descriptor %d: %w", i, err)
		}
	}
	if len(lw.B) > maxLoopBytes {
		return badf("descriptor loop of %d bytes exceeds the 12-bit loop length", len(lw.B))
	}
	w.Res(4)
	w.U(uint64(len(lw.B)), 12)
	putBytes(w, lw.B)
	return nil
}

// ---------------------------------------------------------------------------------------------------------------------
// decoding

// DecodeDescriptorLoop reads 4 reserved bits, the 12-bit loop length and the descriptors of that loop. Every descriptor
// accounts for exactly its declared length. A loop that is cut short, or whose last descriptor overruns the loop,
// gives an error wrapping ErrShort; a typed body that does not match the syntax of its tag (too short, an incomplete
// loop entry, bytes left over after the last field) gives an error wrapping ErrBadDescriptor.
func DecodeDescriptorLoop(r *R) ([]*astits.Descriptor, error) {
	r.Skip(4)
	n := int(r.U(12))
	var loop []byte
	if r.Err == nil && r.pos&7 == 0 {
		loop = r.Take(n)
	} else {
		loop = make([]byte, 0, n)
		for i := 0; i < n && r.Err == nil; i++ {
			loop = append(loop, byte(r.U(8)))
		}
	}
	if r.Err != nil {
		return nil, fmt.Errorf("descriptor loop: %w", r.Err)
	}
	var out []*astits.Descriptor
	for o := 0; o < len(loop); {
		if len(loop)-o < 2 {
			return nil, fmt.Errorf("descriptor loop: 1 dangling byte at offset %d: %w", o, ErrShort)
		}
		tag, l := loop[o], int(loop[o+1])
		o += 2
		if l > len(loop)-o {
			return nil, fmt.Errorf("descriptor 0x%02X at offset %d: length %d overruns the loop (%d left): %w", tag, o-2, l, len(loop)-o, ErrShort)
		}
		d := &astits.Descriptor{Tag: tag, Length: uint8(l)}
		if l > 0 {
			if err := decodeBody(d, loop[o:o+l]); err != nil {
				return nil, err
			}
		}
		o += l
		out = append(out, d)
	}
	return out, nil
}

func u8(r *R) uint8 { return uint8(r.U(8)) }

func rest(r *R) []byte { return r.Take(r.Left()) }

// decodeBody decodes a non-empty body, which must be consumed exactly.
func decodeBody(d *astits.Descriptor, body []byte) error {
	r := &R{B: body}
	switch d.Tag {
	case tagAC3:
		a := &astits.DescriptorAC3{}
		a.HasComponentType = r.Bit()
		a.HasBSID = r.Bit()
		a.HasMainID = r.Bit()
		a.HasASVC = r.Bit()
		r.Skip(4)
		if a.HasComponentType {
			a.ComponentType = u8(r)
		}
		if a.HasBSID {
			a.BSID = u8(r)
		}
		if a.HasMainID {
			a.MainID = u8(r)
		}
		if a.HasASVC {
			a.ASVC = u8(r)
		}
		a.AdditionalInfo = rest(r)
		d.AC3 = a
	case tagEnhancedAC3:
		a := &astits.DescriptorEnhancedAC3{}
		a.HasComponentType = r.Bit()
		a.HasBSID = r.Bit()
		a.HasMainID = r.Bit()
		a.HasASVC = r.Bit()
		a.MixInfoExists = r.Bit()
		a.HasSubStream1 = r.Bit()
		a.HasSubStream2 = r.Bit()
		a.HasSubStream3 = r.Bit()
		if a.HasComponentType {
			a.ComponentType = u8(r)
		}
		if a.HasBSID {
			a.BSID = u8(r)
		}
		if a.HasMainID {
			a.MainID = u8(r)
		}
		if a.HasASVC {
			a.ASVC = u8(r)
		}
		if a.HasSubStream1 {
			a.SubStream1 = u8(r)
		}
		if a.HasSubStream2 {
			a.SubStream2 = u8(r)
		}
		if a.HasSubStream3 {
			a.SubStream3 = u8(r)
		}
		a.AdditionalInfo = rest(r)
		d.EnhancedAC3 = a
	case tagAVCVideo:
		a := &astits.DescriptorAVCVideo{}
		a.ProfileIDC = u8(r)
		a.ConstraintSet0Flag = r.Bit()
		a.ConstraintSet1Flag = r.Bit()
		a.ConstraintSet2Flag = r.Bit()
		a.CompatibleFlags = uint8(r.U(5))
		a.LevelIDC = u8(r)
		a.AVCStillPresent = r.Bit()
		a.AVC24HourPictureFlag = r.Bit()
		r.Skip(6)
		d.AVCVideo = a
	case tagComponent:
		c := &astits.DescriptorComponent{}
		c.StreamContentExt = uint8(r.U(4))
		c.StreamContent = uint8(r.U(4))
		c.ComponentType = u8(r)
		c.ComponentTag = u8(r)
		c.ISO639LanguageCode = r.Take(3)
		c.Text = rest(r)
		d.Component = c
	case tagContent:
		c := &astits.DescriptorContent{}
		for r.Left() > 0 && r.Err == nil {
			it := &astits.DescriptorContentItem{}
			it.ContentNibbleLevel1 = uint8(r.U(4))
			it.ContentNibbleLevel2 = uint8(r.U(4))
			it.UserByte = u8(r)
			c.Items = append(c.Items, it)
		}
		d.Content = c
	case tagDataStreamAlignment:
		d.DataStreamAlignment = &astits.DescriptorDataStreamAlignment{Type: u8(r)}
	case tagExtendedEvent:
		x := &astits.DescriptorExtendedEvent{}
		x.Number = uint8(r.U(4))
		x.LastDescriptorNumber = uint8(r.U(4))
		x.ISO639LanguageCode = r.Take(3)
		ir := &R{B: r.Take(int(r.U(8)))}
		for ir.Left() > 0 && ir.Err == nil {
			it := &astits.DescriptorExtendedEventItem{}
			it.Description = ir.Take(int(ir.U(8)))
			it.Content = ir.Take(int(ir.U(8)))
			x.Items = append(x.Items, it)
		}
		if ir.Err != nil {
			return badf("tag 0x%02X: items do not fill length_of_items exactly", d.Tag)
		}
		x.Text = r.Take(int(r.U(8)))
		d.ExtendedEvent = x
	case tagExtension:
		x := &astits.DescriptorExtension{}
		x.Tag = u8(r)
		if x.Tag == extTagSupplementaryAudio {
			s := &astits.DescriptorExtensionSupplementaryAudio{}
			s.MixType = r.Bit()
			s.EditorialClassification = uint8(r.U(5))
			r.Skip(1)
			s.HasLanguageCode = r.Bit()
			if s.HasLanguageCode {
				s.LanguageCode = r.Take(3)
			}
			s.PrivateData = rest(r)
			x.SupplementaryAudio = s
		} else {
			b := rest(r)
			x.Unknown = &b
		}
		d.Extension = x
	case tagISO639Language:
		// The standard allows N entries of 4 bytes; the model holds one, so only N = 1 is decodable into it.
		if len(body) != 4 {
			return badf("tag 0x%02X: body of %d bytes does not hold exactly one language entry", d.Tag, len(body))
		}
		l := &astits.DescriptorISO639LanguageAndAudioType{}
		l.Language = r.Take(3)
		l.Type = u8(r)
		d.ISO639LanguageAndAudioType = l
	case tagLocalTimeOffset:
		l := &astits.DescriptorLocalTimeOffset{}
		for r.Left() > 0 && r.Err == nil {
			it := &astits.DescriptorLocalTimeOffsetItem{}
			it.CountryCode = r.Take(3)
			it.CountryRegionID = uint8(r.U(6))
			r.Skip(1)
			it.LocalTimeOffsetPolarity = r.Bit()
			lto, toc, nto := r.Take(2), r.Take(5), r.Take(2)
			if r.Err != nil {
				break
			}
			it.LocalTimeOffset = DecodeBCDHM(lto)
			it.TimeOfChange, _ = DecodeDVBTime(toc)
			it.NextTimeOffset = DecodeBCDHM(nto)
			l.Items = append(l.Items, it)
		}
		d.LocalTimeOffset = l
	case tagMaximumBitrate:
		r.Skip(2)
		d.MaximumBitrate = &astits.DescriptorMaximumBitrate{Bitrate: uint32(r.U(22)) * 50}
	case tagNetworkName:
		d.NetworkName = &astits.DescriptorNetworkName{Name: rest(r)}
	case tagParentalRating:
		p := &astits.DescriptorParentalRating{}
		for r.Left() > 0 && r.Err == nil {
			it := &astits.DescriptorParentalRatingItem{}
			it.CountryCode = r.Take(3)
			it.Rating = u8(r)
			p.Items = append(p.Items, it)
		}
		d.ParentalRating = p
	case tagPrivateDataIndicator:
		d.PrivateDataIndicator = &astits.DescriptorPrivateDataIndicator{Indicator: uint32(r.U(32))}
	case tagPrivateDataSpecifier:
		d.PrivateDataSpecifier = &astits.DescriptorPrivateDataSpecifier{Specifier: uint32(r.U(32))}
	case tagRegistration:
		g := &astits.DescriptorRegistration{}
		g.FormatIdentifier = uint32(r.U(32))
		g.AdditionalIdentificationInfo = rest(r)
		d.Registration = g
	case tagService:
		s := &astits.DescriptorService{}
		s.Type = u8(r)
		s.Provider = r.Take(int(r.U(8)))
		s.Name = r.Take(int(r.U(8)))
		d.Service = s
	case tagShortEvent:
		s := &astits.DescriptorShortEvent{}
		s.Language = r.Take(3)
		s.EventName = r.Take(int(r.U(8)))
		s.Text = r.Take(int(r.U(8)))
		d.ShortEvent = s
	case tagStreamIdentifier:
		d.StreamIdentifier = &astits.DescriptorStreamIdentifier{ComponentTag: u8(r)}
	case tagSubtitling:
		s := &astits.DescriptorSubtitling{}
		for r.Left() > 0 && r.Err == nil {
			it := &astits.DescriptorSubtitlingItem{}
			it.Language = r.Take(3)
			it.Type = u8(r)
			it.CompositionPageID = uint16(r.U(16))
			it.AncillaryPageID = uint16(r.U(16))
			s.Items = append(s.Items, it)
		}
		d.Subtitling = s
	case tagTeletext:
		d.Teletext = decodeTeletext(r)
	case tagVBITeletext:
		d.VBITeletext = decodeTeletext(r)
	case tagVBIData:
		v := &astits.DescriptorVBIData{}
		for r.Left() > 0 && r.Err == nil {
			s := &astits.DescriptorVBIDataService{}
			s.DataServiceID = u8(r)
			n := int(r.U(8))
			if vbiServiceHasLines(s.DataServiceID) {
				for i := 0; i < n && r.Err == nil; i++ {
					l := &astits.DescriptorVBIDataDescriptor{}
					r.Skip(2)
					l.FieldParity = r.Bit()
					l.LineOffset = uint8(r.U(5))
					s.Descriptors = append(s.Descriptors, l)
				}
			} else {
				r.Skip(8 * n) // reserved bytes
			}
			v.Services = append(v.Services, s)
		}
		d.VBIData = v
	default:
		if isUserDefinedTag(d.Tag) {
			d.UserDefined = rest(r)
		} else {
			d.Unknown = &astits.DescriptorUnknown{Content: rest(r), Tag: d.Tag}
		}
	}
	if r.Err != nil {
		return badf("tag 0x%02X: body of %d bytes is too short", d.Tag, len(body))
	}
	if r.pos&7 != 0 || r.Left() != 0 {
		return badf("tag 0x%02X: %d bytes left after the last field of a %d byte body", d.Tag, r.Left(), len(body))
	}
	return nil
}

func decodeTeletext(r *R) *astits.DescriptorTeletext {
	t := &astits.DescriptorTeletext{}
	for r.Left() > 0 && r.Err == nil {
		it := &astits.DescriptorTeletextItem{}
		it.Language = r.Take(3)
		it.Type = uint8(r.U(5))
		it.Magazine = uint8(r.U(3))
		tens, units := uint8(r.U(4)), uint8(r.U(4))
		it.Page = tens*10 + units
		t.Items = append(t.Items, it)
	}
	return t
}
