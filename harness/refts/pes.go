package refts

import (
	"fmt"

	astits "github.com/asticode/go-astits"
)

// PES packet, ISO/IEC 13818-1 2.4.3.6 / 2.4.3.7.

// NoOptionalHeader tells whether a stream_id carries PES_packet_data_bytes directly after PES_packet_length
// (Table 2-21: program_stream_map, padding_stream, private_stream_2, ECM, EMM, program_stream_directory, DSMCC, H.222.1 type E).
func NoOptionalHeader(id uint8) bool {
	switch id {
	case 0xBC, 0xBE, 0xBF, 0xF0, 0xF1, 0xFF, 0xF2, 0xF8:
		return true
	}
	return false
}

// PESEnc are encoding choices the struct does not carry.
type PESEnc struct {
	HeaderStuffing int  // stuffing bytes (0xFF) inside the optional header
	LengthZero     bool // write PES_packet_length = 0 (unbounded)
	LengthOverride int  // when >0: write this PES_packet_length whatever the real size
	NoHeaderIDs    func(id uint8) bool
}

func trickByte(w *W, m *astits.DSMTrickMode) {
	w.U(uint64(m.TrickModeControl), 3)
	switch m.TrickModeControl {
	case 0, 3: // fast forward, fast reverse
		w.U(uint64(m.FieldID), 2)
		w.U(uint64(m.IntraSliceRefresh), 1)
		w.U(uint64(m.FrequencyTruncation), 2)
	case 1, 4: // slow motion, slow reverse
		w.U(uint64(m.RepeatControl), 5)
	case 2: // freeze frame
		w.U(uint64(m.FieldID), 2)
		w.Res(3)
	default:
		w.Res(5)
	}
}

func decodeTrick(b byte) *astits.DSMTrickMode {
	r := &R{B: []byte{b}}
	m := &astits.DSMTrickMode{TrickModeControl: uint8(r.U(3))}
	switch m.TrickModeControl {
	case 0, 3:
		m.FieldID = uint8(r.U(2))
		m.IntraSliceRefresh = uint8(r.U(1))
		m.FrequencyTruncation = uint8(r.U(2))
	case 1, 4:
		m.RepeatControl = uint8(r.U(5))
	case 2:
		m.FieldID = uint8(r.U(2))
	}
	return m
}

// optFields encodes the fields that follow PES_header_data_length (without stuffing).
func optFields(w *W, h *astits.PESOptionalHeader) error {
	switch h.PTSDTSIndicator {
	case 2:
		if h.PTS == nil {
			return fmt.Errorf("refts: PTS missing")
		}
		ts33(w, 2, h.PTS.Base)
	case 3:
		if h.PTS == nil || h.DTS == nil {
			return fmt.Errorf("refts: PTS/DTS missing")
		}
		ts33(w, 3, h.PTS.Base)
		ts33(w, 1, h.DTS.Base)
	}
	if h.HasESCR {
		if h.ESCR == nil {
			return fmt.Errorf("refts: ESCR missing")
		}
		v := uint64(h.ESCR.Base)
		w.Res(2)
		w.U(v>>30, 3)
		w.Bit(true)
		w.U(v>>15, 15)
		w.Bit(true)
		w.U(v, 15)
		w.Bit(true)
		w.U(uint64(h.ESCR.Extension), 9)
		w.Bit(true)
	}
	if h.HasESRate {
		w.Bit(true)
		w.U(uint64(h.ESRate), 22)
		w.Bit(true)
	}
	if h.HasDSMTrickMode {
		if h.DSMTrickMode == nil {
			return fmt.Errorf("refts: trick mode missing")
		}
		trickByte(w, h.DSMTrickMode)
	}
	if h.HasAdditionalCopyInfo {
		w.Bit(true)
		w.U(uint64(h.AdditionalCopyInfo), 7)
	}
	if h.HasCRC {
		w.U(uint64(h.CRC), 16)
	}
	if h.HasExtension {
		w.Bit(h.HasPrivateData)
		w.Bit(h.HasPackHeaderField)
		w.Bit(h.HasProgramPacketSequenceCounter)
		w.Bit(h.HasPSTDBuffer)
		w.Res(3)
		w.Bit(h.HasExtension2)
		if h.HasPrivateData {
			pd := make([]byte, 16)
			copy(pd, h.PrivateData)
			w.Bytes(pd)
		}
		if h.HasPackHeaderField {
			// pack_field_length, then pack_header() of that many bytes; the struct keeps the length only, the bytes written are
			// a fixed pattern that is hostile to a parser which does not step over them (all flag and marker bits set)
			w.U(uint64(h.PackField), 8)
			for k := 0; k < int(h.PackField); k++ {
				w.U(uint64(0xA5^byte(k*37)), 8)
			}
		}
		if h.HasProgramPacketSequenceCounter {
			w.Bit(true)
			w.U(uint64(h.PacketSequenceCounter), 7)
			w.Bit(true)
			w.U(uint64(h.MPEG1OrMPEG2ID), 1)
			w.U(uint64(h.OriginalStuffingLength), 6)
		}
		if h.HasPSTDBuffer {
			w.U(1, 2)
			w.U(uint64(h.PSTDBufferScale), 1)
			w.U(uint64(h.PSTDBufferSize), 13)
		}
		if h.HasExtension2 {
			w.Bit(true)
			w.U(uint64(len(h.Extension2Data)), 7)
			w.Bytes(h.Extension2Data)
		}
	}
	return nil
}

// EncodePES returns the complete PES packet (start code … data).
func EncodePES(h *astits.PESHeader, data []byte, enc PESEnc, rnd *W) ([]byte, error) {
	w := &W{}
	if rnd != nil {
		w.Rnd = rnd.Rnd
	}
	w.U(1, 24)
	w.U(uint64(h.StreamID), 8)
	noHdr := NoOptionalHeader
	if enc.NoHeaderIDs != nil {
		noHdr = enc.NoHeaderIDs
	}
	var hdr []byte
	if !noHdr(h.StreamID) {
		o := h.OptionalHeader
		if o == nil {
			return nil, fmt.Errorf("refts: stream id %#x needs an optional header", h.StreamID)
		}
		x := &W{Rnd: w.Rnd}
		x.U(2, 2)
		x.U(uint64(o.ScramblingControl), 2)
		x.Bit(o.Priority)
		x.Bit(o.DataAlignmentIndicator)
		x.Bit(o.IsCopyrighted)
		x.Bit(o.IsOriginal)
		x.U(uint64(o.PTSDTSIndicator), 2)
		x.Bit(o.HasESCR)
		x.Bit(o.HasESRate)
		x.Bit(o.HasDSMTrickMode)
		x.Bit(o.HasAdditionalCopyInfo)
		x.Bit(o.HasCRC)
		x.Bit(o.HasExtension)
		f := &W{Rnd: w.Rnd}
		if err := optFields(f, o); err != nil {
			return nil, err
		}
		n := f.Len() + enc.HeaderStuffing
		if n > 255 {
			return nil, fmt.Errorf("refts: PES header data of %d bytes", n)
		}
		x.U(uint64(n), 8)
		x.Bytes(f.B)
		for i := 0; i < enc.HeaderStuffing; i++ {
			x.U(0xff, 8)
		}
		hdr = x.B
	}
	l := len(hdr) + len(data)
	switch {
	case enc.LengthOverride > 0:
		l = enc.LengthOverride
	case enc.LengthZero || l > 0xffff:
		l = 0
	}
	w.U(uint64(l), 16)
	w.Bytes(hdr)
	w.Bytes(data)
	return w.B, nil
}

// DecodePES decodes a complete PES unit as reassembled from TS payloads. Payload boundaries follow PES_packet_length:
// exactly that many bytes after the length field when non-zero (an error when fewer are available), everything when zero.
func DecodePES(b []byte) (*astits.PESData, error) {
	r := &R{B: b}
	if r.U(24) != 1 {
		return nil, fmt.Errorf("refts: no PES start code")
	}
	h := &astits.PESHeader{}
	h.StreamID = uint8(r.U(8))
	h.PacketLength = uint16(r.U(16))
	if r.Err != nil {
		return nil, r.Err
	}
	end := len(b)
	if h.PacketLength > 0 {
		end = 6 + int(h.PacketLength)
		if end > len(b) {
			return nil, fmt.Errorf("refts: PES_packet_length %d exceeds the %d available bytes", h.PacketLength, len(b)-6)
		}
	}
	d := &astits.PESData{Header: h}
	if NoOptionalHeader(h.StreamID) {
		d.Data = append([]byte{}, b[6:end]...)
		return d, nil
	}
	o := &astits.PESOptionalHeader{}
	h.OptionalHeader = o
	o.MarkerBits = uint8(r.U(2))
	o.ScramblingControl = uint8(r.U(2))
	o.Priority = r.Bit()
	o.DataAlignmentIndicator = r.Bit()
	o.IsCopyrighted = r.Bit()
	o.IsOriginal = r.Bit()
	o.PTSDTSIndicator = uint8(r.U(2))
	o.HasESCR = r.Bit()
	o.HasESRate = r.Bit()
	o.HasDSMTrickMode = r.Bit()
	o.HasAdditionalCopyInfo = r.Bit()
	o.HasCRC = r.Bit()
	o.HasExtension = r.Bit()
	o.HeaderLength = uint8(r.U(8))
	if r.Err != nil {
		return nil, r.Err
	}
	dataStart := r.Off() + int(o.HeaderLength)
	if dataStart > end {
		return nil, fmt.Errorf("refts: PES header runs past the packet end")
	}
	f := &R{B: b[r.Off():dataStart]}
	switch o.PTSDTSIndicator {
	case 2:
		_, v := readTS33(f)
		o.PTS = &astits.ClockReference{Base: v}
	case 3:
		_, v := readTS33(f)
		o.PTS = &astits.ClockReference{Base: v}
		_, v = readTS33(f)
		o.DTS = &astits.ClockReference{Base: v}
	}
	if o.HasESCR {
		f.Skip(2)
		a := f.U(3)
		f.Skip(1)
		bb := f.U(15)
		f.Skip(1)
		c := f.U(15)
		f.Skip(1)
		e := f.U(9)
		f.Skip(1)
		o.ESCR = &astits.ClockReference{Base: int64(a<<30 | bb<<15 | c), Extension: int64(e)}
	}
	if o.HasESRate {
		f.Skip(1)
		o.ESRate = uint32(f.U(22))
		f.Skip(1)
	}
	if o.HasDSMTrickMode {
		o.DSMTrickMode = decodeTrick(byte(f.U(8)))
	}
	if o.HasAdditionalCopyInfo {
		f.Skip(1)
		o.AdditionalCopyInfo = uint8(f.U(7))
	}
	if o.HasCRC {
		o.CRC = uint16(f.U(16))
	}
	if o.HasExtension {
		o.HasPrivateData = f.Bit()
		o.HasPackHeaderField = f.Bit()
		o.HasProgramPacketSequenceCounter = f.Bit()
		o.HasPSTDBuffer = f.Bit()
		f.Skip(3)
		o.HasExtension2 = f.Bit()
		if o.HasPrivateData {
			o.PrivateData = f.Take(16)
		}
		if o.HasPackHeaderField {
			o.PackField = uint8(f.U(8))
			f.Take(int(o.PackField))
		}
		if o.HasProgramPacketSequenceCounter {
			f.Skip(1)
			o.PacketSequenceCounter = uint8(f.U(7))
			f.Skip(1)
			o.MPEG1OrMPEG2ID = uint8(f.U(1))
			o.OriginalStuffingLength = uint8(f.U(6))
		}
		if o.HasPSTDBuffer {
			f.Skip(2)
			o.PSTDBufferScale = uint8(f.U(1))
			o.PSTDBufferSize = uint16(f.U(13))
		}
		if o.HasExtension2 {
			f.Skip(1)
			o.Extension2Length = uint8(f.U(7))
			o.Extension2Data = f.Take(int(o.Extension2Length))
		}
	}
	if f.Err != nil {
		return nil, fmt.Errorf("refts: PES header fields overrun PES_header_data_length")
	}
	d.Data = append([]byte{}, b[dataStart:end]...)
	return d, nil
}
