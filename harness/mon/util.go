package mon

import (
	"regexp"
	"strings"
)

var reDigits = regexp.MustCompile(`[0-9]+`)

func splitLines(s string) []string { return strings.Split(s, "\n") }

func indexOf(s, sub string) int { return strings.Index(s, sub) }

// Hex returns a clipped hex rendering for samples and witnesses.
func Hex(b []byte, max int) string {
	const hexd = "0123456789abcdef"
	n := len(b)
	if n > max {
		n = max
	}
	out := make([]byte, 0, 2*n+8)
	for _, c := range b[:n] {
		out = append(out, hexd[c>>4], hexd[c&15])
	}
	if len(b) > max {
		out = append(out, "…"...)
	}
	return string(out)
}
