package mon

import (
	"fmt"
	"reflect"
	"strings"
	"time"
)

var timeType = reflect.TypeOf(time.Time{})

// EqOpt tunes Diff.
type EqOpt struct {
	// Ignore lists struct field paths (Type.Field) excluded from the comparison.
	Ignore map[string]bool
}

// Diff compares two values structurally: nil and empty slices are equal, time.Time is compared with Equal, pointers are
// followed. It returns "" when equal, else the path and values of the first difference.
func Diff(a, b any, opt *EqOpt) string {
	return diff(reflect.ValueOf(a), reflect.ValueOf(b), "", opt, 0)
}

func diff(a, b reflect.Value, path string, opt *EqOpt, depth int) string {
	if depth > 64 {
		return path + ": too deep"
	}
	if !a.IsValid() || !b.IsValid() {
		if a.IsValid() != b.IsValid() {
			return fmt.Sprintf("%s: one side invalid", path)
		}
		return ""
	}
	if a.Type() != b.Type() {
		return fmt.Sprintf("%s: type %s vs %s", path, a.Type(), b.Type())
	}
	switch a.Kind() {
	case reflect.Ptr, reflect.Interface:
		if a.IsNil() || b.IsNil() {
			if a.IsNil() != b.IsNil() {
				return fmt.Sprintf("%s: nil=%v vs nil=%v", path, a.IsNil(), b.IsNil())
			}
			return ""
		}
		return diff(a.Elem(), b.Elem(), path, opt, depth+1)
	case reflect.Struct:
		if a.Type() == timeType {
			ta := a.Interface().(time.Time)
			tb := b.Interface().(time.Time)
			if !ta.Equal(tb) {
				return fmt.Sprintf("%s: %v vs %v", path, ta.UTC(), tb.UTC())
			}
			return ""
		}
		for i := 0; i < a.NumField(); i++ {
			f := a.Type().Field(i)
			if f.PkgPath != "" {
				continue
			}
			if opt != nil && opt.Ignore[a.Type().Name()+"."+f.Name] {
				continue
			}
			if d := diff(a.Field(i), b.Field(i), path+"."+f.Name, opt, depth+1); d != "" {
				return d
			}
		}
		return ""
	case reflect.Slice:
		if a.Len() != b.Len() {
			if a.Type().Elem().Kind() == reflect.Uint8 {
				return fmt.Sprintf("%s: len %d vs %d (%x vs %x)", path, a.Len(), b.Len(), clip(a.Bytes()), clip(b.Bytes()))
			}
			return fmt.Sprintf("%s: len %d vs %d", path, a.Len(), b.Len())
		}
		if a.Type().Elem().Kind() == reflect.Uint8 {
			ab, bb := a.Bytes(), b.Bytes()
			for i := range ab {
				if ab[i] != bb[i] {
					return fmt.Sprintf("%s[%d]: %#x vs %#x (len %d)", path, i, ab[i], bb[i], len(ab))
				}
			}
			return ""
		}
		for i := 0; i < a.Len(); i++ {
			if d := diff(a.Index(i), b.Index(i), fmt.Sprintf("%s[%d]", path, i), opt, depth+1); d != "" {
				return d
			}
		}
		return ""
	case reflect.Array:
		for i := 0; i < a.Len(); i++ {
			if d := diff(a.Index(i), b.Index(i), fmt.Sprintf("%s[%d]", path, i), opt, depth+1); d != "" {
				return d
			}
		}
		return ""
	case reflect.Map:
		if a.Len() != b.Len() {
			return fmt.Sprintf("%s: map len %d vs %d", path, a.Len(), b.Len())
		}
		for _, k := range a.MapKeys() {
			bv := b.MapIndex(k)
			if !bv.IsValid() {
				return fmt.Sprintf("%s[%v]: missing", path, k)
			}
			if d := diff(a.MapIndex(k), bv, fmt.Sprintf("%s[%v]", path, k), opt, depth+1); d != "" {
				return d
			}
		}
		return ""
	case reflect.Bool:
		if a.Bool() != b.Bool() {
			return fmt.Sprintf("%s: %v vs %v", path, a.Bool(), b.Bool())
		}
	case reflect.Int, reflect.Int8, reflect.Int16, reflect.Int32, reflect.Int64:
		if a.Int() != b.Int() {
			return fmt.Sprintf("%s: %d vs %d", path, a.Int(), b.Int())
		}
	case reflect.Uint, reflect.Uint8, reflect.Uint16, reflect.Uint32, reflect.Uint64:
		if a.Uint() != b.Uint() {
			return fmt.Sprintf("%s: %d (%#x) vs %d (%#x)", path, a.Uint(), a.Uint(), b.Uint(), b.Uint())
		}
	case reflect.String:
		if a.String() != b.String() {
			return fmt.Sprintf("%s: %q vs %q", path, a.String(), b.String())
		}
	case reflect.Float32, reflect.Float64:
		if a.Float() != b.Float() {
			return fmt.Sprintf("%s: %v vs %v", path, a.Float(), b.Float())
		}
	default:
		return fmt.Sprintf("%s: unsupported kind %s", path, a.Kind())
	}
	return ""
}

func clip(b []byte) []byte {
	if len(b) > 24 {
		return b[:24]
	}
	return b
}

// Clone makes a deep copy of v (pointers, slices, maps, structs; time.Time by value).
func Clone[T any](v T) T {
	out := reflect.New(reflect.TypeOf(&v).Elem()).Elem()
	cloneInto(out, reflect.ValueOf(&v).Elem(), map[uintptr]reflect.Value{})
	return out.Interface().(T)
}

func cloneInto(dst, src reflect.Value, seen map[uintptr]reflect.Value) {
	switch src.Kind() {
	case reflect.Ptr:
		if src.IsNil() {
			return
		}
		if p, ok := seen[src.Pointer()]; ok && p.Type() == src.Type() {
			dst.Set(p)
			return
		}
		n := reflect.New(src.Type().Elem())
		seen[src.Pointer()] = n
		cloneInto(n.Elem(), src.Elem(), seen)
		dst.Set(n)
	case reflect.Interface:
		if src.IsNil() {
			return
		}
		n := reflect.New(src.Elem().Type()).Elem()
		cloneInto(n, src.Elem(), seen)
		dst.Set(n)
	case reflect.Struct:
		if src.Type() == timeType {
			dst.Set(src)
			return
		}
		for i := 0; i < src.NumField(); i++ {
			if src.Type().Field(i).PkgPath != "" {
				continue
			}
			cloneInto(dst.Field(i), src.Field(i), seen)
		}
	case reflect.Slice:
		if src.IsNil() {
			return
		}
		n := reflect.MakeSlice(src.Type(), src.Len(), src.Len())
		if src.Type().Elem().Kind() == reflect.Uint8 {
			reflect.Copy(n, src)
		} else {
			for i := 0; i < src.Len(); i++ {
				cloneInto(n.Index(i), src.Index(i), seen)
			}
		}
		dst.Set(n)
	case reflect.Array:
		for i := 0; i < src.Len(); i++ {
			cloneInto(dst.Index(i), src.Index(i), seen)
		}
	case reflect.Map:
		if src.IsNil() {
			return
		}
		n := reflect.MakeMapWithSize(src.Type(), src.Len())
		for _, k := range src.MapKeys() {
			v := reflect.New(src.Type().Elem()).Elem()
			cloneInto(v, src.MapIndex(k), seen)
			n.SetMapIndex(k, v)
		}
		dst.Set(n)
	default:
		dst.Set(src)
	}
}

// DumpString renders a value deterministically, following pointers (used as a digest of results).
func DumpString(v any) string {
	var b []byte
	b = dumpVal(b, reflect.ValueOf(v), 0)
	return string(b)
}

func dumpVal(b []byte, v reflect.Value, depth int) []byte {
	if !v.IsValid() || depth > 64 {
		return append(b, "<nil>"...)
	}
	switch v.Kind() {
	case reflect.Ptr, reflect.Interface:
		if v.IsNil() {
			return append(b, "nil"...)
		}
		b = append(b, '&')
		return dumpVal(b, v.Elem(), depth+1)
	case reflect.Struct:
		if v.Type() == timeType {
			return append(b, v.Interface().(time.Time).UTC().Format(time.RFC3339Nano)...)
		}
		b = append(b, '{')
		for i := 0; i < v.NumField(); i++ {
			if v.Type().Field(i).PkgPath != "" {
				continue
			}
			b = append(b, v.Type().Field(i).Name...)
			b = append(b, ':')
			b = dumpVal(b, v.Field(i), depth+1)
			b = append(b, ' ')
		}
		return append(b, '}')
	case reflect.Slice, reflect.Array:
		if v.Kind() == reflect.Slice && v.Type().Elem().Kind() == reflect.Uint8 {
			return append(b, fmt.Sprintf("%x", v.Bytes())...)
		}
		b = append(b, '[')
		for i := 0; i < v.Len(); i++ {
			b = dumpVal(b, v.Index(i), depth+1)
			b = append(b, ',')
		}
		return append(b, ']')
	default:
		return append(b, fmt.Sprint(v.Interface())...)
	}
}

// Scribble overwrites everything reachable from v that a caller could legitimately modify in a result it was given: every byte of
// every slice, every number, flag and string behind a pointer (time.Time values are left alone). It simulates an application that
// edits what the library returned; later results of the library must not change because of it.
func Scribble(v any) {
	scribble(reflect.ValueOf(v), map[uintptr]bool{}, 0)
}

func scribble(v reflect.Value, seen map[uintptr]bool, depth int) {
	if depth > 40 {
		return
	}
	switch v.Kind() {
	case reflect.Ptr:
		if v.IsNil() || seen[v.Pointer()] {
			return
		}
		seen[v.Pointer()] = true
		scribble(v.Elem(), seen, depth+1)
	case reflect.Interface:
		if !v.IsNil() {
			scribble(v.Elem(), seen, depth+1)
		}
	case reflect.Struct:
		if v.Type() == timeType {
			return
		}
		for i := 0; i < v.NumField(); i++ {
			f := v.Field(i)
			if v.Type().Field(i).PkgPath != "" {
				continue // unexported
			}
			scribble(f, seen, depth+1)
		}
	case reflect.Slice:
		for i := 0; i < v.Len(); i++ {
			scribble(v.Index(i), seen, depth+1)
		}
	case reflect.Array:
		for i := 0; i < v.Len(); i++ {
			scribble(v.Index(i), seen, depth+1)
		}
	case reflect.Uint8, reflect.Uint16, reflect.Uint32, reflect.Uint64, reflect.Uint:
		if v.CanSet() {
			v.SetUint(^v.Uint() & 0x7f)
		}
	case reflect.Int, reflect.Int8, reflect.Int16, reflect.Int32, reflect.Int64:
		if v.CanSet() {
			v.SetInt((v.Int() + 1) & 0x7f)
		}
	case reflect.Bool:
		if v.CanSet() {
			v.SetBool(!v.Bool())
		}
	case reflect.String:
		if v.CanSet() {
			v.SetString("scribbled")
		}
	}
}

// ResizeCodes changes the length of every 3-byte []byte field whose name marks it as a language / country code (reachable from v) to
// n bytes, and returns how many fields were changed. It produces values at the edge of the write contract (a code that is not 3
// bytes long, as the demuxer itself returns for some real-world streams).
func ResizeCodes(v any, n int) int {
	return resizeCodes(reflect.ValueOf(v), n, map[uintptr]bool{}, 0)
}

func resizeCodes(v reflect.Value, n int, seen map[uintptr]bool, depth int) int {
	if depth > 40 {
		return 0
	}
	c := 0
	switch v.Kind() {
	case reflect.Ptr:
		if v.IsNil() || seen[v.Pointer()] {
			return 0
		}
		seen[v.Pointer()] = true
		return resizeCodes(v.Elem(), n, seen, depth+1)
	case reflect.Interface:
		if !v.IsNil() {
			return resizeCodes(v.Elem(), n, seen, depth+1)
		}
	case reflect.Struct:
		if v.Type() == timeType {
			return 0
		}
		for i := 0; i < v.NumField(); i++ {
			f := v.Field(i)
			sf := v.Type().Field(i)
			if sf.PkgPath != "" {
				continue
			}
			name := sf.Name
			if f.Kind() == reflect.Slice && f.Type().Elem().Kind() == reflect.Uint8 && f.Len() == 3 && f.CanSet() &&
				(strings.Contains(name, "Language") || strings.Contains(name, "CountryCode")) {
				nb := make([]byte, n)
				for k := range nb {
					nb[k] = byte('a' + k)
				}
				f.SetBytes(nb)
				c++
				continue
			}
			c += resizeCodes(f, n, seen, depth+1)
		}
	case reflect.Slice, reflect.Array:
		if v.Kind() == reflect.Slice && v.Type().Elem().Kind() == reflect.Uint8 {
			return 0
		}
		for i := 0; i < v.Len(); i++ {
			c += resizeCodes(v.Index(i), n, seen, depth+1)
		}
	}
	return c
}

// PackBytes re-houses every non-empty byte slice reachable from v in ONE backing array, one behind the other: each field keeps its
// length and content, but its spare capacity is now the bytes of the fields that follow it (what a caller gets who cuts its names
// and texts out of one buffer). A writer that appends to such a field writes into its neighbour. Returns the number of slices packed.
func PackBytes(v any) int {
	var fields []reflect.Value
	collectByteFields(reflect.ValueOf(v), &fields, map[uintptr]bool{}, 0)
	total := 0
	for _, f := range fields {
		total += f.Len()
	}
	arena := make([]byte, total)
	off := 0
	for _, f := range fields {
		n := f.Len()
		copy(arena[off:], f.Bytes())
		f.SetBytes(arena[off : off+n])
		off += n
	}
	return len(fields)
}

func collectByteFields(v reflect.Value, out *[]reflect.Value, seen map[uintptr]bool, depth int) {
	if depth > 12 {
		return
	}
	switch v.Kind() {
	case reflect.Ptr:
		if v.IsNil() || seen[v.Pointer()] {
			return
		}
		seen[v.Pointer()] = true
		collectByteFields(v.Elem(), out, seen, depth+1)
	case reflect.Interface:
		if !v.IsNil() {
			collectByteFields(v.Elem(), out, seen, depth+1)
		}
	case reflect.Struct:
		for k := 0; k < v.NumField(); k++ {
			if v.Type().Field(k).IsExported() {
				collectByteFields(v.Field(k), out, seen, depth+1)
			}
		}
	case reflect.Slice:
		if v.Type().Elem().Kind() == reflect.Uint8 {
			if v.Len() > 0 && v.CanSet() {
				*out = append(*out, v)
			}
			return
		}
		for k := 0; k < v.Len(); k++ {
			collectByteFields(v.Index(k), out, seen, depth+1)
		}
	}
}
