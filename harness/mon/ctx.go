// Package mon holds the monitoring infrastructure shared by all property checks: the per-worker
// context (counters, coverage sets, violations, journal), taps on io.Reader / io.Writer, the call
// guard, deep comparison / snapshots and the evidence writer.
package mon

import (
	"encoding/json"
	"fmt"
	"hash/fnv"
	"math/rand/v2"
	"os"
	"sort"
	"sync"
)

// Violation is one observed refutation of a property.
type Violation struct {
	Class  string         `json:"class"`  // categorical description, never seed dependent
	Stage  string         `json:"stage"`  // workload stage that produced the case
	Index  int64          `json:"index"`  // case index inside the stage (regenerates the case)
	Detail string         `json:"detail"` // human readable: expected vs observed
	Data   map[string]any `json:"data,omitempty"`
	Count  int64          `json:"count"` // how many executions fell in this class
}

// CaseRef selects exactly one case (replay mode).
type CaseRef struct {
	Stage string `json:"stage"`
	Index int64  `json:"index"`
}

// Result is what a worker hands to the parent.
type Result struct {
	Evals      int64                      `json:"evals"`
	Counters   map[string]int64           `json:"counters"`
	Maxes      map[string]int64           `json:"maxes"`
	Sets       map[string]map[string]bool `json:"sets"`
	Samples    []any                      `json:"samples"`
	Violations map[string]*Violation      `json:"violations"`
	Hashes     []uint64                   `json:"hashes"`
	HashCapped bool                       `json:"hash_capped"`
	Notes      []string                   `json:"notes"`
}

// Ctx is the per-worker monitoring context. It is safe for concurrent use.
type Ctx struct {
	Prop    string
	Tier    string
	Seed    uint64
	Shard   int
	NShards int
	Only    *CaseRef

	mu      sync.Mutex
	res     Result
	hashes  map[uint64]struct{}
	journal *os.File
	perSt   map[string]int
}

const hashCap = 4 << 20

func NewCtx(prop, tier string, seed uint64, shard, nshards int) *Ctx {
	return &Ctx{
		Prop: prop, Tier: tier, Seed: seed, Shard: shard, NShards: nshards,
		res: Result{
			Counters:   map[string]int64{},
			Maxes:      map[string]int64{},
			Sets:       map[string]map[string]bool{},
			Violations: map[string]*Violation{},
		},
		hashes: map[uint64]struct{}{},
		perSt:  map[string]int{},
	}
}

func (c *Ctx) Thorough() bool { return c.Tier == "thorough" }

// Pick returns q in the quick tier and t in the thorough tier.
func (c *Ctx) Pick(q, t int64) int64 {
	if c.Thorough() {
		return t
	}
	return q
}

// SetJournal makes Begin append every case reference to f before the case is executed.
func (c *Ctx) SetJournal(f *os.File) { c.journal = f }

// Mine tells whether case idx of stage belongs to this worker (or is the replayed case).
func (c *Ctx) Mine(stage string, idx int64) bool {
	if c.Only != nil {
		return c.Only.Stage == stage && c.Only.Index == idx
	}
	return int(idx%int64(c.NShards)) == c.Shard
}

// Begin journals the case about to run (so that a crashing child identifies its case).
func (c *Ctx) Begin(stage string, idx int64, input []byte) {
	if c.journal == nil {
		return
	}
	c.mu.Lock()
	defer c.mu.Unlock()
	if input != nil {
		fmt.Fprintf(c.journal, "%s %d %x\n", stage, idx, input)
	} else {
		fmt.Fprintf(c.journal, "%s %d\n", stage, idx)
	}
}

func h64(parts ...string) uint64 {
	h := fnv.New64a()
	for _, p := range parts {
		h.Write([]byte(p))
		h.Write([]byte{0})
	}
	return h.Sum64()
}

// Rng returns the deterministic generator of case idx of stage: a function of (seed, property, stage, idx).
func (c *Ctx) Rng(stage string, idx int64) *rand.Rand {
	return rand.New(rand.NewPCG(c.Seed*0x9E3779B97F4A7C15+h64(c.Prop, stage), uint64(idx)*0xD1B54A32D192ED03+0x1234567))
}

func (c *Ctx) Add(key string, n int64) {
	c.mu.Lock()
	c.res.Counters[key] += n
	c.mu.Unlock()
}

func (c *Ctx) Count(key string) { c.Add(key, 1) }

func (c *Ctx) Max(key string, v int64) {
	c.mu.Lock()
	if cur, ok := c.res.Maxes[key]; !ok || v > cur {
		c.res.Maxes[key] = v
	}
	c.mu.Unlock()
}

// Seen records a member of a named coverage set.
func (c *Ctx) Seen(set, member string) {
	c.mu.Lock()
	s := c.res.Sets[set]
	if s == nil {
		s = map[string]bool{}
		c.res.Sets[set] = s
	}
	s[member] = true
	c.mu.Unlock()
}

// Case accounts one executed case; hash identifies the case (class + input); nontrivial is the
// property's own rule.
func (c *Ctx) Case(hash uint64, nontrivial bool) {
	c.mu.Lock()
	c.res.Evals++
	if nontrivial {
		if len(c.hashes) < hashCap {
			c.hashes[hash] = struct{}{}
		} else {
			c.res.HashCapped = true
		}
	}
	c.mu.Unlock()
}

// CaseN accounts n executed cases that are distinct by construction (enumerations); they are
// represented by n consecutive synthetic hashes derived from base.
func (c *Ctx) CaseN(n int64) {
	c.mu.Lock()
	c.res.Evals += n
	c.res.Counters["_distinct_by_enumeration"] += n
	c.mu.Unlock()
}

// Sample keeps up to two written-out cases per stage.
func (c *Ctx) Sample(stage string, v any) {
	c.mu.Lock()
	if c.perSt[stage] < 2 {
		c.perSt[stage]++
		c.res.Samples = append(c.res.Samples, map[string]any{"stage": stage, "case": v})
	}
	c.mu.Unlock()
}

func (c *Ctx) Note(s string) {
	c.mu.Lock()
	if len(c.res.Notes) < 50 {
		c.res.Notes = append(c.res.Notes, s)
	}
	c.mu.Unlock()
}

// Violate records a violation; the first witness of every class is kept.
func (c *Ctx) Violate(class, stage string, idx int64, detail string, data map[string]any) {
	c.mu.Lock()
	defer c.mu.Unlock()
	v := c.res.Violations[class]
	if v == nil {
		if len(detail) > 4000 {
			detail = detail[:4000] + "…"
		}
		v = &Violation{Class: class, Stage: stage, Index: idx, Detail: detail, Data: data}
		c.res.Violations[class] = v
	}
	v.Count++
}

func (c *Ctx) NumViolations() int {
	c.mu.Lock()
	defer c.mu.Unlock()
	return len(c.res.Violations)
}

// Finish produces the worker's result.
func (c *Ctx) Finish() *Result {
	c.mu.Lock()
	defer c.mu.Unlock()
	c.res.Hashes = make([]uint64, 0, len(c.hashes))
	for h := range c.hashes {
		c.res.Hashes = append(c.res.Hashes, h)
	}
	sort.Slice(c.res.Hashes, func(i, j int) bool { return c.res.Hashes[i] < c.res.Hashes[j] })
	return &c.res
}

func (r *Result) WriteFile(path string) error {
	b, err := json.Marshal(r)
	if err != nil {
		return err
	}
	return os.WriteFile(path, b, 0o644)
}

func ReadResult(path string) (*Result, error) {
	b, err := os.ReadFile(path)
	if err != nil {
		return nil, err
	}
	r := &Result{}
	if err := json.Unmarshal(b, r); err != nil {
		return nil, err
	}
	return r, nil
}

// Merged is the union of worker results.
type Merged struct {
	Evals      int64
	Counters   map[string]int64
	Maxes      map[string]int64
	Sets       map[string]map[string]bool
	Samples    []any
	Violations map[string]*Violation
	Distinct   int64
	HashCapped bool
	Notes      []string
}

func Merge(rs []*Result) *Merged {
	m := &Merged{Counters: map[string]int64{}, Maxes: map[string]int64{}, Sets: map[string]map[string]bool{}, Violations: map[string]*Violation{}}
	hs := map[uint64]struct{}{}
	for _, r := range rs {
		m.Evals += r.Evals
		for k, v := range r.Counters {
			m.Counters[k] += v
		}
		for k, v := range r.Maxes {
			if cur, ok := m.Maxes[k]; !ok || v > cur {
				m.Maxes[k] = v
			}
		}
		for k, s := range r.Sets {
			d := m.Sets[k]
			if d == nil {
				d = map[string]bool{}
				m.Sets[k] = d
			}
			for e := range s {
				d[e] = true
			}
		}
		if len(m.Samples) < 6 {
			for _, s := range r.Samples {
				if len(m.Samples) < 6 {
					m.Samples = append(m.Samples, s)
				}
			}
		}
		for k, v := range r.Violations {
			if cur := m.Violations[k]; cur == nil {
				cp := *v
				m.Violations[k] = &cp
			} else {
				cur.Count += v.Count
				// keep the witness with the smallest (stage, index) so the report is deterministic
				if v.Stage < cur.Stage || (v.Stage == cur.Stage && v.Index < cur.Index) {
					cnt := cur.Count
					cp := *v
					cp.Count = cnt
					m.Violations[k] = &cp
				}
			}
		}
		for _, h := range r.Hashes {
			hs[h] = struct{}{}
		}
		m.HashCapped = m.HashCapped || r.HashCapped
		m.Notes = append(m.Notes, r.Notes...)
	}
	m.Distinct = int64(len(hs)) + m.Counters["_distinct_by_enumeration"]
	return m
}

// HashBytes / HashStr help building case hashes.
func HashBytes(class string, b []byte) uint64 {
	h := fnv.New64a()
	h.Write([]byte(class))
	h.Write([]byte{0})
	h.Write(b)
	return h.Sum64()
}

func HashStr(parts ...string) uint64 { return h64(parts...) }
