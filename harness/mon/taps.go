package mon

import (
	"errors"
	"fmt"
	"io"
	"runtime/debug"
)

// ErrInjected is the sentinel returned by armed taps.
var ErrInjected = errors.New("verif: injected I/O failure")

// ReadRec is one Read call seen by a reader tap.
type ReadRec struct {
	Req, Got int
	Err      error
	Pos      int // position before the call
	Call     int // index of the API call in progress
}

// RTap is an in-memory reader that applies a chunking schedule and a fault plan and records every Read.
type RTap struct {
	Data []byte
	Pos  int
	// Chunk returns the maximal number of bytes the next Read may deliver (≥1); nil = unlimited.
	Chunk func(pos int) int
	// FailAt ≥ 0: the Read that would cross this offset delivers the bytes before it, and the following Read fails
	// with ErrInjected (a Read starting at the offset fails at once). FailOnce lets later reads continue.
	FailAt   int
	FailOnce bool
	// FailWithData: the Read that crosses FailAt returns the bytes before it together with ErrInjected (n>0 and an error in one
	// call, which io.Reader allows); later Reads fail with (0, ErrInjected) unless FailOnce.
	FailWithData bool
	// FailErr: the error the failing Reads return instead of ErrInjected (for instance io.ErrUnexpectedEOF, which is what gzip,
	// tar and HTTP bodies shorter than announced return for cut input: an error other than io.EOF)
	FailErr error
	// OnFail is called once, right before the tap returns its failure for the first time (a supervisor that cancels everything when
	// the connection reports an error)
	OnFail  func()
	failed  bool
	Calls   int // maintained by the harness: index of the API call in progress
	Log     []ReadRec
	KeepLog bool
	NReads  int
	MinGot  int
	MaxGot  int
	Seeks   []int64
	// EOFWithData: the Read that delivers the last bytes returns them together with io.EOF (allowed by io.Reader; network bodies of
	// known length and iotest.DataErrReader behave so). ZeroEvery k>0: every k-th Read returns (0, nil) ("nothing happened").
	EOFWithData bool
	ZeroEvery   int
	// SeekFailIdx ≥ 0: the Seek call with this index (0-based, over the life of the tap) fails with ErrInjected and leaves the
	// position where it was.
	SeekFailIdx int
	NSeeks      int
}

func NewRTap(data []byte) *RTap {
	return &RTap{Data: data, FailAt: -1, SeekFailIdx: -1, MinGot: 1 << 30}
}

func (t *RTap) Read(p []byte) (int, error) {
	t.NReads++
	rec := ReadRec{Req: len(p), Pos: t.Pos, Call: t.Calls}
	n, err := t.read(p)
	rec.Got, rec.Err = n, err
	if t.KeepLog {
		t.Log = append(t.Log, rec)
	}
	if n > 0 {
		if n < t.MinGot {
			t.MinGot = n
		}
		if n > t.MaxGot {
			t.MaxGot = n
		}
	}
	return n, err
}

func (t *RTap) fail() {
	if !t.failed && t.OnFail != nil {
		t.OnFail()
	}
	t.failed = true
}

func (t *RTap) failErr() error {
	if t.FailErr != nil {
		return t.FailErr
	}
	return ErrInjected
}

func (t *RTap) read(p []byte) (int, error) {
	if len(p) == 0 {
		return 0, nil
	}
	if t.FailAt >= 0 && t.Pos >= t.FailAt && !(t.FailOnce && t.failed) {
		t.fail()
		return 0, t.failErr()
	}
	if t.Pos >= len(t.Data) {
		return 0, io.EOF
	}
	if t.ZeroEvery > 0 && t.NReads%t.ZeroEvery == 0 {
		return 0, nil
	}
	n := len(p)
	if t.Chunk != nil {
		if c := t.Chunk(t.Pos); c > 0 && c < n {
			n = c
		}
	}
	if rem := len(t.Data) - t.Pos; n > rem {
		n = rem
	}
	withErr := false
	if t.FailAt >= 0 && t.Pos < t.FailAt && t.Pos+n > t.FailAt && !(t.FailOnce && t.failed) {
		n = t.FailAt - t.Pos
		withErr = t.FailWithData
	}
	copy(p, t.Data[t.Pos:t.Pos+n])
	t.Pos += n
	if withErr {
		t.fail()
		return n, t.failErr()
	}
	if t.EOFWithData && t.Pos >= len(t.Data) {
		return n, io.EOF
	}
	return n, nil
}

// Seekable wraps the tap with Seek.
type Seekable struct{ *RTap }

func (s Seekable) Seek(off int64, whence int) (int64, error) {
	s.NSeeks++
	if s.SeekFailIdx >= 0 && s.NSeeks-1 == s.SeekFailIdx {
		return 0, ErrInjected
	}
	var np int64
	switch whence {
	case io.SeekStart:
		np = off
	case io.SeekCurrent:
		np = int64(s.Pos) + off
	case io.SeekEnd:
		np = int64(len(s.Data)) + off
	}
	if np < 0 {
		return 0, fmt.Errorf("negative seek")
	}
	s.Seeks = append(s.Seeks, np)
	s.Pos = int(np)
	return np, nil
}

// Plain hides everything but Read.
type Plain struct{ T *RTap }

func (p Plain) Read(b []byte) (int, error) { return p.T.Read(b) }

// WriteRec is one Write call seen by the writer tap.
type WriteRec struct {
	Off, Len, Ret int
	Err           error
	Call          int
}

// WTap is an io.Writer that records everything and can fail on purpose.
type WTap struct {
	Buf  []byte
	Call int // API call in progress (set by the harness)
	NW   int // Write calls so far
	Log  []WriteRec
	Keep bool
	// FailIdx ≥ 0: the Write call with this index fails with ErrInjected after accepting Partial bytes; when Permanent all later
	// calls fail too.
	FailIdx   int
	Partial   int
	Permanent bool
	Injected  int // number of failures returned
	InjCall   int // API call during which the first failure was returned
	Accepted  int // bytes accepted during the current API call (reset by the harness)
}

func NewWTap() *WTap { return &WTap{FailIdx: -1, InjCall: -1} }

func (w *WTap) Write(p []byte) (int, error) {
	idx := w.NW
	w.NW++
	fail := w.FailIdx >= 0 && (idx == w.FailIdx || (w.Permanent && idx > w.FailIdx))
	n := len(p)
	var err error
	if fail {
		n = 0
		if idx == w.FailIdx && w.Partial > 0 && w.Partial < len(p) {
			n = w.Partial
		}
		err = ErrInjected
		if w.Injected == 0 {
			w.InjCall = w.Call
		}
		w.Injected++
	}
	if w.Keep {
		w.Log = append(w.Log, WriteRec{Off: len(w.Buf), Len: len(p), Ret: n, Err: err, Call: w.Call})
	}
	w.Buf = append(w.Buf, p[:n]...)
	w.Accepted += n
	return n, err
}

// Guarded runs f under recover; a panic is returned with its stack.
func Guarded(f func()) (panicked bool, val any, stack string) {
	defer func() {
		if r := recover(); r != nil {
			panicked = true
			val = r
			stack = string(debug.Stack())
		}
	}()
	f()
	return
}

// PanicClass reduces a panic value + stack to a stable class string: the panic kind and the innermost library function.
func PanicClass(val any, stack string) string {
	kind := fmt.Sprint(val)
	if len(kind) > 60 {
		kind = kind[:60]
	}
	kind = reDigits.ReplaceAllString(kind, "N")
	fn := "?"
	lines := splitLines(stack)
	for _, l := range lines {
		if i := indexOf(l, "github.com/asticode/go-astits."); i >= 0 {
			fn = l[i+len("github.com/asticode/go-astits."):]
			if fn != "" && fn[0] == '(' {
				// keep receiver types like (*Demuxer).NextData, drop the arguments
				if k := indexOf(fn[1:], "("); k > 0 {
					fn = fn[:k+1]
				}
			} else if j := indexOf(fn, "("); j > 0 {
				fn = fn[:j]
			}
			break
		}
	}
	return kind + "@" + fn
}
