// vmon: runner of the runtime monitors.
//
//	vmon run <ID> --tier quick|thorough     parent: shards the case list over child processes, merges, judges
//	vmon worker <ID> <tier> <seed> <shard> <nshards> <out> [race]   one child
//	vmon replay <file>                      re-executes the single case of a replay file
//	vmon list
package main

import (
	"bufio"
	"encoding/json"
	"fmt"
	"os"
	"os/exec"
	"path/filepath"
	"regexp"
	"runtime"
	"sort"
	"strconv"
	"strings"
	"sync"
	"syscall"
	"time"

	"verifharness/mon"
	"verifharness/props"
	"verifharness/refts"
)

func home() string {
	if h := os.Getenv("VERIF_HOME"); h != "" {
		return h
	}
	exe, err := os.Executable()
	if err == nil {
		return filepath.Dir(filepath.Dir(exe))
	}
	return "/verif"
}

func main() {
	if len(os.Args) < 2 {
		fmt.Fprintln(os.Stderr, "usage: vmon run|worker|replay|list ...")
		os.Exit(2)
	}
	switch os.Args[1] {
	case "list":
		for _, id := range props.IDs() {
			fmt.Println(id)
		}
	case "run":
		os.Exit(cmdRun(os.Args[2:]))
	case "worker":
		os.Exit(cmdWorker(os.Args[2:]))
	case "replay":
		os.Exit(cmdReplay(os.Args[2:]))
	default:
		fmt.Fprintln(os.Stderr, "unknown command")
		os.Exit(2)
	}
}

func seed() uint64 {
	if s := os.Getenv("VERIF_SEED"); s != "" {
		if v, err := strconv.ParseUint(s, 10, 63); err == nil {
			return v
		}
	}
	return 1
}

func cmdWorker(args []string) int {
	if len(args) < 6 {
		return 2
	}
	p := props.Registry[args[0]]
	if p == nil {
		return 2
	}
	sd, _ := strconv.ParseUint(args[2], 10, 64)
	shard, _ := strconv.Atoi(args[3])
	n, _ := strconv.Atoi(args[4])
	out := args[5]
	race := len(args) > 6 && args[6] == "race"
	// memory guard: a parser that spins while allocating would take the machine down long before a watchdog on calls fires;
	// the worker ends itself with a recognisable message when its heap passes the limit (the runner reports a crash class)
	go func() {
		limit := uint64(6 << 30)
		var ms runtime.MemStats
		for {
			time.Sleep(100 * time.Millisecond)
			runtime.ReadMemStats(&ms)
			if ms.HeapAlloc > limit && ms.HeapAlloc < 4*limit {
				// what counts is memory that is HELD: garbage that the collector has not got round to yet (a busy machine, a
				// workload that allocates quickly) is not a call that allocates without bound. Collect, and look again
				runtime.GC()
				runtime.ReadMemStats(&ms)
			}
			if ms.HeapAlloc > limit {
				fmt.Fprintf(os.Stderr, "panic: vmon memory guard: heap of %d MiB in worker %s shard %d (a call allocates without bound)\n", ms.HeapAlloc>>20, p.ID, shard)
				os.Exit(2)
			}
		}
	}()
	c := mon.NewCtx(p.ID, args[1], sd, shard, n)
	if p.Journal {
		f, err := os.Create(out + ".journal")
		if err == nil {
			c.SetJournal(f)
			defer f.Close()
		}
	}
	if race {
		p.Race(c)
	} else {
		p.Run(c)
	}
	if err := c.Finish().WriteFile(out); err != nil {
		fmt.Fprintln(os.Stderr, "write result:", err)
		return 4
	}
	return 0
}

type job struct {
	shard, n int
	race     bool
	out      string
}

type jobRes struct {
	job
	res      *mon.Result
	exit     int
	timedOut bool
	errFile  string
}

var reAddr = regexp.MustCompile(`0x[0-9a-f]+|\b[0-9]+\b`)

func crashSignature(errFile string) (sig string, lib bool, excerpt string) {
	b, _ := os.ReadFile(errFile)
	s := string(b)
	lines := strings.Split(s, "\n")
	for _, l := range lines {
		if strings.HasPrefix(l, "panic:") || strings.HasPrefix(l, "fatal error:") || strings.HasPrefix(l, "runtime:") {
			sig = reAddr.ReplaceAllString(l, "N")
			break
		}
	}
	if sig == "" {
		sig = "unknown"
	}
	lib = strings.Contains(s, "github.com/asticode/go-astits.") || strings.Contains(s, "go-astits.(")
	if len(s) > 6000 {
		s = s[:6000]
	}
	return sig, lib, s
}

func lastJournal(path string) string {
	f, err := os.Open(path)
	if err != nil {
		return ""
	}
	defer f.Close()
	sc := bufio.NewScanner(f)
	sc.Buffer(make([]byte, 1<<20), 1<<26)
	last := ""
	for sc.Scan() {
		last = sc.Text()
	}
	return last
}

func cmdRun(args []string) int {
	if len(args) < 1 {
		return 2
	}
	id := args[0]
	tier := "quick"
	for i := 1; i < len(args); i++ {
		if args[i] == "--tier" && i+1 < len(args) {
			tier = args[i+1]
		}
	}
	if t := os.Getenv("VERIF_TIER"); t != "" && len(args) < 3 {
		tier = t
	}
	if tier != "quick" && tier != "thorough" {
		fmt.Fprintln(os.Stderr, "bad tier")
		return 2
	}
	p := props.Registry[id]
	if p == nil {
		fmt.Fprintln(os.Stderr, "unknown property", id)
		return 2
	}
	start := time.Now()
	hm := home()
	sd := seed()

	// self check of the reference codec: a failure is never a violation
	if err := refts.SelfCheck(); err != nil {
		fmt.Printf("INCONCLUSIVE property=%s reason=reference-selfcheck-failed: %v\n", id, err)
		return 3
	}

	// a scratch directory of this run only (two runs of one property may be alive at once, e.g. a check against a scratch copy of
	// the repository next to a thorough run): journals, stderr files and race detector logs must not mix
	work := filepath.Join(hm, "work", fmt.Sprintf("%s.%d", id, os.Getpid()))
	os.RemoveAll(work)
	os.MkdirAll(work, 0o755)
	defer os.RemoveAll(work)
	os.MkdirAll(filepath.Join(hm, "evidence"), 0o755)
	if old, _ := filepath.Glob(filepath.Join(hm, "replays", id+"-*.json")); len(old) > 0 {
		for _, f := range old {
			os.Remove(f) // witnesses of earlier runs of this property
		}
	}

	exe, _ := os.Executable()
	raceExe := filepath.Join(filepath.Dir(exe), "vmon-race")
	if v := os.Getenv("VMON_RACE"); v != "" {
		raceExe = v
	}
	nsh := p.Shards
	if nsh == 0 {
		nsh = 32
	}
	var jobs []job
	if p.Run != nil {
		for s := 0; s < nsh; s++ {
			jobs = append(jobs, job{shard: s, n: nsh, out: filepath.Join(work, fmt.Sprintf("shard-%d.json", s))})
		}
	}
	if p.Race != nil {
		rs := p.RaceShards
		if rs == 0 {
			rs = 4
		}
		for s := 0; s < rs; s++ {
			jobs = append(jobs, job{shard: s, n: rs, race: true, out: filepath.Join(work, fmt.Sprintf("race-%d.json", s))})
		}
	}
	timeout := 900
	if tier == "thorough" {
		timeout = 4 * 3600
	}
	if tier == "quick" && p.TimeoutQuick > 0 {
		timeout = p.TimeoutQuick
	}
	if tier == "thorough" && p.TimeoutThorough > 0 {
		timeout = p.TimeoutThorough
	}
	par := runtime.NumCPU()
	if par > 16 {
		par = 16
	}
	if v := os.Getenv("VERIF_PAR"); v != "" {
		if n, err := strconv.Atoi(v); err == nil && n > 0 {
			par = n
		}
	}
	sem := make(chan struct{}, par)
	results := make([]jobRes, len(jobs))
	var wg sync.WaitGroup
	for i, j := range jobs {
		wg.Add(1)
		go func(i int, j job) {
			defer wg.Done()
			sem <- struct{}{}
			defer func() { <-sem }()
			bin := exe
			a := []string{"worker", id, tier, strconv.FormatUint(sd, 10), strconv.Itoa(j.shard), strconv.Itoa(j.n), j.out}
			if j.race {
				bin = raceExe
				a = append(a, "race")
			}
			cmd := exec.Command(bin, a...)
			errFile := j.out + ".err"
			ef, _ := os.Create(errFile)
			cmd.Stderr = ef
			cmd.Stdout = ef
			cmd.Env = append(os.Environ(), "GOTRACEBACK=all")
			if j.race {
				cmd.Env = append(cmd.Env, "GORACE=halt_on_error=0 log_path="+filepath.Join(work, fmt.Sprintf("racelog-%d", j.shard)))
			}
			r := jobRes{job: j, errFile: errFile}
			if err := cmd.Start(); err != nil {
				r.exit = 127
				results[i] = r
				ef.Close()
				return
			}
			done := make(chan error, 1)
			go func() { done <- cmd.Wait() }()
			select {
			case err := <-done:
				if err != nil {
					if ee, ok := err.(*exec.ExitError); ok {
						r.exit = ee.ExitCode()
						if r.exit == 0 {
							r.exit = -1
						}
					} else {
						r.exit = -1
					}
				}
			case <-time.After(time.Duration(timeout) * time.Second):
				r.timedOut = true
				cmd.Process.Signal(syscall.SIGQUIT)
				select {
				case <-done:
				case <-time.After(10 * time.Second):
					cmd.Process.Kill()
					<-done
				}
				r.exit = -2
			}
			ef.Close()
			if res, err := mon.ReadResult(j.out); err == nil {
				r.res = res
			}
			results[i] = r
		}(i, j)
	}
	wg.Wait()

	var rs []*mon.Result
	var inconclusive []string
	crash := map[string]*mon.Violation{}
	for _, r := range results {
		if r.res != nil && r.exit == 0 {
			rs = append(rs, r.res)
			continue
		}
		if r.timedOut {
			sig, lib, ex := crashSignature(r.errFile)
			_ = sig
			last := lastJournal(r.out + ".journal")
			if p.ID == "C03" && lib {
				cl := "C03/hang/in-library"
				if crash[cl] == nil {
					crash[cl] = &mon.Violation{Class: cl, Stage: "watchdog", Detail: "worker did not finish; goroutine dump shows a library frame; last journalled case: " + trunc(last, 2000) + "\n" + ex, Count: 1}
				}
			} else {
				inconclusive = append(inconclusive, fmt.Sprintf("worker shard %d timed out after %ds (last case: %s)", r.shard, timeout, trunc(last, 200)))
			}
			continue
		}
		// crashed child
		sig, lib, ex := crashSignature(r.errFile)
		last := lastJournal(r.out + ".journal")
		if !lib && !strings.HasPrefix(sig, "panic") && !strings.HasPrefix(sig, "fatal") {
			inconclusive = append(inconclusive, fmt.Sprintf("worker shard %d exited %d without result: %s", r.shard, r.exit, trunc(ex, 300)))
			continue
		}
		cl := id + "/crash/" + sig
		if crash[cl] == nil {
			crash[cl] = &mon.Violation{Class: cl, Stage: "crash", Detail: "child process died: " + sig + "\nlast journalled case: " + trunc(last, 4000) + "\n" + ex, Count: 1, Data: map[string]any{"journal_last": trunc(last, 1<<20)}}
		} else {
			crash[cl].Count++
		}
	}
	m := mon.Merge(rs)
	for k, v := range crash {
		m.Violations[k] = v
	}

	// race logs
	raceBlocks, raceLib := 0, 0
	if p.Race != nil {
		files, _ := filepath.Glob(filepath.Join(work, "racelog-*"))
		seen := map[string]bool{}
		for _, f := range files {
			b, _ := os.ReadFile(f)
			blocks := strings.Split(string(b), "WARNING: DATA RACE")
			for _, blk := range blocks[1:] {
				raceBlocks++
				key := raceKey(blk)
				if seen[key] {
					continue
				}
				seen[key] = true
				if strings.Contains(blk, "github.com/asticode/go-astits.") || strings.Contains(blk, "go-astits.(") || strings.Contains(blk, "go-astits/") {
					raceLib++
					cl := id + "/race/" + key
					m.Violations[cl] = &mon.Violation{Class: cl, Stage: "race", Detail: "WARNING: DATA RACE" + trunc(blk, 5000), Count: 1}
				} else {
					inconclusive = append(inconclusive, "race report without library frame: "+trunc(blk, 300))
				}
			}
		}
		m.Counters["race_report_blocks"] = int64(raceBlocks)
		m.Counters["race_reports_with_library_frame"] = int64(raceLib)
	}

	if p.Guards != nil && len(m.Violations) == 0 {
		inconclusive = append(inconclusive, p.Guards(m, tier)...)
	}
	if m.Distinct < 2 {
		inconclusive = append(inconclusive, "fewer than 2 distinct non-trivial cases observed")
	}

	// known findings
	known := loadKnown(filepath.Join(hm, "KNOWN_FINDINGS.txt"), id)
	var vios, knownHit []*mon.Violation
	var classes []string
	for k := range m.Violations {
		classes = append(classes, k)
	}
	sort.Strings(classes)
	for _, k := range classes {
		v := m.Violations[k]
		if txt, ok := known[k]; ok {
			v.Detail = txt + " || " + v.Detail
			knownHit = append(knownHit, v)
		} else {
			vios = append(vios, v)
		}
	}

	wall := time.Since(start).Seconds()
	writeEvidence(hm, p, tier, sd, m, vios, knownHit, inconclusive, wall)

	fmt.Printf("property=%s tier=%s seed=%d evaluations=%d distinct_nontrivial=%d wall_s=%.1f\n", id, tier, sd, m.Evals, m.Distinct, wall)
	keys := make([]string, 0, len(m.Counters))
	for k := range m.Counters {
		keys = append(keys, k)
	}
	sort.Strings(keys)
	for _, k := range keys {
		if !strings.HasPrefix(k, "_") {
			fmt.Printf("  %s=%d\n", k, m.Counters[k])
		}
	}
	for _, v := range knownHit {
		fmt.Printf("KNOWN-FINDING: property=%s %s (class=%s, %d executions)\n", id, known[v.Class], v.Class, v.Count)
	}
	if len(vios) > 0 {
		os.MkdirAll(filepath.Join(hm, "replays"), 0o755)
		for _, v := range vios {
			path := filepath.Join(hm, "replays", fmt.Sprintf("%s-%016x.json", id, mon.HashStr(v.Class)))
			rep := map[string]any{"property": id, "tier": tier, "seed": sd, "violation": v}
			b, _ := json.MarshalIndent(rep, "", " ")
			os.WriteFile(path, b, 0o644)
			fmt.Printf("VIOLATION property=%s replay=%s\n", id, path)
			fmt.Printf("  class=%s count=%d\n  %s\n", v.Class, v.Count, trunc(v.Detail, 1500))
		}
		return 1
	}
	if len(inconclusive) > 0 {
		for _, r := range inconclusive {
			fmt.Printf("INCONCLUSIVE property=%s reason=%s\n", id, r)
		}
		return 3
	}
	fmt.Printf("HELD property=%s on everything observed\n", id)
	return 0
}

func raceKey(blk string) string {
	// de-duplicate by the outermost non-runtime frames of the two accesses, line numbers stripped
	var fns []string
	for _, l := range strings.Split(blk, "\n") {
		l = strings.TrimSpace(l)
		if strings.HasSuffix(l, ")") && strings.Contains(l, "(") && !strings.HasPrefix(l, "/") && !strings.Contains(l, "runtime.") && !strings.Contains(l, "testing.") {
			fn := l[:strings.Index(l, "(")]
			fns = append(fns, fn)
		}
	}
	if len(fns) > 6 {
		fns = fns[:6]
	}
	return fmt.Sprintf("%016x", mon.HashStr(fns...))
}

func trunc(s string, n int) string {
	if len(s) > n {
		return s[:n] + "…"
	}
	return s
}

func loadKnown(path, id string) map[string]string {
	out := map[string]string{}
	f, err := os.Open(path)
	if err != nil {
		return out
	}
	defer f.Close()
	sc := bufio.NewScanner(f)
	sc.Buffer(make([]byte, 1<<16), 1<<22)
	for sc.Scan() {
		l := strings.TrimSpace(sc.Text())
		if !strings.HasPrefix(l, "known:") {
			continue
		}
		fs := strings.Fields(l)
		if len(fs) < 3 || fs[1] != "property="+id || !strings.HasPrefix(fs[2], "class=") {
			continue
		}
		cl := strings.TrimPrefix(fs[2], "class=")
		out[cl] = strings.TrimSpace(strings.Join(fs[3:], " "))
	}
	return out
}

func writeEvidence(hm string, p *props.Prop, tier string, sd uint64, m *mon.Merged, vios, known []*mon.Violation, inconclusive []string, wall float64) {
	cov := map[string]any{
		"evaluations":         m.Evals,
		"distinct_nontrivial": m.Distinct,
		"rule":                p.Rule,
		"samples":             m.Samples,
	}
	if m.HashCapped {
		cov["distinct_note"] = "per-worker hash set capped; distinct_nontrivial is a lower bound"
	}
	if p.Exhaustive != nil {
		cov["exhaustive"] = p.Exhaustive(tier)
	}
	cnt := map[string]int64{}
	for k, v := range m.Counters {
		if !strings.HasPrefix(k, "_") {
			cnt[k] = v
		}
	}
	cov["observed_counters"] = cnt
	if len(m.Maxes) > 0 {
		cov["observed_maxima"] = m.Maxes
	}
	sets := map[string]any{}
	for k, s := range m.Sets {
		mem := make([]string, 0, len(s))
		for e := range s {
			mem = append(mem, e)
		}
		sort.Strings(mem)
		ent := map[string]any{"size": len(mem)}
		if len(mem) <= 80 {
			ent["members"] = mem
		} else {
			ent["members_sample"] = mem[:40]
		}
		sets[k] = ent
	}
	if len(sets) > 0 {
		cov["observed_sets"] = sets
	}
	var kf []any
	for _, v := range known {
		kf = append(kf, map[string]any{"class": v.Class, "executions": v.Count})
	}
	if kf != nil {
		cov["known_findings_hit"] = kf
	}
	var vc []any
	for _, v := range vios {
		vc = append(vc, map[string]any{"class": v.Class, "executions": v.Count, "stage": v.Stage, "index": v.Index})
	}
	if vc != nil {
		cov["violation_classes"] = vc
	}
	if len(inconclusive) > 0 {
		cov["inconclusive"] = inconclusive
	}
	if len(m.Notes) > 0 {
		n := m.Notes
		if len(n) > 20 {
			n = n[:20]
		}
		cov["notes"] = n
	}
	ev := map[string]any{
		"property_id": p.ID,
		"tier":        tier,
		"seed":        sd,
		"level":       p.Level,
		"coverage":    cov,
		"assumptions": p.Assumptions,
		"wall_s":      wall,
		"violations":  len(vios),
	}
	b, _ := json.MarshalIndent(ev, "", " ")
	os.WriteFile(filepath.Join(hm, "evidence", p.ID+".json"), append(b, '\n'), 0o644)
}

func cmdReplay(args []string) int {
	if len(args) < 1 {
		return 2
	}
	b, err := os.ReadFile(args[0])
	if err != nil {
		fmt.Fprintln(os.Stderr, err)
		return 2
	}
	var rep struct {
		Property  string         `json:"property"`
		Tier      string         `json:"tier"`
		Seed      uint64         `json:"seed"`
		Violation *mon.Violation `json:"violation"`
	}
	if err := json.Unmarshal(b, &rep); err != nil {
		fmt.Fprintln(os.Stderr, err)
		return 2
	}
	p := props.Registry[rep.Property]
	if p == nil || rep.Violation == nil {
		return 2
	}
	c := mon.NewCtx(p.ID, rep.Tier, rep.Seed, 0, 1)
	c.Only = &mon.CaseRef{Stage: rep.Violation.Stage, Index: rep.Violation.Index}
	p.Run(c)
	r := c.Finish()
	fmt.Printf("replayed stage=%s index=%d: %d evaluation(s), %d violation class(es)\n", c.Only.Stage, c.Only.Index, r.Evals, len(r.Violations))
	for k, v := range r.Violations {
		fmt.Printf("VIOLATION property=%s replay=%s\n  class=%s\n  %s\n", p.ID, args[0], k, v.Detail)
	}
	if len(r.Violations) > 0 {
		return 1
	}
	return 0
}
