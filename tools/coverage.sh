#!/bin/sh
# Development aid (not a registered check): which statements of the library do the monitors' workloads reach?
# usage: tools/coverage.sh [scratch-dir]   -> prints the summary and the never-reached ranges per file
set -eu
S=${1:-/tmp/vcov.$$}; mkdir -p "$S/bin" "$S/data" "$S/ev"
export GOFLAGS=-mod=mod GOPROXY=off GOSUMDB=off GOTOOLCHAIN=local VERIF_HOME=/verif
cd /verif/harness
go build -cover -coverpkg=github.com/asticode/go-astits,verifharness/... -tags verif -o "$S/bin/vmon" ./cmd/vmon
cp /verif/evidence/*.json "$S/ev/"     # the runs below rewrite the evidence files: keep the committed ones
cd /verif
for p in C01 C02 C03 C04 C05 C06 C07 C08 C09 C10 C11 C12 C13 C14 C15 C17 C18 C19 C20; do
  GOCOVERDIR="$S/data" "$S/bin/vmon" run $p --tier quick 2>&1 | tail -1
done
cp "$S/ev/"*.json /verif/evidence/
cd /verif/harness
go tool covdata textfmt -i="$S/data" -pkg=github.com/asticode/go-astits -o "$S/astits.txt"
go tool covdata textfmt -i="$S/data" -pkg=verifharness/gen,verifharness/props,verifharness/refts -o "$S/harness.txt"
for f in "$S/astits.txt" "$S/harness.txt"; do
python3 - "$f" <<'PY'
import re, sys, collections
cov = collections.defaultdict(int)
for l in open(sys.argv[1]):
    m = re.match(r'(.*):(\d+)\.\d+,(\d+)\.\d+ (\d+) (\d+)', l)
    if m:
        f, a, b, n, c = m.groups()
        cov[(f.split('/')[-1], int(a), int(b), int(n))] += int(c)
tot = sum(k[3] for k in cov); hit = sum(k[3] for k, v in cov.items() if v)
print('statements %d reached %d (%.1f%%)' % (tot, hit, 100.0 * hit / tot))
by = collections.defaultdict(list)
for k, v in sorted(cov.items()):
    if not v:
        by[k[0]].append('%d-%d' % (k[1], k[2]))
for f, v in by.items():
    print(f, ' '.join(v))
PY
done
rm -rf "$S/bin" "$S/data" "$S/ev"
