#!/usr/bin/env python3
"""Regenerates MANIFEST.json from the table below (kept in one place so that the manifest stays valid at all times)."""
import json, subprocess

CHECKS = {
 # id: (category, technique, level text, level note, design ref)
 "C10": ("exploration", "runtime differential monitor: library CRC (hooked) vs bit-serial shift-register oracle over enumerated and random inputs; end-to-end tie through Demuxer/Muxer",
         "Every table entry, every message of length 0..2 and the listed (state,byte) grids are enumerated (thorough: all 2^32 states for byte 0 and 2^24 states per byte value); random messages are checked at every split point and for residue 0. Held-on-everything-observed, exhaustive on the enumerated sub-domains only.",
         "Trusts refts/crc.go (anchored on 0x0376E6E7 and a known PAT) and that the hooks are thin wrappers; the e2e stage checks the real parse/write paths use the same function.", "DESIGN.md §4 C10"),
 "C15": ("exploration", "runtime differential monitor: hooked dvb.go conversions vs integer civil-calendar oracle, exhaustive enumeration of days, times of day and BCD patterns",
         "All 50457 MJD values and all 86400 times of day are decoded and encoded (jointly on a grid in quick, all days x all seconds encoded in thorough); all 10^4/10^6 digit patterns and all 2^16/2^24 raw patterns of the durations.",
         "Trusts refts/dvb.go (anchored on the Annex C example and cross-checked against time.AddDate); two thirds of the encodings start from the same instant in one of 14 non-UTC locations.", "DESIGN.md §4 C15"),
 "C11": ("exploration", "runtime differential monitor: NextPacket / Muxer.WritePacket on reference-encoded packet models vs independent ISO 13818-1 packet codec; re-emission byte comparison",
         "Header cross product (all 8192 PIDs, all flag/scrambling/counter combinations), every subset of adaptation parts and extension parts, every adaptation_field_length 0..183, single-bit clock values; parse, write and re-emit compared on every case.",
         "Trusts refts/packet.go (self-checked against hand-assembled bytes). IsOneByteStuffing is ignored on parse comparison (not part of the TS format). Reserved bytes closing the adaptation extension are driven by raising the extension length of packets with stuffing behind it (1..3 bytes) and through the generators.", "DESIGN.md §4 C11"),
 "C12": ("exploration", "runtime differential monitor: NextData / parsePESData hook on reference-encoded PES models and WriteData output after independent reassembly vs independent PES codec; Duration vs big.Int",
         "All 256 optional-header flag bytes x 16 extension subsets, single-bit timestamp values, all trick mode bytes, CRC values, header stuffing, four PES_packet_length modes, all stream ids; writer-supported headers compared byte for byte.",
         "Trusts refts/pes.go; pack_header_field excluded; one known finding (six Table 2-21 stream ids) is listed in KNOWN_FINDINGS.txt.", "DESIGN.md §4 C12"),
 "C13": ("exploration", "runtime differential monitor: NextData and parsePSIData hook on reference-encoded table sections (random reserved bits) and writePSIData output vs independent PSI/SI codec",
         "Random PAT/PMT/NIT/SDT/EIT/TOT models up to the section size limits, every table_id variant, 1..n sections per unit, descriptor loops from the C14 generator; PAT/PMT written and compared byte for byte.",
         "Trusts refts/psi.go and refts/descriptors.go; units are packet aligned.", "DESIGN.md §4 C13"),
 "C14": ("exploration", "runtime differential monitor: parseDescriptors / writeDescriptorsWithLength hooks vs independent descriptor codec; sentinel technique for malformed lengths",
         "Per tag (23 typed, user-defined, unknown, extension with unknown sub-tag) boundary-biased models parsed and written with the struct Length right/0/wrong; emitted length fields checked against emitted bytes; malformed descriptor_length followed by a sentinel descriptor.",
         "Trusts refts/descriptors.go (29 known-answer vectors); models restricted to what the structs can represent; VBI services without line entries compared semantically (any number of reserved bytes is conformant).", "DESIGN.md §4 C14"),
 "C02": ("exploration", "runtime monitor over NextData on reference-multiplexed streams: per-PID identity/equality oracle from the generating model + reader-position tap for read-ahead and lateness",
         "Random models (1..8 PIDs, PES bounded/unbounded, multi-section PSI units, pointer_field, stuffing anywhere) and enumeration of every first/last chunk size (thorough: pairs) of selected units; every delivered unit compared with the model, PAT/PMT delivery position checked against the unit's final packet.",
         "Trusts the reference multiplexer (gen/stream.go + refts); units are packet aligned; PAT completes before the first PMT packet.", "DESIGN.md §4 C02"),
 "C06": ("fault_enumeration", "packet-level fault injection (duplicate / delete / TEI / DI / AF-only) with a model-based differential oracle against the fault-free output",
         "Every single-packet duplication (immediate and delayed) and deletion of every generated stream, random multi-fault plans with bursts up to 15, and all 6^7 fault words on a 2-PID micro stream.",
         "FirstPacket metadata is not compared (header flags are what the faults alter); plans violating the property's precondition are skipped and counted.", "DESIGN.md §4 C06"),
 "C07": ("exploration", "metamorphic runtime monitor: per-PID output under order-preserving merges, inserted null/AF-only/TEI packets and single-PID corruption vs a canonical merge",
         "K random and extreme merges per model (clean and damaged PIDs), all 70 / 1680 merges of micro streams, insertions at every position, five corruption kinds confined to one PID plus well-formed garbage (a table_id 0 section on another PID naming the model's PIDs), captures joined in mid-stream.",
         "PAT completes before PMT packets in every merge; errors are not units.", "DESIGN.md §4 C07"),
 "C08": ("exploration", "metamorphic runtime monitor: demuxer output under read schedules, reader kinds, auto-detection and 188+k framing vs the baseline configuration; reader tap records the reads actually served",
         "Fixed chunk sizes (all 1..400 in thorough), random chunks, a cut at every offset of the first 400 bytes, seekable/bufio (buffers 16 bytes and up)/plain x explicit/auto, 188+k for k up to 64, streams shorter than the detection window, readers delivering data with io.EOF or returning (0, nil), handover of a read-only reader after a table.",
         "Inputs respect the auto-detector's documented assumption; plain+auto is judged as suffix + chunk independence.", "DESIGN.md §4 C08"),
 "C19": ("exploration", "callback taps on PacketSkipper / PacketsParser + differential against the harness-filtered stream and the model's units",
         "Ten predicate families x both APIs on clean and gapped streams; observer, replacer and failing parsers.",
         "Parser errors during the end-of-stream drain are logged by the library and not required to surface.", "DESIGN.md §4 C19"),
 "C20": ("exploration", "runtime monitor: Rewind at every call count, result sequence compared with a fresh Demuxer; reader tap confirms the seek",
         "Every k in 0..calls (strided for long streams in quick) x three APIs x explicit/auto x repeated rewinds x chunked reads, classified by state at rewind time.",
         "In-memory seekable reader; streams satisfy the PAT-before-PMT precondition.", "DESIGN.md §4 C20"),
 "C01": ("exploration", "round-trip runtime monitor: Muxer histories -> writer tap -> library Demuxer and independent reference reassembly, compared with the expected log kept by the harness",
         "Random histories (explicit/auto PIDs, all stream types, ES descriptors, removals and re-adds, failing calls) with boundary payload lengths, all writer-supported PES header combinations, first-packet adaptation fields of every fit class incl. requested stuffing and oversized ones; sweep of every payload length 1..1200 (+65500..65600 thorough) for 8 shapes; remultiplexing of parsed PES / adaptation fields / PMT entries; rejected calls repaired on the same object; discontinuity indicators (one known finding).",
         "Trusts refts (PES/packet/PSI codecs); StreamID 0 compared with StreamType.ToPESStreamID; an adaptation field too big to share the first packet is only required not to disturb the PES.", "DESIGN.md §4 C01"),
 "C03": ("exploration", "hostile-input runtime monitor in isolated child processes: call guard (panics), logical call bound to ErrNoMorePackets, post-EOF calls, truncated-final-packet equivalence; journal + watchdog for non-returning calls",
         "Random, structured-then-mutated (9 mutation kinds over reference- and library-muxed streams with rich tables), truncated-at-every-offset, empty and tiny inputs, stored fuzz corpora; configuration cross product packet size x reader (bufio buffers 16..4096) x read schedule x API x options; w whole packets + a truncated one (w >= 0) must end without an error on every reader kind.",
         "Termination is a logical bound (calls ≤ len+64); a watchdog firing outside a library frame is inconclusive.", "DESIGN.md §4 C03"),
 "C04": ("exploration", "writer tap + call records + independent packet/section decoder applied after every call of random Muxer histories (valid and rejected arguments) and an exhaustive WritePacket size grid",
         "Every call: output length multiple of 188, returned n equals bytes delivered, every packet conformant, unit starts flagged correctly, PES length consistent; rejected calls leave nothing partial; inconsistent private data lengths, oversized extension reserved bytes, streams asked for on reserved PIDs, edge PES headers, retries on the same adaptation field object.",
         "The writer accepts everything (failures are C18); WritePacket inputs are self-consistent packets or oversize ones.", "DESIGN.md §4 C04"),
 "C05": ("exploration", "online trace checker of continuity_counter per PID over the writer tap's packet log, driven by the C04 histories",
         "PAT, PMT and every elementary PID between Add and Remove, ≥16 packets per PID (wrap), failing table emissions followed by successful ones, adaptation fields leaving no room for the PES header (also as first packet of a PID), removals and re-adds, streams asked for on reserved PIDs; packets without payload must repeat the counter.",
         "Packets without payload neither advance nor consume the counter.", "DESIGN.md §4 C05"),
 "C09": ("fault_enumeration", "corruption injection on reference-encoded sections (every single-bit flip per unit, substitutions, bursts, length rewrites, truncation) with the reference decoder's accept/reject as oracle; Muxer/writePSIData sections judged by the reference CRC and length walk",
         "All bit flips of 216 (quick) / 3000 (thorough) units across the six table types, 20k/500k other corruptions; every PAT/PMT the Muxer emits for ES descriptors of every supported tag (Length right/0/wrong).",
         "Error or nothing is always acceptable for a corrupted unit.", "DESIGN.md §4 C09"),
 "C16": ("exploration", "alias monitor (deep snapshots re-compared after later calls, pool recycling, input poisoning) + Go race detector over concurrent independent instances compared with solo runs",
         "Every returned Packet/DemuxerData snapshotted and re-compared; Muxer caller bytes re-compared; N in {2..64} goroutines x repetitions under -race with GC/Gosched pressure; switch points counted.",
         "Schedules are those the Go scheduler produced; race reports without a library frame are inconclusive.", "DESIGN.md §4 C16"),
 "C17": ("exploration", "reference state machine (from the property statement) over the writer tap's packet log; bounded-exhaustive histories + random histories",
         "All operation words up to length 5 (quick) / 6 (thorough) over a 9-letter alphabet x periods 1..3, random histories to 200 operations with >32 content changes and failing emissions, explicit-vs-automatic PID collisions.",
         "Required emission points are a lower bound; failing WriteData calls are not counted towards the period.", "DESIGN.md §4 C17"),
 "C18": ("fault_enumeration", "reader/writer taps injecting a sentinel failure at every byte offset / every Write call index; errors.Is and byte accounting as oracle",
         "Reader: every offset of small streams (strided for larger) x 3 reader kinds x explicit/auto x 2 APIs. Writer: every Write index of the fault-free run x permanent/one-shot x reject/partial.",
         "After the first surfaced error the run stops.", "DESIGN.md §4 C18"),
}

NOT_YET = {}

def main():
    props = [json.loads(l) for l in open('/verif/properties.jsonl')]
    checks = []
    na = []
    for p in props:
        i = p['id']
        if i in CHECKS:
            cat, tech, text, note, ref = CHECKS[i]
            checks.append({
                "property_id": i,
                "quick_cmd": f"./check {i} quick",
                "thorough_cmd": f"./check {i} thorough",
                "evidence_file": f"/verif/evidence/{i}.json",
                "replay_cmd_template": "bin/vmon replay {path}",
                "engine": "vmon",
                "level_claimed": {"category": cat, "text": text, "design_ref": ref},
                "level_note": note,
                "technique": tech,
            })
        else:
            na.append({"property_id": i, "reason": NOT_YET.get(i, "monitor not built yet in this round (work in progress; design in DESIGN.md §4) — not claimed until its check exists and is silent on the unchanged tree")})
    hooks_commits = subprocess.run(["git","-C","/repo","log","--format=%H","--grep=^verif:"],capture_output=True,text=True).stdout.split()
    m = {
        "version": 1,
        "setup_cmd": "cd /verif/harness && export GOFLAGS=-mod=mod GOPROXY=off GOSUMDB=off GOTOOLCHAIN=local && mkdir -p ../bin && go build -tags verif -o ../bin/vmon ./cmd/vmon && go build -race -tags verif -o ../bin/vmon-race ./cmd/vmon",
        "hooks": {
            "guard": "verif",
            "enable": "Go build tag: the harness module (replace => /repo) is built with `go build -tags verif`, which adds /repo/verif_hooks.go (exports of existing pure functions only)",
            "baseline_off_cmd": "cd /repo && GOFLAGS=-mod=mod GOPROXY=off GOSUMDB=off GOTOOLCHAIN=local go test -vet=off -count=1 ./...",
            "source_commits": hooks_commits,
            "add_only": True,
        },
        "engines": [{"name": "vmon", "path": "/verif/harness/cmd/vmon", "serves_properties": sorted(CHECKS), "kind_free_text": "runtime monitors: workload generators + taps on io.Reader/io.Writer/callbacks + independent reference codec (refts) as oracle; child-process isolation; Go race detector for C16"}],
        "checks": checks,
        "not_applicable": na,
        "notes": "Every check is `./check <ID> <tier>`: it rebuilds bin/vmon from /repo's working tree with -tags verif and runs the property's monitors in child processes. Exit 0 held / 1 VIOLATION / 3 INCONCLUSIVE. Known findings: /verif/KNOWN_FINDINGS.txt.",
    }
    json.dump(m, open('/verif/MANIFEST.json','w'), indent=1)
    print("checks:", [c['property_id'] for c in checks], "na:", len(na))

main()
